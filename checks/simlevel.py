"""Runs the sim_mc explorer and maps its violation records onto a property."""
import json, subprocess, sys, os
sys.path.insert(0, os.path.join(os.path.dirname(os.path.dirname(os.path.abspath(__file__))), "lib"))
import vbuild
from concurrent.futures import ThreadPoolExecutor


# every operation history up to the given length as its own node (no merging on the canonical state): catches behaviour that depends on
# simulator state the canonical key (amplitudes + measured flags) cannot see
HISTORY_RUNS_QUICK = [["bfs", "full", 2, 6, 9000000, 6], ["bfs", "full", 3, 6, 9000000, 6]]
# the same search over a complex alphabet {h, y, rx(pi/2), rz(pi/3), cx, measure, reset}: the real alphabet {h, x, ry, cx} never produces an
# amplitude with a vanishing real part (seed C02-3)
COMPLEX_RUNS_QUICK = [["bfs", "fullc", 2, 6], ["bfs", "fullc", 3, 5]]
COMPLEX_RUNS_THOROUGH = [["bfs", "fullc", 2, 8], ["bfs", "fullc", 3, 7]]
HISTORY_RUNS_THOROUGH = [["bfs", "full", 2, 7, 9000000, 7], ["bfs", "full", 3, 6, 9000000, 6]]


def sim_mc(args, variant="asan"):
    exe = vbuild.ensure(variant, ["sim_mc"])["sim_mc"]
    p = subprocess.run([exe] + [str(a) for a in args], stdout=subprocess.PIPE, stderr=subprocess.PIPE)
    if p.returncode != 0:
        return {"crashed": True, "rc": p.returncode, "stderr": p.stderr.decode(errors="replace")[-3000:], "args": args, "violations": []}
    d = json.loads(p.stdout.decode())
    d["args"] = [str(a) for a in args]
    return d


def run_all(arglists, variant="asan"):
    with ThreadPoolExecutor(max_workers=8) as ex:
        return list(ex.map(lambda a: sim_mc(a, variant), arglists))


def report(ck, results, props):
    """props: set of property ids whose violations belong to this check"""
    for d in results:
        if d.get("crashed"):
            ck.violation("sim:crash:" + " ".join(map(str, d["args"])), "sim_mc %s died (rc=%s): %s" % (d["args"], d["rc"], d["stderr"]),
                         {"tool": "sim_mc", "args": d["args"]})
            continue
        for v in d["violations"]:
            if v["prop"] == "HARNESS":
                ck.harness_error("%s: %s [%s]" % (v["key"], v["what"], v["history"]))
            if v["prop"] in props:
                ck.violation(v["key"], "%s  (x%d)  history: %s" % (v["what"], v["count"], v["history"]), {"tool": "sim_mc", "args": ["replay", v["history"]]})
