"""C05 - the emitted OpenQASM 2.0 replays to the simulated state. Every program of a quantum template grammar (gates reached
directly, through functions, methods, loops, conditionals on measured bits, arrays, object fields, recycled field qubits)
x every outcome history; the emitted text is parsed by a strict reader, compared statement by statement with the independent
operation tap, replayed on the reference interpreter with the recorded outcomes, and compared with the CLI's file/stdout."""
import itertools, math
import vcheck, vdrv, qcheck, refsim

PRELUDE = """class O {
    public qubit q;
    public constructor() -> O = default;
    public function m() -> void { ry(this.q, 0.5f); }
    public function ent(qubit t) -> void { cx(this.q, t); }
}
@quantum function qg(qubit t) -> void { h(t); rz(t, 0.25f); }
function plain(qubit t, qubit u) -> void { cx(u, t); rx(t, 1.5f); }
"""
# statement alphabet: (text, needs-active, measures, resets)
ALPHA = [
    ("h(a);", {"a"}, set(), set()),
    ("x(r[0]);", {"r0"}, set(), set()),
    ("y(o.q);", {"oq"}, set(), set()),
    ("rx(a, 0.5f);", {"a"}, set(), set()),
    ("rz(r[1], -0.75f);", {"r1"}, set(), set()),
    ("cx(a, r[0]);", {"a", "r0"}, set(), set()),
    ("cx(r[1], a);", {"a", "r1"}, set(), set()),
    ("cx(o.q, a);", {"a", "oq"}, set(), set()),
    ("qg(r[0]);", {"r0"}, set(), set()),
    ("plain(a, r[1]);", {"a", "r1"}, set(), set()),
    ("o.m();", {"oq"}, set(), set()),
    ("o.ent(r[1]);", {"oq", "r1"}, set(), set()),
    ("for (int i = 0; i < 2; i = i + 1) { x(r[i]); }", {"r0", "r1"}, set(), set()),
    ("for (int i = 0; i < 2; i = i + 1) { h(r[i]); }", {"r0", "r1"}, set(), set()),
    ("bit m{n} = measure a; if (m{n}) { x(r[0]); } else { z(r[0]); }", {"a", "r0"}, {"a"}, set()),
    ("measure r[1];", {"r1"}, {"r1"}, set()),
    ("measure r;", {"r0", "r1"}, {"r0", "r1"}, set()),
    ("reset a;", set(), set(), {"a"}),
    ("reset o.q;", set(), set(), {"oq"}),
    ("o = null; o = new O();", set(), set(), {"oq"}),
]


# the statements whose interplay carries simulator/evaluator state from one operation to the next (flips, cx in both roles, measurement,
# every kind of reset and re-allocation): sequences over this core are enumerated one statement deeper than the full alphabet
CORE = [0, 1, 5, 6, 7, 12, 15, 17, 18, 19]


def programs(k, only=None):
    out = []

    def rec(seq, measured):
        if seq:
            out.append(list(seq))
        if len(seq) >= k:
            return
        for i, (txt, need, meas, res) in enumerate(ALPHA):
            if only is not None and i not in only:
                continue
            if need & measured:
                continue
            seq.append(i)
            rec(seq, (measured | meas) - res)
            seq.pop()
    rec([], set())
    return out


def render(seq):
    body = ["qubit pad;", "qubit a;", "qubit[2] r;", "O o = new O();"]
    for n, i in enumerate(seq):
        body.append(ALPHA[i][0].replace("{n}", str(n)))
    return PRELUDE + "function main() -> void {\n    " + "\n    ".join(body) + "\n}\n"


def check_record(rec):
    """-> list of problems for one run record (needs ops, draws, qasm, amps)"""
    probs = []
    try:
        n, qops = refsim.parse_qasm(rec["qasm"])
    except refsim.QasmError as e:
        return ["emitted text is not well-formed OpenQASM 2.0: %s" % e]
    if n != rec["nq"]:
        probs.append("qreg/creg are sized %d but the run used %d simulator qubits" % (n, rec["nq"]))
    tap = [o for o in rec["ops"] if o[0] != "alloc"]
    if len(tap) != len(qops):
        probs.append("the run performed %d quantum operations but the text lists %d" % (len(tap), len(qops)))
    for idx, (t, q) in enumerate(zip(tap, qops)):
        if t[0] != q[0] or t[1] != q[1] or (t[0] == "cx" and t[2] != q[2]):
            probs.append("statement #%d of the text is '%s q%s' but operation #%d performed was '%s q%s'" % (idx, q[0], [q[1], q[2]], idx, t[0], [t[1], t[2]]))
            break
        if t[0] in ("rx", "ry", "rz") and not abs(t[3] - q[3]) <= 5e-7:
            probs.append("statement #%d prints angle %r but the rotation applied was %r" % (idx, q[3], t[3]))
            break
    if probs:
        return probs
    # recorded outcomes in order of measure/reset statements
    outcomes = []
    di = 0
    draws = rec["draws"]
    for t in tap:
        if t[0] == "measure":
            outcomes.append(t[4])
            di += 1
        elif t[0] == "reset":
            d = draws[di] if di < len(draws) else None
            di += 1
            outcomes.append(1 if (d and d[3] < d[2]) else 0)
    try:
        st = refsim.replay_qasm(n, qops, outcomes)
    except refsim.QasmError as e:
        # a reset whose recorded branch is impossible in the replay: try the other branch (p0 == 0 fallback of the simulator)
        return ["replaying the text with the recorded outcomes fails: %s" % e]
    amps = refsim.amps_from_json(rec["amps"])
    nrot = sum(1 for q in qops if q[0] in ("rx", "ry", "rz"))
    d = refsim.dist_up_to_phase(amps, st)
    if not d <= 1e-5 * (nrot + 1):
        probs.append("replaying the emitted text gives a state that differs from the simulator's final state by %g" % d)
    return probs


def _one(seq):
    src = render(seq)
    runs, capped = qcheck.dfs_outcomes(src, gc="own", max_runs=24, want="amps,ops,qasm")
    bad = []
    shapes = set()
    for script, r in runs:
        if r.crash or r.status() != "ok":
            bad.append((script, "status %s: %s" % (r.status(), (r.rec or {}).get("msg", r["fd2"][:300]))))
            continue
        for p in check_record(r.rec):
            bad.append((script, p))
        shapes.add(tuple(o[0] for o in r.rec["ops"]))
    return src, bad, len(runs), len(shapes), capped


def _cli(seq):
    """the .qasm file written next to the source equals what --emit-qasm prints (after the program's own output)"""
    src = render(seq) .replace("function main() -> void {", "function main() -> void {\n    echo(\"start\");", 1)
    bad = []
    for argv, shots in ((["bloch", "--emit-qasm", "main.bloch"], 1), (["bloch", "--shots=2", "--emit-qasm", "main.bloch"], 2)):
        r = vdrv.run_job({"id": "c", "kind": "cli", "opts": {"hook_draws": 1, "gc": "own"}, "argv": argv, "files": {"main.bloch": src}})
        rec = r.rec
        if r.crash or rec is None:
            bad.append("CLI died: %s %s" % (r.crash, r["fd2"][:300]))
            continue
        if rec["rc"] != 0:
            bad.append("CLI exit %s: %s" % (rec["rc"], rec["stderr"][-300:]))
            continue
        f = rec["files"].get("main.qasm")
        if f is None:
            bad.append("no main.qasm was written next to the source")
            continue
        if not rec["stdout"].endswith(f):
            bad.append("%s: stdout does not end with the bytes of main.qasm\nstdout tail: %r\nfile: %r" % (" ".join(argv), rec["stdout"][-len(f) - 40:], f))
        try:
            n, qops = refsim.parse_qasm(f)
            # every shot performs the same operations here (all draws take the default branch), so the file must list
            # 1/shots of what the operation tap counted over the whole run
            listed = {}
            for q in qops:
                listed[q[0]] = listed.get(q[0], 0) + 1
            tapped = {k2: v for k2, v in rec["opcounts"].items() if k2 != "alloc"}
            if {k2: v * shots for k2, v in listed.items()} != tapped:
                bad.append("%s: main.qasm lists %s but the %d shot(s) performed %s in total" % (" ".join(argv), listed, shots, tapped))
        except refsim.QasmError as e:
            bad.append("main.qasm is not well-formed: %s" % e)
    return src, bad


# ---- edge family (hunt C05): calls that cannot be written as OpenQASM must be refused, not logged. A program of this family may end in a
# located runtime error; if it runs to the end its text is held to the same standard as every other program.
EDGE_PRELUDE = PRELUDE + """class G<T> { public qubit q; public constructor() -> G<T> = default; public function rot(T ang) -> void { rx(this.q, ang); } }
function both(qubit t, qubit u) -> void { cx(t, u); }
"""
EDGE_BODIES = {
    "cx-same-variable": "cx(a, a);",
    "cx-same-through-function": "both(a, a);",
    "cx-same-through-plain": "plain(a, a);",
    "cx-same-through-method": "o.ent(o.q);",
    "cx-same-element": "cx(r[0], r[0]);",
    "cx-index-pairs": "for (int i = 0; i < 2; i = i + 1) { for (int j = 0; j < 2; j = j + 1) { if (i != j) { cx(r[i], r[j]); } } }",
    "cx-index-pairs-including-equal": "for (int i = 0; i < 2; i = i + 1) { for (int j = 0; j < 2; j = j + 1) { cx(r[i], r[j]); } }",
    "cx-alias-handle": "qubit al = a; cx(al, a);",
    "untaken-branch-declares-two": "false ? qubit ta, tb; : h(a);",
    "taken-branch-declares-two": "true ? qubit ta, tb; : h(a);",
    "alias-declaration": "qubit al = a; h(al); cx(al, r[0]);",
    "alias-declaration-in-loop": "for (int i = 0; i < 3; i = i + 1) { qubit al = r[1]; x(al); }",
    "angle-overflow-to-inf": "float big = 10000000000.0f; for (int i = 0; i < 12; i = i + 1) { big = big * big; } rx(a, big);",
    "angle-nan": "float big = 10000000000.0f; for (int i = 0; i < 12; i = i + 1) { big = big * big; } ry(a, big - big);",
    "angle-negative-inf": "float big = 10000000000.0f; for (int i = 0; i < 12; i = i + 1) { big = big * big; } rz(r[1], 0.0f - big);",
    "angle-large-finite": "rx(a, 123456.5f);",
    # (seed C05-4) the printed angle is the applied angle for whole numbers, multiples of ten, tiny and negative values alike
    "angle-grid-whole": "rx(a, 10.0f); ry(a, 20.0f); rz(a, 100.0f); rx(a, 0.0f - 30.0f); ry(a, 1.0f); rz(a, 1000.0f); rx(a, 0.0f);",
    "angle-grid-fraction": "rx(a, 2.5f); ry(a, 10.5f); rz(a, 0.000001f); rx(a, 0.0f - 0.5f); ry(a, 100.25f); rz(a, 3.141593f); rx(a, 1000000.0f);",
    "angle-grid-computed": "float st = 2.5f; for (int i = 0; i < 9; i = i + 1) { rx(a, st * (float) i); ry(r[0], 10.0f * (float) i); }",
    "angle-int-through-type-parameter": "G<int> g = new G<int>(); g.rot(3);",
    "angle-float-through-type-parameter": "G<float> g = new G<float>(); g.rot(0.5f);",
}
EDGE_THETA = {"angle-int-through-type-parameter": 3.0, "angle-float-through-type-parameter": 0.5, "angle-large-finite": 123456.5}
EDGE_NQ = {"untaken-branch-declares-two": 5, "taken-branch-declares-two": 7, "alias-declaration": 5, "alias-declaration-in-loop": 5, "cx-index-pairs": 5, "angle-large-finite": 5}     # pad, a, r[0], r[1], o.q
EDGE_MUST_RUN = {"angle-grid-whole", "angle-grid-fraction", "angle-grid-computed", "untaken-branch-declares-two", "taken-branch-declares-two", "alias-declaration", "alias-declaration-in-loop", "cx-index-pairs", "angle-large-finite", "angle-float-through-type-parameter", "angle-int-through-type-parameter"}


def edge_programs():
    for name, body in EDGE_BODIES.items():
        for pre, post in (("", ""), ("h(a);", "x(r[1]);"), ("x(a); measure pad;", "reset a;")):
            src = EDGE_PRELUDE + "function main() -> void {\n    qubit pad;\n    qubit a;\n    qubit[2] r;\n    O o = new O();\n    %s\n    %s\n    %s\n}\n" % (pre, body, post)
            yield ("edge:%s:%s" % (name, "bare" if not pre else ("gates" if "measure" not in pre else "measured")), src, 5 + (1 if pre else 0) + EDGE_PRELUDE.count("\n") + 1)


def _edge(item):
    name, src, body_line = item
    runs, capped = qcheck.dfs_outcomes(src, gc="own", max_runs=8, want="amps,ops,qasm")
    bad = []
    kind = name.split(":")[1]
    for script, r in runs:
        if r.crash or r.rec is None:
            bad.append((script, "the interpreter died: %s %s" % (r.crash, r["fd2"][:200])))
            continue
        st = r.status()
        if st == "runtime":
            if kind in EDGE_MUST_RUN:
                bad.append((script, "a program whose every gate call can be written as OpenQASM was stopped: %s" % r.rec.get("msg")))
            elif not (r.rec.get("line", 0) > 0 and r.rec.get("col", 0) > 0):
                bad.append((script, "the refusal carries no source position: %s" % r.rec.get("msg")))
            continue
        if st != "ok":
            bad.append((script, "status %s: %s" % (st, r.rec.get("msg"))))
            continue
        for p in check_record(r.rec):
            bad.append((script, p))
        if kind in EDGE_NQ and r.rec["nq"] != EDGE_NQ[kind]:
            bad.append((script, "the program declares %d qubits (a handle copy 'qubit al = a;' declares none) but the registers are sized %d" % (EDGE_NQ[kind], r.rec["nq"])))
        if kind in EDGE_THETA:
            rots = [o for o in r.rec["ops"] if o[0] in ("rx", "ry", "rz") and abs(o[3] - EDGE_THETA[kind]) < 1e-9]
            if not rots:
                bad.append((script, "the program rotates by %r but no rotation with that angle was performed: %s" % (EDGE_THETA[kind], [o[:4] for o in r.rec["ops"] if o[0] in ("rx", "ry", "rz")])))
    return name, src, bad, len(runs)


def _cli_paths(_):
    """the .qasm file is written NEXT TO THE SOURCE whatever the source is called, equals what --emit-qasm prints, and is not the source"""
    src = PRELUDE + "function main() -> void {\n    qubit a;\n    h(a);\n    measure a;\n}\n"
    bad = []
    n = 0
    for path, want in (("main.bloch", "main.qasm"), ("sub/main.bloch", "sub/main.qasm"), ("proj.v2/circuit", "proj.v2/circuit.qasm"), ("./circuit", "circuit.qasm"),
                       ("dir.x/prog.bloch", "dir.x/prog.qasm"), ("a.b.bloch", "a.b.qasm"), ("saved.qasm", None), ("dir.y/saved.qasm", None)):
        for extra in ([], ["--shots=2"]):
            argv = ["bloch", "--emit-qasm"] + extra + [path]
            r = vdrv.run_job({"id": "c", "kind": "cli", "opts": {"hook_draws": 1, "gc": "own"}, "argv": argv, "files": {path[2:] if path.startswith("./") else path: src}})
            n += 1
            rec = r.rec
            if r.crash or rec is None:
                bad.append("%s: CLI died: %s" % (" ".join(argv), r.crash))
                continue
            if rec["rc"] != 0:
                bad.append("%s: CLI exit %s: %s" % (" ".join(argv), rec["rc"], rec["stderr"][-200:]))
                continue
            rel = path[2:] if path.startswith("./") else path
            files = dict(rec["files"])
            if rel.endswith(".qasm"):
                if files.get(rel) != src:
                    bad.append("%s: the source file was overwritten with the run's own output" % " ".join(argv))
                files.pop(rel, None)
            srcdir = rel.rsplit("/", 1)[0] if "/" in rel else ""
            if len(files) != 1:
                bad.append("%s: expected one .qasm file next to the source, found %s" % (" ".join(argv), sorted(files)))
                continue
            (fname, content), = files.items()
            fdir = fname.rsplit("/", 1)[0] if "/" in fname else ""
            if fdir != srcdir or (want is not None and fname != want):
                bad.append("%s: the .qasm file was written to %r, not next to the source (%s)" % (" ".join(argv), fname, want or ("directory %r" % srcdir)))
            if not rec["stdout"].endswith(content) or not content:
                bad.append("%s: stdout does not end with the bytes of %s" % (" ".join(argv), fname))
    return src, bad, n


def main(tier):
    ck = vcheck.Check("C05", "translation_validation", tier)
    k = 4 if tier == "thorough" else 3
    ck.set_deadline(1500 if tier == "thorough" else 160)
    progs = programs(k)
    have = set(map(tuple, progs))
    progs += [q for q in programs(k + 1, set(CORE)) if tuple(q) not in have]
    rot = ck.seed % len(progs)
    progs = progs[rot:] + progs[:rot]
    nprog = nruns = nshapes = 0
    B = 1500
    for start in range(0, len(progs), B):
        if ck.out_of_time():
            ck.cap("deadline after %d of %d programs (k=%d)" % (nprog, len(progs), k))
            break
        for src, bad, n, ns, capped in vdrv.pmap(_one, progs[start:start + B], chunksize=8):
            nprog += 1
            nruns += n
            nshapes += ns
            if capped:
                ck.cap("outcome DFS capped at 24 histories for some program")
            for script, p in bad:
                ck.violation("run:" + " ".join(p.split(" ")[:6]), "%s\ndraws=%s\nprogram:\n%s" % (p, list(script), src),
                             {"tool": "vdrv", "job": {"kind": "run", "opts": {"want": "amps,ops,qasm", "gc": "own", "draws": ",".join(map(str, script)), "warn": 0}, "blobs": {"src": src}}})
            if nprog % 1013 == 1:
                ck.sample({"program": src})
    sub = progs[::29] if tier == "thorough" else progs[::47]
    ncli = 0
    for src, bad in vdrv.pmap(_cli, sub, chunksize=4):
        ncli += 1
        for p in bad:
            ck.violation("cli:" + " ".join(p.split(" ")[:5]), "%s\nprogram:\n%s" % (p, src), {"tool": "vdrv", "job": {"kind": "cli", "opts": {"hook_draws": 1, "gc": "own"}, "argv": ["bloch", "--emit-qasm", "main.bloch"], "files": {"main.bloch": src}}})
    nedge = 0
    for name, esrc, bad, n in vdrv.pmap(_edge, list(edge_programs()), chunksize=2):
        nedge += 1
        nruns += n
        for script, p in bad:
            ck.violation("edge:%s:%s" % (name.split(":")[1], " ".join(p.split(" ")[:5])), "%s\ncase %s\ndraws=%s\nprogram:\n%s" % (p, name, list(script), esrc),
                         {"tool": "vdrv", "job": {"kind": "run", "opts": {"want": "amps,ops,qasm", "gc": "own", "draws": ",".join(map(str, script)), "warn": 0}, "blobs": {"src": esrc}}})
    psrc, pbad, npaths = _cli_paths(None)
    for p in pbad:
        ck.violation("cli-path:" + " ".join(p.split(": ", 1)[1].split(" ")[:6]), "%s\nprogram:\n%s" % (p, psrc), {"tool": "text", "case": p + "\n" + psrc})
    ck.assumptions += ["angles are compared to the tapped rotation with the six-decimal precision of std::to_string (5e-7); the replay tolerance is 1e-5 per rotation",
                       "the reader accepts exactly what the property describes (header, one qreg/creg of equal size, g q[i]; r(theta) q[i]; cx q[i],q[j] with i != j; measure q[i] -> c[i]; reset q[i];)"]
    ck.finish({"programs": nprog, "disagreements_checked": nruns, "samples": ck.samples or ["(none)"], "programs_total": len(progs), "runs": nruns, "distinct_operation_sequences": nshapes,
               "cli_programs": ncli, "edge_programs": nedge, "cli_path_runs": npaths, "statement_bound": k, "core_statement_bound": k + 1, "core_alphabet": len(CORE), "evaluations": nruns, "distinct_nontrivial": nshapes}, exhaustive=True)
