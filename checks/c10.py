"""C10 - independence from top-level declaration order. Every dependency-closed subset (up to a size bound) of a pool of
top-level declarations (functions with 0/1/2 parameters called before/after their declaration and from methods; base/derived
classes with fields and overrides; a generic base with a non-generic subclass; a static class) plus main, in ALL permutations:
every permutation must give the same status category and print the same."""
import itertools
import vcheck, vdrv

DECLS = {
    "z0": ("function z0() -> int { return 1; }", [], ["echo(z0());"]),
    "f1": ("function f1(int a) -> int { return a + 1; }", [], ["echo(f1(4));"]),
    "f2": ("function f2(int a, int b) -> int { return f1(a) * b; }", ["f1"], ["echo(f2(2, 3));"]),
    "fv": ("function fv(int a) -> void { echo(\"fv\" + a); }", [], ["fv(9);"]),
    "rec": ("function even(int n) -> boolean { if (n == 0) { return true; } return odd(n - 1); }\nfunction odd(int n) -> boolean { if (n == 0) { return false; } return even(n - 1); }", [], ["echo(even(4));", "echo(odd(4));"]),
    "B": ("class B { public int b = 1; public int b2 = 11; public constructor() -> B = default; public virtual function m() -> int { return this.b + f1(1); } public function keep() -> int { return this.b2; } }",
          ["f1"], ["B ob = new B();", "echo(ob.m());", "echo(ob.keep());"]),
    "D": ("class D extends B { public int d = 2; public constructor() -> D { super(); } public virtual override function m() -> int { return this.b * 10 + this.d; } public function own() -> int { return this.d + this.b2; } }",
          ["B"], ["B od = new D();", "echo(od.m());", "D dd = new D();", "echo(dd.own());", "echo(dd.b);", "echo(dd.d);", "echo(dd.keep());"]),
    "E": ("class E extends D { public int e = 3; public constructor() -> E { super(); } public override function m() -> int { return this.e + this.d * 100; } }",
          ["D"], ["B oe = new E();", "echo(oe.m());", "E ee = new E();", "echo(ee.e);", "echo(ee.d);", "echo(ee.b2);"]),
    "G": ("class G<T> { public T v; public int tag = 7; public constructor() -> G<T> { this.tag = 8; } public virtual function get() -> int { return this.tag + 1; } }",
          [], ["G<int> gi = new G<int>();", "echo(gi.get());", "echo(gi.tag);"]),
    "H": ("class H extends G<int> { public int h = 5; public constructor() -> H { super(); } public function both() -> int { return this.get() + this.h + this.tag; } public override function get() -> int { return this.tag * 2; } }",
          ["G"], ["H oh = new H();", "echo(oh.both());", "echo(oh.h);", "echo(oh.tag);", "G<int> gh = new H();", "echo(gh.get());"]),
    "Sh": ("class Sh { public int sides; public constructor(int s) -> Sh { this.sides = s; } public virtual function describe() -> string { return \"shape\"; } }", [],
           ["Sh sh = new Sh(4);", "echo(sh.describe());"]),
    "Tri": ("class Tri extends Sh { public constructor() -> Tri { super(3); } public override function describe() -> string { return \"triangle\"; } }", ["Sh"],
            ["Sh st = new Tri();", "echo(st.describe());", "echo(st.sides);"]),
    "Hold": ("class Hold<T extends Sh> { public T item; public constructor(T item) -> Hold<T> { this.item = item; } public function sides() -> int { return this.item.sides; } public function kind() -> string { return this.item.describe(); } }",
             ["Sh"], ["Hold<Sh> hs = new Hold<Sh>(new Sh(5));", "echo(hs.sides());", "echo(hs.kind());"]),
    "TH": ("class TH extends Hold<Tri> { public string tag; public constructor(Tri t, string tag) -> TH { super(t); this.tag = tag; } }", ["Hold", "Tri"],
           ["TH th = new TH(new Tri(), \"held\");", "echo(th.tag);", "echo(th.sides());", "echo(th.kind());"]),
    "S": ("static class S { public static int count = 4; public static function twice(int a) -> int { return f1(a) * 2; } }", ["f1"], ["echo(S.twice(3));", "echo(S.count);"]),
    "U": ("class U { public int u = 6; public constructor() -> U = default; public function viaS() -> int { return S.twice(this.u); } }", ["S"], ["U ou = new U();", "echo(ou.viaS());"]),
    # abstractness inherited over three levels: a bodyless virtual in the root, a middle class that does not implement it (and is not
    # marked abstract), leaves that do / do not implement it - 'new' on the unimplemented leaf must be rejected in EVERY order
    "Abs": ("abstract class Abs { public constructor() -> Abs = default; public virtual function area() -> int; public function twice() -> int { return this.area() * 2; } }", [], []),
    "Mid": ("class Mid extends Abs { public int sides = 4; public constructor() -> Mid { super(); } public function corners() -> int { return this.sides; } }", ["Abs"], []),
    "Leaf": ("class Leaf extends Mid { public constructor() -> Leaf { super(); } public override function area() -> int { return 16; } }", ["Mid"],
             ["Abs al = new Leaf();", "echo(al.twice());", "Leaf ll = new Leaf();", "echo(ll.corners());"]),
    "BadLeaf": ("class BadLeaf extends Mid { public constructor() -> BadLeaf { super(); } }", ["Mid"], ["BadLeaf bl = new BadLeaf();", "echo(bl.corners());"]),
    # a chain of generic bases under a plain root, instantiated by a non-generic leaf: every level contributes a field
    "GB": ("class GB { public int gb = 1; public constructor() -> GB = default; public virtual function who() -> string { return \"GB\"; } }", [], ["GB ogb = new GB();", "echo(ogb.gb);"]),
    "GH": ("class GH<T> extends GB { public int gh = 2; public constructor() -> GH<T> { super(); } public override function who() -> string { return \"GH\"; } }", ["GB"],
           ["GH<int> ogh = new GH<int>();", "echo(ogh.gh);", "echo(ogh.gb);", "echo(ogh.who());"]),
    "GG": ("class GG<T> extends GH<T> { public int gg = 3; public constructor() -> GG<T> { super(); } }", ["GH"],
           ["GG<int> ogg = new GG<int>();", "echo(ogg.gg);", "echo(ogg.gh);", "echo(ogg.gb);"]),
    "GD": ("class GD extends GG<int> { public int gd = 4; public constructor() -> GD { super(); } }", ["GG"],
           ["GD ogd = new GD();", "echo(ogd.gd);", "echo(ogd.gg);", "echo(ogd.gh);", "echo(ogd.gb);", "GB up = new GD();", "echo(up.who());"]),
    # a generic subclass that re-orders / re-binds the parameters of its generic base
    "Cl": ("class Cl<T> { public T v; public constructor(T x) -> Cl<T> { this.v = x; } public function get() -> T { return this.v; } public function put(T x) -> void { this.v = x; } }", [],
           ["Cl<string> cs = new Cl<string>(\"plain\");", "cs.put(\"again\");", "echo(cs.get());"]),
    "Tg": ("class Tg<T, U> extends Cl<U> { public T tag; public constructor(T t, U u) -> Tg<T, U> { super(u); this.tag = t; } }", ["Cl"],
           ["Tg<int, string> tg = new Tg<int, string>(7, \"eight\");", "echo(tg.get());", "echo(tg.tag);", "Cl<string> up = tg;", "echo(up.get());"]),
    # static initialisers that read another class's static
    "SB": ("class SB { public static int y = 5; public constructor() -> SB = default; }", [], ["echo(SB.y);"]),
    "SA": ("class SA { public static int x = SB.y + 1; public constructor() -> SA = default; }", ["SB"], ["echo(SA.x);"]),
    "SC": ("static class SC { public static int z = SA.x * 2; }", ["SA"], ["echo(SC.z);"]),
    # hunt C10/d1: static initialisers of a generic class that is used as a BASE (instantiated while the class table is built)
    "Cn": ("static class Cn { public static function next() -> int { echo(\"next\"); return 42; } }", [], []),
    "say": ("function say(string s) -> int { echo(s); return 10; }", [], []),
    "GT": ("class GT<T> { public static int t = 1 + Cn.next(); public constructor() -> GT<T> = default; }", ["Cn"], []),
    "AT": ("class AT extends GT<int> { public constructor() -> AT { super(); } }", ["GT"], ["echo(AT.t);"]),
    "GS": ("class GS<T> { public static int g = say(\"init GS\"); public constructor() -> GS<T> = default; }", ["say"], []),
    "AS": ("class AS extends GS<int> { public constructor() -> AS { super(); } }", ["GS"], ["echo(AS.g);"]),
    "HS": ("class HS<T> { public static int h = say(\"init HS\"); public constructor() -> HS<T> = default; }", ["say"], []),
    "BS": ("class BS extends HS<int> { public constructor() -> BS { super(); } }", ["HS"], ["echo(BS.h);"]),
    # hunt C10/d2: two generic classes whose type parameter has the same name, one of them bounded
    "Foo": ("class Foo { public constructor() -> Foo = default; }", [], []),
    "Qv": ("class Qv { public constructor() -> Qv = default; }", [], []),
    "Zb": ("class Zb<T extends Foo> { public constructor() -> Zb<T> = default; }", ["Foo"], []),
    "Gv": ("class Gv<T> { public constructor() -> Gv<T> = default; public virtual function f(T x) -> int { return 1; } public virtual function f(Foo x) -> int { return 3; } }", ["Foo"], []),
    "Dv": ("class Dv<T> extends Gv<T> { public constructor() -> Dv<T> { super(); } public override function f(T x) -> int { return 2; } }", ["Gv", "Qv"],
           ["Gv<Qv> gv = new Dv<Qv>();", "echo(gv.f(new Qv()));", "echo(gv.f(new Foo()));"]),
    "Ga": ("abstract class Ga<T> { public constructor() -> Ga<T> = default; public virtual function f(T x) -> int; public virtual function f(Foo x) -> int { return 3; } }", ["Foo"], []),
    "BadDb": ("class BadDb<T> extends Ga<T> { public constructor() -> BadDb<T> { super(); } public function f(T x) -> string { return \"two\"; } }", ["Ga", "Qv"],
              ["Ga<Qv> ga = new BadDb<Qv>();", "echo(ga.f(new Qv()));"]),
    # (seed C10-4) a generic class whose type parameter carries the name of a real class, next to a plain class that uses the real one
    "Item": ("class Item { public int v; public constructor(int v) -> Item { this.v = v; } public function get() -> int { return this.v; } }", [], ["Item it0 = new Item(5);", "echo(it0.get());"]),
    "BoxItem": ("class BoxItem<Item> { public Item held; public constructor(Item x) -> BoxItem<Item> { this.held = x; } public function take() -> Item { return this.held; } }", [],
                ["BoxItem<int> bi = new BoxItem<int>(9);", "echo(bi.take());"]),
    "Shelf": ("class Shelf { public Item first; public constructor(Item a) -> Shelf { this.first = a; } public function top() -> Item { return this.first; } }", ["Item"],
              ["Shelf shf = new Shelf(new Item(7));", "Item tp = shf.top();", "echo(tp.get());"]),
    "ShelfUser": ("function describe(Shelf s) -> int { Item t = s.top(); return t.get(); }", ["Shelf"], ["echo(describe(new Shelf(new Item(3))));"]),
}
# subsets that the size bounds of the quick tier would leave out
EXTRA_SUBSETS = [("Item", "BoxItem", "Shelf", "ShelfUser"), ("say", "GS", "AS", "HS", "BS"), ("Foo", "Qv", "Zb", "Gv", "Dv"), ("Foo", "Qv", "Zb", "Ga", "BadDb")]


def closed(sub):
    s = set(sub)
    return all(set(DECLS[d][1]) <= s for d in s)


def subsets(maxsize):
    names = list(DECLS)
    for k in range(1, maxsize + 1):
        for sub in itertools.combinations(names, k):
            if closed(sub):
                yield sub


def program(order, sub):
    main = "function main() -> void {\n    " + "\n    ".join(st for d in sub for st in DECLS[d][2]) + "\n}"
    parts = []
    for d in order:
        parts.append(main if d == "main" else DECLS[d][0])
    return "\n".join(parts) + "\n"


def _one(sub):
    units = list(sub) + ["main"]
    results = {}
    first = None
    bad = []
    n = 0
    for order in itertools.permutations(units):
        src = program(order, sub)
        r = vdrv.run_src(src, gc="own", warn=0)
        n += 1
        if r.crash:
            obs = ("crash:" + r.crash, "")
        else:
            obs = (r.rec.get("status"), r.rec.get("stdout", "") if r.rec.get("status") == "ok" else "")
        if first is None:
            first = (order, obs, src, (r.rec or {}).get("msg"))
        elif obs != first[1]:
            bad.append((order, src, "the order %s gives %s %r %s but the order %s gives %s %r %s" % (
                list(order), obs[0], obs[1][:120], (r.rec or {}).get("msg", ""), list(first[0]), first[1][0], first[1][1][:120], first[3] or "")))
    return sub, bad, n, first[1]


def main(tier):
    ck = vcheck.Check("C10", "exploration", tier)
    maxsize = 5 if tier == "thorough" else 3
    subs = list(subsets(maxsize))
    # quick: every closed subset of <= 3 declarations, plus the dependency closure of every single declaration and of every pair
    # (chains such as GB <- GH <- GG <- GD need four)
    if tier != "thorough":
        def closure(ds):
            out = set(ds)
            while True:
                more = set(x for d in out for x in DECLS[d][1]) - out
                if not more:
                    return tuple(d for d in DECLS if d in out)
                out |= more
        have = set(subs)
        names = list(DECLS)
        for c in [closure([d]) for d in names] + [closure([a, b]) for i, a in enumerate(names) for b in names[i + 1:] if len(closure([a, b])) <= 4]:
            if c not in have and len(c) <= 5:
                have.add(c)
                subs.append(c)
    for c in EXTRA_SUBSETS:
        c = tuple(d for d in DECLS if d in c)
        if c not in set(subs):
            subs.append(c)
    ck.set_deadline(1700 if tier == "thorough" else 170)
    nruns = 0
    outs = set()
    accepted = 0
    vacuous = []
    # the extra (hand-picked) subsets first, then by size: what a deadline cuts off is the tail of the largest size
    extra = [tuple(d for d in DECLS if d in c) for c in EXTRA_SUBSETS]
    subs = sorted(set(subs), key=lambda c: (c not in extra, len(c), [list(DECLS).index(d) for d in c]))
    done_by_size = {}
    B = 64
    capped_at = None
    results = []
    for start in range(0, len(subs), B):
        if ck.out_of_time():
            capped_at = start
            ck.cap("deadline after %d of %d subsets (completed per size: %s); the remaining subsets all have %d-%d declarations" % (
                start, len(subs), dict(sorted(done_by_size.items())), len(subs[start]), len(subs[-1])))
            break
        for r in vdrv.pmap(_one, subs[start:start + B], chunksize=1):
            results.append(r)
            done_by_size[len(r[0])] = done_by_size.get(len(r[0]), 0) + 1
    for sub, bad, n, obs in results:
        nruns += n
        outs.add((sub, obs))
        if obs[0] == "ok":
            accepted += 1
        else:
            ck.note("subset %s is not accepted in its first order: %s" % (list(sub), obs[0]))
            if "BadLeaf" not in sub and "BadDb" not in sub:
                # only the subsets that instantiate the unimplemented leaf are meant to be rejected; anything else rejected in every order
                # exercises nothing (generator rot, or an analyser that rejects valid programs - C16's subject)
                vacuous.append(list(sub))
        for order, src, p in bad[:3]:
            pos = {d: i for i, d in enumerate(order)}
            ck.violation("order:%s:%s" % ("+".join(sub), ",".join(d for d in sub if any(pos[d] < pos[x] for x in DECLS[d][1]))), "%s\nprogram:\n%s" % (p, src),
                         {"tool": "vdrv", "job": {"kind": "run", "opts": {"gc": "own", "warn": 0}, "blobs": {"src": src}}})
    if vacuous and ck.violations:
        # a change that makes the verdict depend on the order usually also turns some orders' first permutation into a rejection: the order
        # violations above are the finding; the vacuity is a consequence of it, not a generator problem (seed C10-4)
        ck.note("subsets rejected in their first order while order violations were found: %s" % vacuous[:6])
    elif vacuous:
        ck.harness_error("declaration subsets that are meant to be accepted are rejected in every order (the order comparison is vacuous for them): %s" % vacuous[:6])
    ck.sample({"subset": ["B", "D", "f1"], "one_order": program(("D", "main", "B", "f1"), ("f1", "B", "D"))})
    ck.assumptions += ["messages and positions may differ between permutations; only the status category and stdout are compared"]
    ck.finish({"evaluations": nruns, "distinct_nontrivial": len(outs), "rule": "every dependency-closed subset of <= %d declarations (+ main)%s in all permutations; distinct = distinct (subset, behaviour) pairs" % (maxsize, "" if tier == "thorough" else ", plus the dependency closure of every declaration (<= 5) and of every pair (<= 4)"),
               "subsets": len(subs), "subsets_completed": len(results), "completed_per_size": {str(k): v for k, v in sorted(done_by_size.items())}, "subsets_accepted": accepted},
              exhaustive=capped_at is None)
