"""C03 - unit 2^n state and distinct handles in any history.
(1) sim_mc BFS: size / finiteness / norm after every simulator call, allocation = old (x) |0>.
(2) handle pass: every statement sequence up to a bound over {declare qubit, create object owning qubit(s), object storing a
caller's handle, drop/destroy object, measure, reset, cx}, ended by a probe; a logical reference interpreter (one abstract qubit
per declaration) must agree with the implementation on which simulator index every reachable handle denotes and on the state."""
import itertools, os, sys
import vcheck, vdrv, refsim, qcheck
from checks import simlevel

CLASSES = """class H1 { public qubit q; public constructor() -> H1 = default; }
class H2 { public qubit[2] r; public constructor() -> H2 = default; }
class K { public qubit q; public constructor(qubit a) -> K { this.q = a; } }
"""
ANGLES = ["0.5f", "0.75f", "1.25f", "1.5f", "1.75f", "2.25f", "2.5f", "2.75f", "0.25f", "1.0f", "2.0f", "3.0f"]


class Gen:
    """enumerates statement sequences; state = (locals, objects) tracked symbolically"""

    def __init__(self, L, max_locals=3, max_alive=2, max_objs=3):
        self.L, self.max_locals, self.max_alive, self.max_objs = L, max_locals, max_alive, max_objs

    def handles(self, st):
        hs = []
        for v in st["locals"]:
            hs.append(("local", v))
        for o, kind, arg in st["objs"]:
            if o in st["dead"]:
                continue
            if kind == "H1":
                hs.append(("field", o))
            elif kind == "H2":
                hs.append(("elem", o, 0))
                hs.append(("elem", o, 1))
            # K aliases its local: probing through k.q is a separate access path to the same abstract qubit
            elif kind == "K":
                hs.append(("kfield", o, arg))
        return hs

    def choices(self, st):
        out = []
        alive = [o for o in st["objs"] if o[0] not in st["dead"]]
        if len(st["locals"]) < self.max_locals:
            out.append(("decl", "v%d" % len(st["locals"])))
        if len(alive) < self.max_alive and len(st["objs"]) < self.max_objs:
            on = "o%d" % len(st["objs"])
            out.append(("new", on, "H1", None))
            out.append(("new", on, "H2", None))
            for v in st["locals"]:
                out.append(("new", on, "K", v))
        for o, kind, arg in alive:
            out.append(("null", o))
            out.append(("destroy", o))
        hs = self.handles(st)
        for h in hs:
            if self.abstract(h) not in st["measured"]:
                out.append(("measure", h))
            out.append(("reset", h))
        usable = [h for h in hs if self.abstract(h) not in st["measured"]]
        for i in range(len(usable)):
            j = (i + 1) % len(usable)
            if self.abstract(usable[i]) != self.abstract(usable[j]):
                out.append(("cx", usable[i], usable[j]))
        return out

    @staticmethod
    def abstract(h):
        if h[0] == "local":
            return h[1]
        if h[0] == "field":
            return h[1] + ".q"
        if h[0] == "elem":
            return "%s.r%d" % (h[1], h[2])
        return h[2]  # kfield -> the local it aliases

    def step(self, st, c):
        st = {"locals": list(st["locals"]), "objs": list(st["objs"]), "dead": set(st["dead"]), "measured": set(st["measured"])}
        if c[0] == "decl":
            st["locals"].append(c[1])
        elif c[0] == "new":
            st["objs"].append((c[1], c[2], c[3]))
        elif c[0] in ("null", "destroy"):
            st["dead"].add(c[1])
            kind = [k for o, k, a in st["objs"] if o == c[1]][0]
            if kind == "H1":
                st["measured"].discard(c[1] + ".q")
            elif kind == "H2":
                st["measured"].discard(c[1] + ".r0")
                st["measured"].discard(c[1] + ".r1")
        elif c[0] == "measure":
            st["measured"].add(self.abstract(c[1]))
        elif c[0] == "reset":
            st["measured"].discard(self.abstract(c[1]))
        return st

    def sequences(self):
        init = {"locals": [], "objs": [], "dead": set(), "measured": set()}

        def rec(st, seq):
            if seq:
                yield list(seq), st
            if len(seq) >= self.L:
                return
            for c in self.choices(st):
                seq.append(c)
                yield from rec(self.step(st, c), seq)
                seq.pop()
        yield from rec(init, [])


def hexpr(h):
    if h[0] == "local":
        return h[1]
    if h[0] == "field":
        return h[1] + ".q"
    if h[0] == "elem":
        return "%s.r[%d]" % (h[1], h[2])
    return h[1] + ".q"


def render(seq, final_state, gen):
    """-> (source, annotated statement list for the reference interpreter)"""
    lines, plan = [], []
    nang = [0]

    def ang():
        a = ANGLES[nang[0] % len(ANGLES)]
        nang[0] += 1
        return a
    for c in seq:
        if c[0] == "decl":
            a = ang()
            lines.append("qubit %s; ry(%s, %s);" % (c[1], c[1], a))
            plan.append(("alloc", c[1]))
            plan.append(("gate", "ry", c[1], None, refsim.f32(a[:-1])))
        elif c[0] == "new":
            on, kind, arg = c[1], c[2], c[3]
            if kind == "H1":
                a = ang()
                lines.append("H1 %s = new H1(); ry(%s.q, %s);" % (on, on, a))
                plan.append(("alloc", on + ".q"))
                plan.append(("gate", "ry", on + ".q", None, refsim.f32(a[:-1])))
            elif kind == "H2":
                a, b = ang(), ang()
                lines.append("H2 %s = new H2(); ry(%s.r[0], %s); ry(%s.r[1], %s);" % (on, on, a, on, b))
                plan.append(("alloc", on + ".r0"))
                plan.append(("alloc", on + ".r1"))
                plan.append(("gate", "ry", on + ".r0", None, refsim.f32(a[:-1])))
                plan.append(("gate", "ry", on + ".r1", None, refsim.f32(b[:-1])))
            else:
                lines.append("K %s = new K(%s);" % (on, arg))
                plan.append(("alloc", on + ".anon"))  # the field's own default qubit, unreachable once overwritten
        elif c[0] in ("null", "destroy"):
            lines.append("%s = null;" % c[1] if c[0] == "null" else "destroy %s;" % c[1])
            plan.append(("drop", c[1]))
        elif c[0] == "measure":
            lines.append("measure %s;" % hexpr(c[1]))
            plan.append(("measure", gen.abstract(c[1])))
        elif c[0] == "reset":
            lines.append("reset %s;" % hexpr(c[1]))
            plan.append(("reset", gen.abstract(c[1])))
        elif c[0] == "cx":
            lines.append("cx(%s, %s);" % (hexpr(c[1]), hexpr(c[2])))
            plan.append(("gate", "cx", gen.abstract(c[1]), gen.abstract(c[2]), 0.0))
    # probe: reset measured handles first (so the x is not refused), then x on every reachable handle in a fixed order
    for h in gen.handles(final_state):
        ab = gen.abstract(h)
        if ab in final_state["measured"]:
            lines.append("reset %s;" % hexpr(h))
            plan.append(("reset", ab))
            final_state = gen.step(final_state, ("reset", h))
        lines.append("x(%s);" % hexpr(h))
        plan.append(("probe", ab, hexpr(h)))
    src = CLASSES + "function main() -> void {\n  " + "\n  ".join(lines) + "\n}\n"
    return src, plan


def objs_of(seq):
    return {c[1]: (c[2], c[3]) for c in seq if c[0] == "new"}


def reduced_dm(st, positions):
    """density matrix of the qubits at `positions` (bit positions), rest traced out"""
    k = len(positions)
    groups = {}
    for i, amp in enumerate(st):
        if amp == 0:
            continue
        sub = 0
        rest = i
        for j, p in enumerate(positions):
            if (i >> p) & 1:
                sub |= 1 << j
            rest &= ~(1 << p)
        groups.setdefault(rest, {})[sub] = amp
    rho = {}
    for rest, comp in groups.items():
        for x, ax in comp.items():
            for y, ay in comp.items():
                rho[(x, y)] = rho.get((x, y), 0j) + ax * ay.conjugate()
    return rho


def reference_check(plan, kinds, rec):
    """Walk the implementation's tap alongside the logical plan (one abstract qubit per declaration).
    Demands only what the property states: each explicit operation acts on the simulator qubit its handle was bound to when
    declared, a declaration never receives an index a reachable declaration still denotes, and the state of the reachable qubits
    equals the logical reference. It does not demand any particular moment for the implicit resets (release or reuse)."""
    ops = rec["ops"]
    draws = list(rec["draws"])
    di = [0]
    pos = [0]
    bind = {}        # abstract qubit -> simulator index (absent = not yet observed)
    owner = {}       # simulator index -> abstract qubit last bound to it
    reachable = set()
    order = []       # abstract qubits in reference register order
    st = [1 + 0j]
    problems = []

    def nextop():
        return ops[pos[0]] if pos[0] < len(ops) else None

    def take_draw(kind, idx):
        if di[0] >= len(draws) or draws[di[0]][0] != kind or draws[di[0]][1] != idx:
            problems.append("draw record out of step at %s q[%d]" % (kind, idx))
            return None
        d = draws[di[0]]
        di[0] += 1
        return d

    def ref_reset(ab, d):
        nonlocal st
        k = order.index(ab)
        o = 1 if d[3] < d[2] else 0
        s2, w = refsim.reset_branch(st, k, o)
        if s2 is None:
            s2, w = refsim.reset_branch(st, k, 1 - o)
        st = s2

    def dobind(ab, idx):
        prev = owner.get(idx)
        if prev is not None and prev != ab and prev in reachable:
            problems.append("declaration %s was given simulator qubit %d, which reachable declaration %s still denotes" % (ab, idx, prev))
            return False
        bind[ab] = idx
        owner[idx] = ab
        return True

    def expect(ab, idx):
        """an explicit operation through a handle of abstract qubit ab touched simulator index idx"""
        if ab in bind:
            if bind[ab] != idx:
                problems.append("an operation on %s (created as simulator qubit %d) acted on simulator qubit %d%s" % (
                    ab, bind[ab], idx, (", which denotes " + owner[idx]) if owner.get(idx) in reachable else ""))
                return False
            return True
        return dobind(ab, idx)

    def implicit_resets(allowed):
        """consume reset ops that hit simulator qubits no reachable declaration denotes (or those in allowed)"""
        while True:
            op = nextop()
            if op is None or op[0] != "reset":
                return
            ab = owner.get(op[1])
            if ab in reachable and ab not in allowed:
                return
            if take_draw("reset", op[1]) is None:
                return
            pos[0] += 1
            if ab is not None and ab in order:
                ref_reset(ab, draws[di[0] - 1])

    def silent():
        """consume operations no statement asks for explicitly: allocations, and implicit resets (release / reuse) of
        simulator qubits that no reachable declaration denotes"""
        while True:
            op = nextop()
            if op is None:
                return
            if op[0] == "alloc":
                pos[0] += 1
                continue
            if op[0] == "reset" and owner.get(op[1]) not in reachable:
                if take_draw("reset", op[1]) is None:
                    return
                pos[0] += 1
                ab2 = owner.get(op[1])
                if ab2 is not None and ab2 in order:
                    ref_reset(ab2, draws[di[0] - 1])
                continue
            return

    for n_item, item in enumerate(plan):
        if problems:
            break
        kind = item[0]
        if kind == "alloc":
            ab = item[1]
            order.append(ab)
            st = refsim.alloc(st)
            if not ab.endswith(".anon"):
                reachable.add(ab)
            continue
        if kind == "drop":
            on = item[1]
            k, arg = kinds[on]
            own = {"H1": [on + ".q"], "H2": [on + ".r0", on + ".r1"], "K": [on + ".anon"]}[k]
            silent()   # anything still pending from earlier statements, while the object's qubits are still reachable
            for a in own:
                reachable.discard(a)
            continue
        silent()
        op = nextop()
        if op is None:
            problems.append("the simulator performed no operation for plan item %r" % (item,))
            break
        if kind == "gate":
            _, g, a, b, th = item
            if op[0] != g:
                problems.append("%s on %s should reach the simulator but it saw %s" % (g, a, op))
                break
            if not expect(a, op[1]) or (b and not expect(b, op[2])):
                break
            pos[0] += 1
            st = refsim.gate(st, g, order.index(a), order.index(b) if b else -1, th)
        elif kind == "probe":
            _, ab, expr = item
            if op[0] != "x":
                problems.append("probe x(%s) should reach the simulator but it saw %s" % (expr, op))
                break
            if not expect(ab, op[1]):
                break
            pos[0] += 1
            st = refsim.gate(st, "x", order.index(ab))
        elif kind == "measure":
            ab = item[1]
            if op[0] != "measure":
                problems.append("measure %s should reach the simulator but it saw %s" % (ab, op))
                break
            if not expect(ab, op[1]):
                break
            pos[0] += 1
            if take_draw("measure", op[1]) is None:
                break
            s2, w = refsim.project(st, order.index(ab), op[4])
            if s2 is None:
                problems.append("measure %s reported impossible outcome %d" % (ab, op[4]))
                break
            st = s2
        elif kind == "reset":
            ab = item[1]
            if op[0] != "reset":
                problems.append("reset %s should reach the simulator but it saw %s" % (ab, op))
                break
            if not expect(ab, op[1]):
                break
            pos[0] += 1
            d = take_draw("reset", op[1])
            if d is None:
                break
            ref_reset(ab, d)
    if problems:
        return problems
    # state comparison right after the probe (objects alive at the end of main are released afterwards)
    end_pos = pos[0]
    if end_pos == 0:
        return problems
    amps = refsim.amps_from_json(rec["states"][end_pos - 1]) if end_pos > 0 else [1 + 0j]
    # everything after the probe must be end-of-scope releases
    for op in ops[end_pos:]:
        if op[0] != "reset":
            problems.append("after the last statement the simulator performed %s" % (op,))
            return problems
    # injectivity of reachable handles
    idxs = [bind[a] for a in reachable if a in bind]
    if len(set(idxs)) != len(idxs):
        problems.append("two reachable declarations share a simulator qubit: %s" % {a: bind[a] for a in reachable if a in bind})
        return problems
    live = [a for a in order if a in reachable and a in bind]
    # fast path: all other simulator qubits are |0> on both sides -> compare the projected pure states
    def project_live(vec, posmap):
        proj = [0j] * (1 << len(live))
        other = 0.0
        for i, amp in enumerate(vec):
            if amp == 0:
                continue
            k = 0
            rest = i
            for j, a in enumerate(live):
                p_ = posmap[a]
                if (i >> p_) & 1:
                    k |= 1 << j
                rest &= ~(1 << p_)
            if rest:
                other += abs(amp) ** 2
            else:
                proj[k] += amp
        return proj, other
    pi, oi = project_live(amps, bind)
    pr, orf = project_live(st, {a: order.index(a) for a in live})
    if oi <= 1e-9 and orf <= 1e-9:
        d = refsim.dist_up_to_phase(pi, pr)
        if not d <= 1e-9:
            problems.append("state of the reachable qubits differs from the logical reference by %g" % d)
    else:
        ri = reduced_dm(amps, [bind[a] for a in live])
        rr = reduced_dm(st, [order.index(a) for a in live])
        d = max([abs(ri.get(k, 0j) - rr.get(k, 0j)) for k in set(ri) | set(rr)] or [0.0])
        if not d <= 1e-9:
            problems.append("reduced state of the reachable qubits differs from the logical reference by %g" % d)
    return problems


_GEN = None


def _one(item):
    seq, fst = item
    src, plan = render(seq, fst, _GEN)
    kinds = objs_of(seq)
    bad = []
    nruns = 0
    for gc in ("own", "all"):
        runs, capped = qcheck.dfs_outcomes(src, gc=gc, max_runs=24, want="amps,ops,flags,inv,states")
        nruns += len(runs)
        for script, r in runs:
            if r.crash or r.status() != "ok":
                bad.append((gc, script, "status %s: %s" % (r.status(), (r.rec or {}).get("msg", r["fd2"][:400]))))
                continue
            rec = r.rec
            if rec.get("inv_violation"):
                bad.append((gc, script, "state invariant: " + rec["inv_violation"]))
            for p in qcheck.check_final_state(rec):
                bad.append((gc, script, p))
            for p in reference_check(plan, kinds, rec):
                bad.append((gc, script, p))
    shape = " ".join(c[0] + (":" + c[2] if c[0] == "new" else "") for c in seq)
    return src, shape, bad, nruns


# ---- a destroyed object that is still reachable (its destructor stored 'this'): whatever the interpreter does with an operation
# through such a reference - refuse it, or perform it on a qubit of its own - it must never land on the qubit of a live declaration
ESC_CLASSES = """class E { public qubit q; public int id; public constructor(int i) -> E { this.id = i; } public destructor() -> void { Keep.saved = this; } }
static class Keep { public static E saved = null; }
"""


def escape_programs():
    die = {"destroy": "E c = new E(1); destroy c;", "null": "E c = new E(1); c = null;", "scope": "{ E c = new E(1); }", "overwrite": "E c = new E(1); c = new E(5); E c5 = c;"}
    fresh = {"object": ("E d = new E(2);", ["d.q"]), "scalar": ("qubit d;", ["d"]), "register": ("qubit[2] d;", ["d[0]", "d[1]"]), "two-objects": ("E d = new E(2); E e = new E(3);", ["d.q", "e.q"])}
    stale = {"x-via-local": "E k = Keep.saved; x(k.q);", "x-direct": "x(Keep.saved.q);", "h-then-measure": "E k = Keep.saved; x(k.q); measure k.q;", "reset-then-x": "E k = Keep.saved; reset k.q; x(k.q);"}
    cls = ESC_CLASSES
    for (dn, dsrc), (fn, (fsrc, handles)), (sn, ssrc) in itertools.product(die.items(), fresh.items(), stale.items()):
        probes = " ".join("echo(measure %s);" % hnd for hnd in handles)
        yield ("escape:%s:%s:%s" % (dn, fn, sn), cls + "function main() -> void { qubit pad; %s %s %s %s }\n" % (dsrc, fsrc, ssrc, probes), len(handles))


LEAK_CLS = ("class Lk { public qubit q; public constructor() -> Lk = default; public function out() -> qubit { return this.q; } }\n"
            "class Lr { public qubit[2] r; public constructor() -> Lr = default; }\n"
            "static class G { public static Lr o; public static Lk so; }\n"
            "function mk() -> qubit { Lk t = new Lk(); return t.out(); }\n"
            "function idq(qubit p) -> qubit { return p; }\n"
            "function gz() -> int { return 0; }\n"
            "function mkfresh() -> Lk { return new Lk(); }\n"
            "class Bxf { public Lk c; public constructor() -> Bxf { this.c = null; } public function fill() -> void { this.c = new Lk(); } }\n"
            "function dropo() -> int { G.o = null; return 0; }\n"
            "class Hd { public Lk a; public constructor() -> Hd { this.a = new Lk(); } public destructor() -> void { int z = gz(); this.a = null; } }\n"
            "function viad() -> qubit { if (true) { Hd b = new Hd(); return b.a.q; } qubit u; return u; }\n")
LEAKS = {"method-of-local": "qubit s = mk();", "temp-field": "qubit s = new Lk().q;", "temp-method": "qubit s = new Lk().out();",
         "temp-through-function": "qubit s = idq(new Lk().q);", "return-while-destructor-calls": "qubit s = viad();",
         "owner-dropped-by-index": "G.o = new Lr(); qubit s = G.o.r[dropo()];", "temp-then-assigned": "qubit s; s = new Lk().q;"}
LEAK_FRESH = {"object": ("Lk d = new Lk();", ["d.q"]), "scalar": ("qubit d;", ["d"]), "register": ("qubit[2] d;", ["d[0]", "d[1]"]),
              # (seed C03-4) the new qubit is created in ANOTHER call frame while the leaked handle is a local of the caller
              "object-made-in-function": ("Lk d = mkfresh();", ["d.q"]), "object-made-in-method": ("Bxf d = new Bxf(); d.fill();", ["d.c.q"])}


def leaked_handle_programs():
    """a qubit HANDLE that outlives the object owning the qubit: the index is released when the owner dies, the handle still names it.
    Leak ways: returned by a method of a local object; read out of a temporary ('new Lk().q', 'new Lk().out()', passed through a
    function); returned from inside a block while the holder's destructor calls a function; an element of a register whose owner is
    dropped by the index expression; a field of the object whose destructor is running (hunts C03, C06 d1-d3)."""
    cls, leaks, fresh = LEAK_CLS, LEAKS, LEAK_FRESH
    for ln, lsrc in leaks.items():
        for fn, (fsrc, handles) in fresh.items():
            probes = " ".join("echo(measure %s);" % hnd for hnd in handles)
            yield ("escape:leak-%s:%s:x-via-leaked-handle" % (ln, fn), cls + "function main() -> void { qubit pad; %s %s x(s); %s }\n" % (lsrc, fsrc, probes), len(handles))
    # (hunt C04 d1-d3) the new qubit is declared WHILE the handle exists only inside the evaluation of its own expression: by the index
    # expression, by the destructor of a field of the dying temporary, by a destructor that runs while the returned handle is parked
    extra = ("function keepso() -> int { G.so = new Lk(); return 0; }\n"
             "class Fd { public int k = 0; public constructor() -> Fd = default; public destructor() -> void { G.so = new Lk(); } }\n"
             "class Td { public qubit q; public Fd f; public constructor() -> Td { this.f = new Fd(); } public function getq() -> qubit { return this.q; } }\n"
             "function firstq(Td t) -> qubit { return t.q; }\n"
             "function mkso() -> void { G.so = new Lk(); }\n"
             "class Al { public int k = 0; public constructor() -> Al = default; public destructor() -> void { mkso(); } }\n"
             "function viad2() -> qubit { if (true) { Al al = new Al(); Lk a = new Lk(); return a.q; } qubit u; return u; }\n")
    during = {"index-expression-allocates": "qubit s = new Lr().r[keepso() + 1];", "owner-dropped-and-index-allocates": "G.o = new Lr(); qubit s = G.o.r[dropo() + keepso() + 1];",
              "field-destructor-of-temporary-allocates": "qubit s = new Td().q;", "field-destructor-of-temporary-allocates-method": "qubit s = new Td().getq();",
              "field-destructor-of-argument-allocates": "qubit s = firstq(new Td());", "destructor-call-allocates-while-return-parked": "qubit s = viad2();"}
    for dn, dsrc in during.items():
        for probe in ("x(s); echo(measure G.so.q);", "x(G.so.q); echo(measure s);"):
            yield ("escape:leak-during-%s:%s:x-via-leaked-handle" % (dn, "gate-leaked" if probe.startswith("x(s)") else "gate-fresh"),
                   cls + extra + "function main() -> void { qubit pad; %s %s }\n" % (dsrc, probe), 1)
    # (seeds C04-1 / C05-1 revisited, C06-3, C17-6) the leaked handle flips the released qubit and then goes out of scope: the slot is free
    # again and in |1>; the declaration that takes it must still start in |0>
    for ln, lsrc in leaks.items():
        for fn, (fsrc, handles) in fresh.items():
            probes = " ".join("echo(measure %s);" % hnd for hnd in handles)
            yield ("escape:leak-%s:%s:flipped-after-release-then-out-of-scope" % (ln, fn), cls + "function main() -> void { qubit pad; { %s x(s); } %s %s }\n" % (lsrc, fsrc, probes), len(handles))
    # (second hunt, C03/d2) the handle is a field of an object whose destruction was put off (a chain longer than the evaluator's nesting
    # limit for destructors, 128): the destructor of a sibling creates a qubit before the parked holder's destructor uses the handle
    for n in (3, 126, 127, 128, 129, 200):
        yield ("escape:leak-parked-chain-%d:object:x-via-leaked-handle" % n,
               cls + "static class Sa { public static Lk a; }\n"
               "class Ph { public qubit h; public constructor(qubit b) -> Ph { this.h = b; } public destructor() -> void { x(this.h); } }\n"
               "class Qm { public int k = 0; public constructor() -> Qm = default; public destructor() -> void { Sa.a = new Lk(); } }\n"
               "class Nd { public Nd next; public Ph p; public Qm qq; public constructor() -> Nd { this.next = null; this.p = null; this.qq = null; } }\n"
               "function main() -> void { qubit pad; Lk a0 = new Lk(); Nd tail = new Nd(); tail.p = new Ph(a0.q); tail.qq = new Qm(); a0 = null; Nd head = tail; tail = null; "
               "for (int i = 0; i < %d; i = i + 1) { Nd nn = new Nd(); nn.next = head; head = nn; } head = null; echo(measure Sa.a.q); }\n" % n, 1)
    # (seed C03-5) the leaked handle is a whole REGISTER (qubit[]) returned by a method of a dead object, over indices that were recycled
    # (so they are not ascending): every element still names its qubit
    regcls = cls + "function lend() -> qubit[] { Lr b = new Lr(); x(b.r[0]); return b.r; }\nfunction work(qubit[] hs) -> void { qubit n; x(n); echo(measure hs[0]); echo(measure hs[1]); echo(measure n); }\n"
    for pre in ("", "Lr a0 = new Lr(); a0 = null;", "Lr a0 = new Lr(); Lk a1 = new Lk(); a0 = null; a1 = null;", "Lk a1 = new Lk(); Lr a0 = new Lr(); a1 = null; a0 = null;"):
        tag = "fresh-indices" if not pre else "recycled-%s" % {28: "register", 57: "register-then-object" if pre.startswith("Lr") else "object-then-register"}[len(pre)]
        # ('qubit[] hs = lend();' is not allowed - a register cannot be initialised - so the lent register lives as a parameter)
        yield ("escape:leak-register-handle-%s:callee:x-via-leaked-handle" % tag, regcls + "function main() -> void { qubit pad; %s work(lend()); }\n" % pre, -1)
        for fn, (fsrc, handles) in fresh.items():
            probes = " ".join("echo(measure %s);" % hnd for hnd in handles)
            yield ("escape:leak-register-handle-%s:%s:x-via-leaked-handle" % (tag, fn),
                   regcls + "function use(qubit[] hs) -> void { %s x(hs[1]); %s }\nfunction main() -> void { qubit pad; %s use(lend()); }\n" % (fsrc, probes, pre), len(handles))
    # the handle is a field of the object whose destructor is running; the owner dies inside that destructor
    for fn, (fsrc, handles) in fresh.items():
        probes = " ".join("echo(measure %s);" % hnd for hnd in handles)
        yield ("escape:leak-dying-this:%s:x-via-leaked-handle" % fn,
               cls + "class Dk { public qubit k; public constructor(qubit k) -> Dk { this.k = k; } public destructor() -> void { G.so = null; %s x(this.k); %s } }\n"
               "function main() -> void { qubit pad; G.so = new Lk(); Dk b = new Dk(G.so.q); destroy b; }\n" % (fsrc, probes), len(handles))


def _escape_one(item):
    name, src, nlive = item
    r = vdrv.run_src(src, gc="own", warn=0, want="ops")
    if r.crash or r.rec is None:
        return name, src, "interpreter died: %s %s" % (r.crash, r["fd2"][:300])
    st = r.rec.get("status")
    if st == "runtime":
        return name, src, None                 # the stale reference was refused
    if st != "ok":
        return name, src, "unexpected status %s: %s" % (st, r.rec.get("msg"))
    lines = [l for l in r.rec.get("stdout", "").split("\n") if l]
    if nlive == -1:
        if lines != ["1", "0", "1"]:
            return name, src, "a lent register must keep its state and stay apart from a qubit declared later: expected 1, 0, 1 (lent[0] flipped by its owner, lent[1] untouched, the new qubit flipped), got %s (operations performed: %s)" % (lines, r.rec.get("ops"))
        return name, src, None
    if lines != ["0"] * nlive:
        return name, src, "freshly declared qubits that no gate was applied to read %s instead of all 0: an operation through the reference kept by a destroyed object landed on a live declaration's qubit (operations performed: %s)" % (lines, r.rec.get("ops"))
    return name, src, None


def main(tier):
    global _GEN
    ck = vcheck.Check("C03", "model_checking", tier)
    nesc = 0
    for name, src, prob in vdrv.pmap(_escape_one, list(escape_programs()) + list(leaked_handle_programs()), chunksize=4):
        nesc += 1
        if prob:
            ck.violation("escape:" + name.split(":")[3] + ":" + prob.split(" ")[0], "%s\ncase %s\nprogram:\n%s" % (prob, name, src), {"tool": "vdrv", "job": {"kind": "run", "opts": {"gc": "own", "warn": 0, "want": "ops"}, "blobs": {"src": src}}})
    runs = ([["bfs", "full", 3, 10], ["bfs", "full", 4, 9]] + simlevel.HISTORY_RUNS_THOROUGH + simlevel.COMPLEX_RUNS_THOROUGH) if tier == "thorough" else ([["bfs", "full", 3, 8]] + simlevel.HISTORY_RUNS_QUICK + simlevel.COMPLEX_RUNS_QUICK)
    res = simlevel.run_all(runs)
    simlevel.report(ck, res, {"C03"})
    for d in res:
        for s in d.get("samples", [])[:1]:
            ck.sample({"pass": "bfs", "history": s})
    L = 5 if tier == "thorough" else 4
    ck.set_deadline(1500 if tier == "thorough" else 170)
    _GEN = Gen(L)
    items = list(_GEN.sequences())
    rot = ck.seed % max(1, len(items))
    items = items[rot:] + items[:rot]
    nprog = nruns = 0
    shapes = set()
    B = 2000
    for start in range(0, len(items), B):
        if ck.out_of_time():
            ck.cap("handle pass: deadline after %d of %d programs (L=%d)" % (nprog, len(items), L))
            break
        for src, shape, bad, n in vdrv.pmap(_one, items[start:start + B], chunksize=16):
            nprog += 1
            nruns += n
            shapes.add(shape)
            for gc, script, p in bad:
                key = "handle:" + " ".join(w for w in p.split(" ")[:6] if not any(ch.isdigit() for ch in w))
                ck.violation(key + "|" + shape, "%s\n(gc=%s, draws=%s)\nprogram:\n%s" % (p, gc, list(script), src),
                             {"tool": "vdrv", "job": {"kind": "run", "opts": {"want": "amps,ops,flags,inv", "gc": gc, "draws": ",".join(map(str, script)), "warn": 0}, "blobs": {"src": src}}})
            if nprog % 4001 == 1:
                ck.sample({"pass": "handle", "program": src})
    ck.assumptions += ["programs are straight-line; the logical reference allocates one abstract qubit per declaration and never reuses one",
                       "a class field holding a caller's handle (constructor 'this.q = a') is a second path to the caller's qubit, not a new declaration"]
    ck.finish({
        "states": sum(d.get("states", 0) for d in res) + len(shapes),
        "transitions": sum(d.get("transitions", 0) for d in res) + nruns,
        "traces_validated_against_impl": sum(d.get("transitions", 0) for d in res) + nruns,
        "escape_programs": nesc, "handle_programs": nprog, "handle_programs_total": len(items), "handle_runs": nruns, "handle_shapes": len(shapes), "handle_L": L,
        "runs": [{k: d.get(k) for k in ("args", "states", "transitions", "allocs", "capped", "max_norm_dev")} for d in res],
    }, exhaustive=not any(d.get("capped") for d in res))
