"""C15 - lexer lossless, positions exact. Exhaustive enumeration of every string up to a length over small alphabets through
the real Lexer (in-process, ASan build), 16 partitions in parallel."""
import json, subprocess, time
from concurrent.futures import ThreadPoolExecutor
import vcheck, vbuild

NPARTS = 16


def run_enum(exe, alpha, L, deadline):
    def one(part):
        p = subprocess.run([exe, "enum", str(alpha), str(L), str(part), str(NPARTS), str(deadline)], stdout=subprocess.PIPE, stderr=subprocess.PIPE)
        if p.returncode != 0:
            return {"crashed": True, "rc": p.returncode, "stderr": p.stderr.decode(errors="replace")[-2500:], "part": part}
        return json.loads(p.stdout.decode())
    with ThreadPoolExecutor(max_workers=NPARTS) as ex:
        return list(ex.map(one, range(NPARTS)))


def main(tier):
    ck = vcheck.Check("C15", "exploration", tier)
    exe = vbuild.ensure("asan", ["lex_mc"])["lex_mc"]
    if tier == "thorough":
        plan = [(0, 7, 900), (1, 6, 400), (2, 8, 500), (3, 6, 200), (4, 5, 300)]
    else:
        plan = [(0, 6, 120), (3, 5, 60), (4, 4, 60)]
    tot = {"strings": 0, "accepted": 0, "rejected": 0, "tokens": 0, "multiline_tokens": 0, "shapes": 0}
    runs = []
    for alpha, L, deadline in plan:
        parts = run_enum(exe, alpha, L, deadline)
        completed = L
        for d in parts:
            if d.get("crashed"):
                ck.violation("crash:alphabet%d" % alpha, "lex_mc partition %s died rc=%s: %s" % (d["part"], d["rc"], d["stderr"]),
                             {"tool": "cmd", "argv": [exe, "enum", str(alpha), str(L), str(d["part"]), str(NPARTS)]})
                continue
            for k in tot:
                tot[k] += d[k]
            if d["capped"]:
                completed = min(completed, d["completed_L"])
                ck.cap("alphabet %d: deadline hit, complete up to length %d of %d" % (alpha, d["completed_L"], L))
            for v in d["violations"]:
                ck.violation(v["key"], "%s  (x%d in this partition)\nsource: %r" % (v["what"], v["count"], v["src"]),
                             {"tool": "cmd", "argv": [exe, "one", v["src"].encode("latin-1").hex()]})
            for s in d["samples"]:
                if s:
                    ck.sample(s, limit=8)
        ok = [d for d in parts if not d.get("crashed")]
        runs.append({"alphabet": ok[0]["alphabet"] if ok else alpha, "L": L, "completed_L": completed, "strings": sum(d["strings"] for d in ok)})
    ck.assumptions += ["positions are byte offsets (a tab counts as one column)", "only the property's claims are demanded: text at reported position, order, disjointness, losslessness up to whitespace and // comments, Eof at the end; token kinds are not compared"]
    ck.finish({"evaluations": tot["strings"], "distinct_nontrivial": tot["shapes"],
               "rule": "every string of length 1..L over each alphabet (all enumerated, none sampled); non-trivial/distinct = distinct token-type sequences among accepted strings (summed over partitions)",
               "accepted": tot["accepted"], "rejected": tot["rejected"], "tokens_checked": tot["tokens"], "multiline_tokens": tot["multiline_tokens"], "runs": runs})
