"""C12 - running an accepted program never crashes the interpreter. Exhaustive edge alphabet through the real CLI entry point
(cli::run in-process, ASan+UBSan build): every arithmetic/comparison/unary/cast operator x extreme operand pairs, literals at and
beyond their machine range, every out-of-range index form on every array type for read and write, null in every member
position, class hierarchies of depth 1-6 with 1-4 virtual overloads called through every static type, a runtime error raised
at every statement position of programs holding live objects (teardown after error)."""
import itertools, re
import vcheck, vdrv

INT_EDGE = {"INT_MIN": "((0 - 2147483647) - 1)", "INT_MIN1": "(0 - 2147483647)", "m1": "(0 - 1)", "0": "0", "1": "1", "INT_MAX": "2147483647"}
LONG_EDGE = {"LONG_MIN": "((0L - 9223372036854775807L) - 1L)", "LONG_MIN1": "(0L - 9223372036854775807L)", "m1L": "(0L - 1L)", "0L": "0L", "1L": "1L", "LONG_MAX": "9223372036854775807L"}
FLOAT_EDGE = {"0f": "0.0f", "n0f": "(0.0f - 0.0f)", "tiny": "0.000000000000000000000000000000000001f", "huge": "100000000000000000000000000000000000000.0f", "1.5f": "1.5f"}
BINOPS = ["+", "-", "*", "/", "%", "<", "<=", ">", ">=", "==", "!="]

DIAG = re.compile(r"^(Lexical|Parse|Semantic|Runtime) error( at Ln \d+, Col \d+)?: .+$")


def main_prog(body, prelude=""):
    return prelude + "function main() -> void {\n    " + "\n    ".join(body) + "\n}\n"


def edge_programs(tier):
    progs = []
    # a. operators on extreme values (each operation in its own program so that one runtime error does not hide the rest)
    pools = [("int", INT_EDGE), ("long", LONG_EDGE), ("float", FLOAT_EDGE)]
    for (ta, A), (tb, B) in itertools.product(pools, pools):
        for op in BINOPS:
            if op == "%" and (ta == "float" or tb == "float"):
                continue
            chunk = []
            for (na, ea), (nb, eb) in itertools.product(A.items(), B.items()):
                chunk.append((na, nb, "%s a = %s; %s b = %s; echo(a %s b);" % (ta, ea, tb, eb, op)))
            # group operand pairs whose operation cannot fail into one program, the risky ones alone
            for na, nb, stmt in chunk:
                risky = op in ("/", "%") or "MIN" in na or "MIN" in nb or "MAX" in na or "MAX" in nb or "huge" in (na, nb)
                if risky or tier == "thorough":
                    progs.append(("arith:%s:%s:%s:%s:%s" % (ta, tb, op, na, nb), main_prog(["{ " + stmt + " }"])))
            safe = ["{ " + s + " }" for na, nb, s in chunk if not (op in ("/", "%") or "MIN" in na or "MIN" in nb or "MAX" in na or "MAX" in nb or "huge" in (na, nb))]
            if safe and tier != "thorough":
                progs.append(("arith:%s:%s:%s:safe" % (ta, tb, op), main_prog(safe)))
    for t, E in pools:
        for n, e in E.items():
            progs.append(("unary:%s:%s" % (t, n), main_prog(["%s a = %s;" % (t, e), "echo(-a);", "echo(-(-a));"])))
            for tt in ("int", "long", "float", "bit", "char"):
                progs.append(("cast:%s:%s:%s" % (t, n, tt), main_prog(["%s a = %s;" % (t, e), "echo((%s) a);" % tt])))
            if t == "int":
                progs.append(("postfix:%s" % n, main_prog(["int a = %s;" % e, "a++;", "echo(a);", "a--;", "a--;", "echo(a);"])))
    # b. literals at and beyond their range
    lits = ["2147483647", "2147483648", "4294967296", "99999999999", "9223372036854775807", "9223372036854775808", "99999999999999999999999999"]
    for l in lits:
        progs.append(("lit:int:" + l, main_prog(["int x = %s;" % l, "echo(x);"])))
        progs.append(("lit:long-from-int:" + l, main_prog(["long x = %s;" % l, "echo(x);"])))
        progs.append(("lit:long:" + l, main_prog(["long x = %sL;" % l, "echo(x);"])))
        progs.append(("lit:index:" + l, main_prog(["int[2] a;", "echo(a[%s]);" % l])))
        if int(l) > 2147483647:   # a representable size is a (legitimate) request for gigabytes: resource exhaustion, not a value edge
            progs.append(("lit:size:" + l, main_prog(["int[%s] a;" % l, "echo(1);"])))
        progs.append(("lit:echo:" + l, main_prog(["echo(%s);" % l])))
        progs.append(("lit:arg:" + l, "function f(int a) -> int { return a; }\n" + main_prog(["echo(f(%s));" % l])))
        progs.append(("lit:arr:" + l, main_prog(["int[] a = {1, %s};" % l, "echo(a);"])))
    for digits in (40, 400):
        f = "1" + "0" * digits + ".0f"
        progs.append(("lit:float:%d" % digits, main_prog(["float x = %s;" % f, "echo(x);", "echo((int) x);", "echo((long) x);"])))
        progs.append(("lit:float-small:%d" % digits, main_prog(["float x = 0.%s1f;" % ("0" * digits), "echo(x);"])))
    progs.append(("lit:bit", main_prog(["bit b = 1b;", "echo(b);"])))
    # c. index expressions on every array type, read and write
    arrays = {"int": "1", "long": "1L", "float": "1.5f", "bit": "1b", "boolean": "true", "string": "\"s\"", "char": "'c'"}
    idx = {"neg-dyn": "int i = 0 - 1;", "len": "int i = 2;", "INT_MAX": "int i = 2147483647;", "INT_MIN": "int i = (0 - 2147483647) - 1;", "long-5e9": "long i = 5000000000L;", "long-neg": "long i = 0L - 5000000000L;",
           "long-2^32": "long i = 4294967296L;", "long-2^32+1": "long i = 4294967297L;", "float-1e20": "float i = 100000000000000000000.0f;", "float-neg": "float i = 0.0f - 1.5f;", "float-nan": "float z = 0.0f; float i = z * 100000000000000000000000000000000000000.0f * 100000000000000000000000000000000000000.0f - z * 100000000000000000000000000000000000000.0f * 100000000000000000000000000000000000000.0f;", "bit-1": "bit i = 1b;"}
    for t, v in arrays.items():
        for iname, decl in idx.items():
            progs.append(("index-read:%s:%s" % (t, iname), main_prog(["%s[2] a;" % t, decl, "echo(a[i]);"])))
            progs.append(("index-write:%s:%s" % (t, iname), main_prog(["%s[2] a;" % t, decl, "a[i] = %s;" % v, "echo(a);"])))
    for iname, decl in idx.items():
        progs.append(("index-qubit:%s" % iname, main_prog(["qubit[2] q;", decl, "x(q[i]);", "measure q[0];"])))
        progs.append(("index-empty:%s" % iname, main_prog(["int[] a = {};", decl, "echo(a[i]);"])))
    # d. null in every member position
    cls = "class N { public int v; public N next; public constructor() -> N = default; public function m() -> int { return this.v; } public function take(N o) -> int { return o.v; } public destructor() -> void { echo(\"~N\"); } }\n"
    nulls = {
        "field-read": ["N a = null;", "echo(a.v);"], "field-write": ["N a = null;", "a.v = 1;"], "call": ["N a = null;", "echo(a.m());"], "destroy": ["N a = null;", "destroy a;", "echo(1);"],
        "destroy-null": ["destroy null;", "echo(1);"], "argument": ["N a = new N();", "echo(a.take(null));"], "chain": ["N a = new N();", "echo(a.next.next.v);"], "chain-write": ["N a = new N();", "a.next.v = 2;"],
        "compare": ["N a = null;", "echo(a == null);", "echo(null == a);", "echo(a != null);"], "assign-null-field": ["N a = new N();", "a.next = null;", "echo(a.next == null);"],
        "destroy-field": ["N a = new N();", "a.next = new N();", "destroy a.next;", "echo(a.next == null);"], "destroy-twice": ["N a = new N();", "destroy a;", "destroy a;", "echo(1);"],
        "use-after-destroy": ["N a = new N();", "destroy a;", "echo(a.v);"], "call-after-destroy": ["N a = new N();", "N b = a;", "destroy a;", "echo(b.m());"],
        "null-method-chain": ["N a = new N();", "echo(a.next.m());"], "return-null": ["echo(mk().v);"], "null-string-concat": ["N a = null;", "echo(\"x\" + a);"],
    }
    for n, body in nulls.items():
        progs.append(("null:" + n, main_prog(body, cls + "function mk() -> N { return null; }\n")))
    # e. hierarchies with virtual overloads through every static type
    for depth in range(1, 7):
        for nover in range(1, 5):
            types = ["int", "long", "float", "string"][:nover]
            src = ""
            for d in range(depth):
                name = "C%d" % d
                ext = "" if d == 0 else " extends C%d" % (d - 1)
                meths = ""
                for t in types:
                    mod = "virtual" if d == 0 else ("virtual override" if d < depth - 1 else "override")
                    meths += " public %s function f(%s a) -> string { return \"%s.%s\"; }" % (mod, t, name, t)
                ctor = " public constructor() -> %s { %s }" % (name, "super();" if d else "")
                src += "class %s%s {%s%s public function only%d() -> int { return %d; } }\n" % (name, ext, ctor, meths, d, d)
            body = []
            args = {"int": "1", "long": "2L", "float": "1.5f", "string": "\"s\""}
            for st in range(depth):
                body.append("C%d v%d = new C%d();" % (st, st, depth - 1))
                for t in types:
                    body.append("echo(v%d.f(%s));" % (st, args[t]))
            progs.append(("hierarchy:d%d:o%d" % (depth, nover), main_prog(body, src)))
    # e2. the same hierarchies as generic classes instantiated at run time (their method tables are built lazily, on first use)
    for depth in range(1, 5):
        for nover in range(1, 5):
            types = ["int", "long", "float", "string"][:nover]
            src = ""
            for d in range(depth):
                name = "G%d" % d
                ext = "" if d == 0 else " extends G%d<T>" % (d - 1)
                meths = ""
                for t in types:
                    mod = "virtual" if d == 0 else ("virtual override" if d < depth - 1 else "override")
                    meths += " public %s function f(%s a) -> string { return \"%s.%s\"; }" % (mod, t, name, t)
                ctor = " public constructor(T x) -> %s<T> { %s }" % (name, "super(x);" if d else "this.item = x;")
                fld = " public T item;" if d == 0 else ""
                src += "class %s<T>%s {%s%s%s public function only%d() -> T { return this.item; } }\n" % (name, ext, fld, ctor, meths, d)
            body = []
            args = {"int": "1", "long": "2L", "float": "1.5f", "string": "\"s\""}
            for targ, tval in (("int", "7"), ("string", "\"v\"")):
                for st in range(depth):
                    v = "v%d%s" % (st, targ[0])
                    body.append("G%d<%s> %s = new G%d<%s>(%s);" % (st, targ, v, st, targ, tval))
                    for t in types:
                        body.append("echo(%s.f(%s));" % (v, args[t]))
                    body.append("echo(%s.only%d());" % (v, st))
            progs.append(("generic-hierarchy:d%d:o%d" % (depth, nover), main_prog(body, src)))
    # e3. destructors that do unusual things with 'this' and with other objects
    zcls = ("class Z { public int id; public Z other; public constructor(int i) -> Z { this.id = i; this.other = null; } public destructor() -> void { %s } public function get() -> int { return this.id; } public int[2] arr; public function bump() -> void { id = id + 1; } public function inc() -> void { id++; } public function fill() -> void { arr[0] = 5; other = null; } public function bare() -> int { return id + arr[1]; } }\n"
            "class Hold { public Z item; public constructor() -> Hold { this.item = null; } }\n"
            "static class Keep { public static Z z = null; public static Hold h = new Hold(); public static int n = 0; }\n")
    dtor_bodies = {
        "store-this-in-static": "Keep.z = this; echo(\"~Z\" + this.id);",
        "store-this-in-static-holder": "Keep.h.item = this; echo(\"~Z\" + this.id);",
        "store-this-in-other": "if (this.other != null) { this.other.other = this; } echo(\"~Z\" + this.id);",
        "call-method-and-count": "Keep.n = Keep.n + this.get(); echo(\"~Z\" + Keep.n);",
        "allocate-bounded": "if (this.id < 3) { Z t = new Z(this.id + 1); echo(t.get()); } echo(\"~Z\" + this.id);",
        "drop-partner": "this.other = null; echo(\"~Z\" + this.id);",
        "null-static-holding-self-partner": "Keep.z = null; echo(\"~Z\" + this.id);",
    }
    uses = {
        "scope-end": ["{ Z a = new Z(1); }", "echo(\"after\");"],
        "null": ["Z a = new Z(1);", "a = null;", "echo(\"after\");"],
        "partner-outlives": ["Z keep = new Z(9);", "{ Z a = new Z(1); a.other = keep; }", "echo(\"after\");", "if (keep.other != null) { echo(keep.other.id); echo(keep.other.get()); }"],
        "partner-dies-first": ["Z a = new Z(1);", "{ Z b = new Z(2); a.other = b; b.other = a; }", "a.other = null;", "echo(\"after\");"],
        "static-partner": ["Keep.z = new Z(5);", "{ Z a = new Z(1); a.other = Keep.z; }", "echo(\"after\");"],
        "end-of-main": ["Z a = new Z(1);", "Z b = new Z(2);", "a.other = b;", "echo(\"last\");"],
    }
    # (seed C12-5) ... and methods of the survivor that read and ASSIGN its fields by their bare names (assignment, ++, element assignment)
    after = ["if (Keep.z != null) { Keep.z.bump(); Keep.z.inc(); Keep.z.fill(); echo(Keep.z.bare()); }",
             "if (Keep.h.item != null) { Keep.h.item.bump(); Keep.h.item.fill(); echo(Keep.h.item.bare()); }",
             "if (Keep.z != null) { echo(Keep.z.id); echo(Keep.z.get()); Keep.z.id = 4; Z again = Keep.z; Keep.z = null; echo(again.get()); }",
             "if (Keep.h.item != null) { echo(Keep.h.item.id); Keep.h.item = null; }", "echo(Keep.n);", "echo(\"end\");"]
    for dn, db in dtor_bodies.items():
        for un, ub in uses.items():
            progs.append(("dtor-edge:%s:%s" % (dn, un), main_prog(ub + after, zcls % db)))
    # a destructor that reads, through a static, the very field slot its owner is being released from
    progs.append(("dtor-edge2:kid-through-static", main_prog(["N n = new N(new N(null));", "n = null;", "echo(\"done\");"],
                  "class N { public N kid; public static N keep = null; public constructor(N kid) -> N { this.kid = kid; return this; } "
                  "public destructor() -> void { if (N.keep == null) { N.keep = this; } else { N again = N.keep.kid; } } }\n")))
    progs.append(("dtor-edge2:kid-through-static-3", main_prog(["N n = new N(new N(new N(null)));", "n = null;", "N.keep = null;", "echo(\"done\");"],
                  "class N { public N kid; public static N keep = null; public constructor(N kid) -> N { this.kid = kid; return this; } "
                  "public destructor() -> void { if (N.keep == null) { N.keep = this; } else { N again = N.keep.kid; if (again != null) { N deeper = again.kid; } } } }\n")))
    # constant folding in the analyser on the same edge values the evaluator is probed with
    for nm, ex in (("mod-minus-one", "lo % (0 - 1)"), ("mod-neg-literal", "lo % -1"), ("add-overflow", "hi + 1"), ("mul-overflow", "hi * 2"), ("neg-min", "-lo"), ("sub-overflow", "lo - 1"), ("mod-zero", "hi % 0")):
        progs.append(("constfold:%s" % nm, main_prog(["final int lo = -2147483647 - 1;", "final int hi = 2147483647;", "final int m = %s;" % ex, "echo(m);"])))
        progs.append(("constfold-size:%s" % nm, main_prog(["final int lo = -2147483647 - 1;", "final int hi = 2147483647;", "final int m = (%s) %% 3 + 4;" % ex, "int[m] a;", "echo(a);"])))
    # command-line arguments that are not what the option expects
    for arg in ("--shots=abc", "--shots=", "--shots=99999999999", "--shots=-1", "--shots=0", "--shots=1.5", "--shots= 2", "--echo=maybe", "--echo=", "--nonsense"):
        progs.append(("cliarg:" + arg, main_prog(["echo(1);"])))
    # e4. long chains / wide fans of objects built in a loop (no program recursion), run with a production-sized native stack
    node2 = "class Node { public int v; public Node next; public Node[] kids; public constructor(int v, Node n) -> Node { this.v = v; this.next = n; } }\n"
    noded = "class Node { public int v; public Node next; public constructor(int v, Node n) -> Node { this.v = v; this.next = n; } public destructor() -> void { if (this.v % 5000 == 0) { echo(\"~\" + this.v); } } }\n"
    for n in ((300, 3000, 20000) if tier != "thorough" else (300, 3000, 20000, 50000)):
        progs.append(("chain:%d" % n, node2 + main_prog(["Node head = null;", "for (int i = 0; i < %d; i = i + 1) { head = new Node(i, head); }" % n, "echo(head.v);", "head = null;", "echo(\"dropped\");"])))
        if n <= 20000:
            progs.append(("chain-dtor:%d" % n, noded + main_prog(["Node head = null;", "for (int i = 0; i < %d; i = i + 1) { head = new Node(i, head); }" % n, "echo(head.v);"])))
            progs.append(("chain-error-teardown:%d" % n, node2 + main_prog(["Node head = null;", "for (int i = 0; i < %d; i = i + 1) { head = new Node(i, head); }" % n, "int z = 0;", "echo(head.v / z);"])))
    # e5. a runtime error raised by a destructor somewhere down a chain that is released in one go (the error must surface as a diagnostic
    # whatever the depth at which the failing object dies)
    for n in (20, 150, 400):
        for k in sorted(set([0, 1, n // 2, n - 130 if n > 130 else n - 2, n - 2, n - 1])):
            if k < 0:
                continue
            nodee = ("class Node { public int v; public Node next; public constructor(int v, Node n) -> Node { this.v = v; this.next = n; } "
                     "public destructor() -> void { if (this.v == %d) { int z = 0; echo(1 / z); } } }\n" % k)
            progs.append(("chain-dtor-error:%d:%d" % (n, k), nodee + main_prog(["Node head = null;", "for (int i = 0; i < %d; i = i + 1) { head = new Node(i, head); }" % n, "echo(head.v);", "head = null;", "echo(\"unreached or reached\");"])))
    # f. a runtime error at every statement position of programs that hold live objects everywhere
    holder = """class Own { public int id; public qubit q; public Own other; public constructor(int i) -> Own { this.id = i; this.other = null; } public destructor() -> void { echo("~Own" + this.id); } public function poke(Own o) -> int { return this.id + o.id; } }
class Plain { public int id; public Plain peer; public constructor(int i) -> Plain { this.id = i; this.peer = null; return this; } public destructor() -> void { echo("~Plain" + this.id); } }
class Dd { public int id; public constructor(int i) -> Dd { this.id = i; } public destructor() -> void = default; }
class De extends Dd { public constructor(int i) -> De { super(i); } public destructor() -> void { echo("~De" + this.id); } }
static class Reg { public static Own kept = null; public static Plain p = null; }
function boom(int z) -> int { return 1 % z; }
function deep(Own a, Plain b, int z) -> int { Own local = new Own(90); local.other = a; return boom(z) + a.id + b.id; }
"""
    stmts = ["Own a = new Own(1);", "Plain b = new Plain(2);", "a.other = new Own(3);", "b.peer = b;", "Reg.kept = a;", "Reg.p = new Plain(4);", "h(a.q);", "{ Own scoped = new Own(5); echo(scoped.poke(a)); }",
             "echo(deep(a, b, 1));", "{ Dd dflt = new Dd(6); Dd sub = new De(7); echo(dflt.id + sub.id); }", "measure a.q;", "a = null;", "echo(\"end\");"]
    errs = ["echo(boom(0));", "echo(deep(Reg.kept, new Plain(7), 0));", "Own n = null; echo(n.id);", "int[1] arr; int k = 3; echo(arr[k]);", "x(Reg.kept.q); measure Reg.kept.q; x(Reg.kept.q);"]
    for pos in range(len(stmts) + 1):
        for ei, e in enumerate(errs):
            if ("Reg.kept" in e and pos < 5) or ("a, b" in e and pos < 2):
                continue
            body = stmts[:pos] + [e] + stmts[pos:]
            progs.append(("error-at:%d:%d" % (pos, ei), main_prog(body, holder)))
    # error inside a destructor / constructor / field initialiser / static initialiser
    progs.append(("error-in-dtor", main_prog(["E a = new E();", "a = null;", "echo(\"after\");"], "class E { public int z = 0; public constructor() -> E = default; public destructor() -> void { echo(1 / this.z); } }\n")))
    progs.append(("error-in-dtor-scope", main_prog(["{ E a = new E(); }", "echo(\"after\");"], "class E { public int z = 0; public constructor() -> E = default; public destructor() -> void { echo(1 / this.z); } }\n")))
    progs.append(("error-in-ctor", main_prog(["E a = new E(0);", "echo(\"after\");"], "class E { public int v; public constructor(int z) -> E { this.v = 1 % z; } public destructor() -> void { echo(\"~E\"); } }\n")))
    progs.append(("error-in-field-init", main_prog(["E a = new E();", "echo(\"after\");"], "function zero() -> int { return 0; }\nclass E { public int v = 1 % zero(); public constructor() -> E = default; }\n")))
    progs.append(("error-in-static-init", main_prog(["echo(S.v);"], "function zero() -> int { return 0; }\nstatic class S { public static int v = 1 % zero(); }\n")))
    # allocation pressure while objects are half built / pending (the collector's own trigger: > 16 allocations)
    node = "class Node { public int v; public Node next; public constructor(int v, Node n) -> Node { this.v = v; this.next = n; return this; } }\n"
    progs.append(("pressure:recursive-build", node + "function build(int n) -> Node { if (n == 0) { return null; } return new Node(n, build(n - 1)); }\nfunction sum(Node h) -> int { int s = 0; Node c = h; for (int i = 0; i < 100; i = i + 1) { if (c == null) { return s; } s = s + c.v; c = c.next; } return s; }\n" + main_prog(["echo(sum(build(40)));"])))
    progs.append(("pressure:ctor-arg-loop", node + "function burst(int n) -> int { int c = 0; for (int i = 0; i < n; i = i + 1) { Node t = new Node(i, null); c = c + t.v; } return c; }\n" + main_prog(["Node a = new Node(burst(20), new Node(burst(20), null));", "echo(a.v + a.next.v);"])))
    progs.append(("pressure:field-init", "class In { public int k = 3; public constructor() -> In = default; }\nclass Out { public In a = new In(); public In b = new In(); public In c = new In(); public constructor() -> Out = default; public function s() -> int { return this.a.k + this.b.k + this.c.k; } }\n" + main_prog(["int t = 0;", "for (int i = 0; i < 12; i = i + 1) { Out o = new Out(); t = t + o.s(); }", "echo(t);"])))
    progs.append(("deep-recursion", "function r(int n) -> int { if (n == 0) { return 0; } return 1 + r(n - 1); }\n" + main_prog(["echo(r(150));"])))
    progs.append(("many-qubits", main_prog(["qubit[8] q;", "for (int i = 0; i < 8; i = i + 1) { h(q[i]); }", "measure q;"])))
    return progs


def _one(item):
    name, src = item
    opts = {"hook_draws": 1, "timeout_ms": 30000}
    if name.startswith("chain"):
        opts.update(stack_kb=8192, timeout_ms=240000)      # the stack a shipped binary gets
    argv = ["bloch", "main.bloch"]
    if name.startswith("cliarg:"):
        argv = ["bloch", name[len("cliarg:"):], "main.bloch"]
    r = vdrv.run_job({"id": "c", "kind": "cli", "opts": opts, "argv": argv, "files": {"main.bloch": src}})
    rec = r.rec
    notes = r.ubsan_notes
    if r.crash or rec is None:
        return name, src, "the interpreter died: %s\n%s" % (r.crash, r["fd2"][:1200]), None, notes
    if rec.get("escaped"):
        return name, src, "an exception escaped cli::run: %s" % rec["escaped"], None, notes
    rc = rec["rc"]
    if rc not in (0, 1):
        return name, src, "exit status %s" % rc, None, notes
    err_lines = [l for l in rec["stderr"].split("\n") if l and not l.startswith("[WARNING]") and not l.startswith("[INFO]")]
    if rc == 0:
        if any(l.startswith("[ERROR]") for l in err_lines):
            return name, src, "exit status 0 but an error was printed: %r" % err_lines, None, notes
        return name, src, None, "ok", notes
    if name.startswith("cliarg:"):
        # a usage error has its own wording; it must still not be the text of a C++ exception
        if any(w in rec["stderr"] for w in ("stoi", "stol", "stof", "what():", "terminate called", "std::")):
            return name, src, "a raw C++ exception text reached the user: %r" % rec["stderr"][:300], None, notes
        return name, src, None, "usage error", notes
    if len(err_lines) != 2 or err_lines[0] != "[ERROR]: Stopping program execution..." or not DIAG.match(err_lines[1]):
        return name, src, "exit status 1 but stderr is not the banner followed by exactly one categorised diagnostic: %r" % err_lines, None, notes
    return name, src, None, err_lines[1].split(":")[0].split(" at ")[0], notes


def main(tier):
    ck = vcheck.Check("C12", "exploration", tier)
    progs = edge_programs(tier)
    outcomes = {}
    n = 0
    ub = {}
    famtot, famrej = {}, {}
    for name, src, prob, cls, notes in vdrv.pmap(_one, progs, chunksize=8):
        n += 1
        for x in notes:
            k = re.sub(r"-?\d[\d.e+]*", "#", x)[:80]
            ub[k] = ub.get(k, 0) + 1
        if prob:
            fam = name.split(":")[0]
            first = prob.split("\n")[0]
            m = re.search(r"(SEGV|heap-use-after-free|heap-buffer-overflow|stack-overflow|FPE|signal:\d+|ubsan:[^\n]{0,60}|raw_exception|stoi|stoll|stof)", prob)
            ck.violation("%s:%s" % (fam, m.group(1) if m else first[:60]), "%s\nprogram (%s):\n%s" % (prob, name, src), {"tool": "vdrv", "job": {"kind": "cli", "opts": {"hook_draws": 1}, "argv": ["bloch", "main.bloch"], "files": {"main.bloch": src}}})
        else:
            outcomes[cls] = outcomes.get(cls, 0) + 1
            fam = name.split(":")[0]
            famtot[fam] = famtot.get(fam, 0) + 1
            if cls in ("Semantic error", "Parse error", "Lexical error"):
                famrej[fam] = famrej.get(fam, 0) + 1
        if n % 499 == 1:
            ck.sample({"case": name, "program": src[-400:]})
    # vacuity guard: the property is about programs the analyser ACCEPTS. A family (other than the ones that probe literal / cast / index
    # forms the analyser may legitimately reject) whose programs are rejected at compile time exercises nothing - that is a broken
    # generator, or an analyser that rejects valid programs (C16's subject), and must not pass silently
    for fam, rej in sorted(famrej.items()):
        if fam in ("lit", "cast", "shots", "constfold", "constfold-size", "cliarg") or fam.startswith("index"):
            continue
        ck.cap("family '%s': %d of %d programs were rejected at compile time and exercised nothing at run time" % (fam, rej, famtot[fam]))
        if rej * 2 > famtot[fam] and not ck.violations:
            ck.harness_error("family '%s' is vacuous: %d of %d programs are rejected by the front end (generator rot, or the analyser rejects valid programs - see C16)" % (fam, rej, famtot[fam]))
    for k, v in sorted(ub.items(), key=lambda kv: -kv[1])[:8]:
        ck.note("UBSan (recoverable, not a verdict): %s x%d" % (k, v))
    ck.assumptions += ["signed overflow and float-to-int overflow reported by UBSan are notes: the property speaks of crashes, memory errors and raw exception text, not of overflow values",
                       "observed through an -O1 clang ASan/UBSan build of the working tree; recursion <= 150 and <= 8 qubits as in the property"]
    ck.finish({"evaluations": n, "distinct_nontrivial": len(set(p[0].split(":")[0] + ":" + p[0].split(":")[1] if ":" in p[0] else p[0] for p in progs)),
               "rule": "the edge alphabet listed in the module docstring, one CLI run each; distinct = distinct (family, sub-family) cells", "outcome_classes": outcomes, "rejected_at_compile_time_per_family": famrej})
