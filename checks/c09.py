"""C09 - lexical scoping / alpha-renaming invariance. A program template has name SLOTS (locals and parameters of main, of a
free function, of two methods, of a constructor; two fields). Every assignment of names from a small colliding pool to the
slots that is capture-free under lexical scoping (within one body no local/parameter is named like a field that body refers
to by its bare name; names within one body distinct) is an alpha-variant of the same program: all variants, and the variant
with globally unique names, must print the same."""
import itertools
import vcheck, vdrv

POOL = ["x", "y", "n"]

# bodies of method m1(int {aP}) -> int ; which fields they reference by bare name
M1_BODIES = [
    ("{F1} = {F1} + {aP}; return {F1};", {"F1"}),
    ("echo({F1}); return {aP} * 2;", {"F1"}),
    ("{F2} = {aP}; return {F2} + {F1};", {"F1", "F2"}),
    ("this.{F1} = this.{F1} + {aP}; return this.{F1};", set()),
    ("return m2() + {aP};", set()),
    ("return f({aP}) + {F2};", {"F2"}),
]
# bodies of method m2() -> int with a local {bL}
M2_BODIES = [
    ("int {bL} = 5; {F2} = {F2} + {bL}; return {F2};", {"F2"}),
    ("int {bL} = {F1} * 3; return {bL} + 1;", {"F1"}),
    ("int {bL} = 7; {bL} = {bL} + 1; return {bL} + this.{F1};", set()),
    ("int {bL} = f(4); return {bL} + {F2};", {"F2"}),
]
# bodies of free function f(int {fP}) -> int with a local {fL}
F_BODIES = [
    ("int {fL} = {fP} * 2; return {fL} + 1;",),
    ("int {fL} = 3; {fP} = {fP} + {fL}; return {fP};",),
    ("int {fL} = g({fP}); return {fL} + {fP};",),
]
# main: locals {mA}, {mB}; call sequences
CALLS = [
    ["echo(k.m1({mA}));"],
    ["echo(k.m2());"],
    ["echo(f({mB}));"],
    ["{mA} = k.m1({mB});", "echo(k.m2());"],
    ["echo(k.m1({mA}));", "echo(f({mA}));", "echo(k.m1({mB}));"],
    ["{mB} = f({mA});", "echo(k.m1({mB}));", "echo(K.s({mA}));"],
    ["echo(k.m2());", "{mA} = k.m2();", "echo(j.m1({mA}));"],
    # first use of the lazily instantiated generic inside a function / inside main
    ["echo(open({mA}));", "echo(open({mB}));"],
    ["L<int> early = new L<int>({mB});", "echo(early.both());", "echo(open({mA}));"],
]
SLOTS = ["F1", "F2", "aP", "bL", "fP", "fL", "gP", "cP", "mA", "mB", "S1", "S2", "oP", "oL"]


def render(names, m1, m2, fb, calls):
    d = dict(names)
    body_calls = "\n    ".join(c.format(**d) for c in calls)
    src = """class K {{
    public int {F1} = 1;
    public int {F2} = 2;
    public constructor(int {cP}) -> K {{ this.{F1} = {cP}; }}
    public function m1(int {aP}) -> int {{ %s }}
    public function m2() -> int {{ %s }}
    public static function s(int {aP}) -> int {{ return {aP} + 100; }}
}}
class L<T> {{
    public static int {S1} = 10;
    public static int {S2} = {S1} + 1;
    public T item;
    public constructor(T v) -> L<T> {{ this.item = v; }}
    public function peek() -> int {{ return {S2}; }}
    public function both() -> int {{ return {S1} * 100 + {S2}; }}
}}
function open(int {oP}) -> int {{ int {oL} = {oP} + 1; L<int> l = new L<int>({oL}); return l.peek() + l.both(); }}
function g(int {gP}) -> int {{ return {gP} + 1000; }}
function f(int {fP}) -> int {{ %s }}
function main() -> void {{
    int {mA} = 10;
    int {mB} = 20;
    K k = new K({mA});
    K j = new K(3);
    %s
    echo({mA});
    echo({mB});
    echo(k.{F1});
    echo(k.{F2});
    echo(j.{F1});
}}
""" % (m1[0], m2[0], fb[0], "%s")
    return src.format(**d) % body_calls


def valid(names, m1, m2):
    n = names
    if n["F1"] == n["F2"] or n["fP"] == n["fL"] or n["mA"] == n["mB"] or n["S1"] == n["S2"] or n["oP"] == n["oL"]:
        return False
    # a local/parameter may not capture a field the same body names barely
    for fld in m1[1]:
        if n["aP"] == n[fld]:
            return False
    for fld in m2[1]:
        if n["bL"] == n[fld]:
            return False
    # main's locals k, j are fixed names outside the pool
    return True


UNIQUE = {"S1": "statOne", "S2": "statTwo", "oP": "argO", "oL": "locO", "F1": "fieldOne", "F2": "fieldTwo", "aP": "argM", "bL": "locM", "fP": "argF", "fL": "locF", "gP": "argG", "cP": "argC", "mA": "mainA", "mB": "mainB"}


def namings(tier):
    # slots that matter for collisions get the whole pool; gP and cP follow aP / mA to keep the space small in quick
    if tier == "thorough":
        free = ["F1", "F2", "aP", "bL", "fP", "fL", "gP", "cP", "mA", "mB"]
    else:
        free = ["F1", "F2", "aP", "bL", "fP", "fL", "mA", "mB"]
    for combo in itertools.product(POOL, repeat=len(free)):
        n = dict(zip(free, combo))
        n.setdefault("gP", n["mA"])
        n.setdefault("cP", n["F1"])
        n.update({"S1": "statOne", "S2": "statTwo", "oP": "argO", "oL": "locO"})
        yield n
    # family B: the generic class's statics and the opener's parameter/local range over the pool, everything else unique
    for combo in itertools.product(POOL, repeat=6):
        n = dict(UNIQUE)
        n.update(dict(zip(["S1", "S2", "oP", "oL", "mA", "mB"], combo)))
        n["familyB"] = True
        yield n


# ---- family D: destructor bodies. A destructor runs wherever the last reference disappears - in the middle of some other function's
# body - and its bare names must still mean the dying object's fields (and its own locals), never the locals of that function.
D_BODIES = [   # destructor bodies; {dL} is a local of the destructor
    "{F2} = {F2} + 1; echo(\"bye \" + {F1} + \" \" + {F2});",
    "int {dL} = {F1} * 2; echo({dL}); echo({F2});",
    "echo(bump(3)); {F1} = 0;",
]
D_DEATHS = [   # ways for an Acc to die while the locals {P}/{L} of the surrounding body are live; {V} is an int expression over them
    "{{ Acc a = new Acc({V}); echo(\"in\"); }}",
    "Acc a = new Acc(5); a = new Acc({V}); echo(\"re\");",
    "Acc a = new Acc({V}); a = null; echo(\"nulled\");",
    "Acc a = new Acc({V}); destroy a; echo(\"destroyed\");",
    "echo(new Acc(9).bump({V}));",
    "for (int i9 = 0; i9 < 2; i9 = i9 + 1) {{ Acc a = new Acc({V} + i9); }}",
]
D_SLOTS = ["F1", "F2", "dL", "uP", "uL", "hP", "hL", "H1"]
D_UNIQUE = {"F1": "fieldOne", "F2": "fieldTwo", "dL": "locD", "aP": "argB", "uP": "argU", "uL": "locU", "hP": "argH", "hL": "locH", "H1": "holdOne", "H2": "holdTwo", "mA": "mainA", "mB": "mainB"}


def render_d(names, dbody, death):
    d = dict(names)
    src = """class Acc {{
    public int {F1} = 1;
    public int {F2} = 2;
    public constructor(int {aP}) -> Acc {{ this.{F1} = {aP}; }}
    public destructor() -> void {{ %s }}
    public function bump(int {aP}) -> int {{ return {F1} + {aP}; }}
}}
class Holder {{
    public int {H1} = 50;
    public int {H2} = 60;
    public constructor() -> Holder = default;
    public function run(int {hP}) -> int {{ int {hL} = 70; %s return {H1} + {hL} + {hP}; }}
}}
function audit(int {uP}) -> int {{ int {uL} = 40; %s return {uL} + {uP}; }}
function main() -> void {{
    int {mA} = 10;
    int {mB} = 20;
    echo(audit({mA}));
    Holder hold = new Holder();
    echo(hold.run({mB}));
    %s
    echo({mA});
    echo({mB});
    echo(hold.{H1});
    echo(hold.{H2});
}}
""" % (dbody, death.replace("{V}", "{hL}"), death.replace("{V}", "{uL}"), death.replace("{V}", "{mB}"))
    return src.format(**d)


def namings_d():
    for combo in itertools.product(POOL, repeat=len(D_SLOTS)):
        n = dict(zip(D_SLOTS, combo))
        if n["F1"] == n["F2"] or n["dL"] in (n["F1"], n["F2"]) or n["uP"] == n["uL"] or n["hP"] == n["hL"] or n["H1"] in (n["hP"], n["hL"]):
            continue
        n["aP"] = n["dL"]                                   # bump's parameter: distinct from both fields
        n["H2"] = next(x for x in POOL + ["w"] if x not in (n["H1"], n["hP"], n["hL"]))
        n["mA"], n["mB"] = n["F1"], n["F2"]                 # main's locals are named like Acc's fields on purpose
        yield n


def _one_d(item):
    (ib, idth), name_list = item
    ref_src = render_d(D_UNIQUE, D_BODIES[ib], D_DEATHS[idth])
    r0 = vdrv.run_src(ref_src, gc="own", warn=0)
    if r0.crash or r0.rec is None or r0.rec.get("status") != "ok":
        return ("D", ib, idth), [("reference", ref_src, "the uniquely named variant did not run: %s %s" % (r0.status(), (r0.rec or {}).get("msg", r0["fd2"][:200])))], 1, None
    want = (r0.rec["status"], r0.rec["stdout"])
    out, n = [], 1
    for names in name_list:
        src = render_d(names, D_BODIES[ib], D_DEATHS[idth])
        r = vdrv.run_src(src, gc="own", warn=0)
        n += 1
        if r.crash:
            out.append((names, src, "interpreter died: %s" % r.crash))
            continue
        got = (r.rec.get("status"), r.rec.get("stdout", ""))
        if got != want:
            out.append((names, src, "renaming locals/parameters changed the behaviour: with unique names the program prints %r, with names %s it gives %s %r %s" % (
                want[1], {k: v for k, v in names.items()}, got[0], got[1], r.rec.get("msg", ""))))
    return ("D", ib, idth), out, n, want[1]


# ---- family E: (1) the order in which a scope's locals die must not depend on what they are called; (2) a free function means the same
# whichever method calls it - a field or type parameter of the CALLER's class named like a class the callee uses must not matter
E_NAMES = ["a", "b", "c", "d", "o", "k", "first", "x1", "zz", "q9"]


def render_e1(names):
    decls = " ".join("Acc %s = new Acc(%d);" % (n, i + 1) for i, n in enumerate(names))
    return ("class Acc { public int id; public constructor(int i) -> Acc { this.id = i; } public destructor() -> void { echo(\"bye \" + this.id); } }\n"
            "function scoped() -> int { %s echo(\"body\"); return %d; }\n"
            "function main() -> void { { %s echo(\"block\"); } echo(scoped()); %s echo(\"end\"); }\n" % (decls, len(names), decls, decls))


def render_e2(sname, fname, tp):
    return ("static class Cfg { public static int v = 7; }\n"
            "class T { public int t = 5; public constructor() -> T = default; }\n"
            "class U { public int t = 6; public constructor() -> U = default; }\n"
            "class Caller { public static int %s = 99; public int %s = 98; public constructor() -> Caller = default; public function run() -> int { return helper() * 100 + mk(); } "
            "public static function srun() -> int { return helper() * 100 + mk(); } }\n"
            "class Box<%s> { public constructor() -> Box<%s> = default; public function go() -> int { return helper() * 100 + mk(); } }\n"
            "function helper() -> int { return Cfg.v; }\n"
            "function mk() -> int { T made = new T(); return made.t; }\n"
            "function main() -> void { echo(helper() * 100 + mk()); Caller c = new Caller(); echo(c.run()); echo(Caller.srun()); Box<U> b = new Box<U>(); echo(b.go()); }\n" % (sname, fname, tp, tp))


E3_WRAPS = ["c ? int {L} = 1; : echo(\"else\");", "c ? echo(\"then\"); : int {L} = 1;", "if (c) {{ int {L} = 1; }}", "if (c) {{ }} else {{ int {L} = 1; }}",
            "{{ int {L} = 1; }}", "for (int {L} = 0; {L} < 1; {L} = {L} + 1) {{ }}", "while (c) {{ int {L} = 1; c = 0b; }}",
            "c ? {{ int {L} = 1; echo({L}); }} : {{ int {L} = 2; echo({L}); }}"]


def render_e3(wrap, lname):
    """hunt C09/d6: a local declared in a nested statement (a '? :' branch above all) ends with it, whatever it is called - the field read
    after the statement is the field on every call"""
    return ("class C { public int x = 10; public constructor() -> C = default; public function m(bit c) -> void { %s echo(x); } }\n"
            "function other(int p) -> int { return p; }\n"
            "function main() -> void { int cl = 5; C o = new C(); o.m(1b); o.m(0b); o.m(1b); echo(other(cl)); }\n" % wrap.format(L=lname))


def render_e4(sname, lname):
    """a field array sized by a static (found by a round-7 seeding agent in my own fix 980fd31): the size names the static, never a local or
    parameter of whichever function creates the object"""
    return ("class Reg { public static final int %s = 2; public int[%s] data; public qubit[%s] qs; public constructor() -> Reg = default; }\n"
            "function mk() -> Reg { int %s = 5; return new Reg(); }\n"
            "function mkp(int %s) -> Reg { return new Reg(); }\n"
            "class Maker { public int %s = 4; public constructor() -> Maker = default; public function make() -> Reg { return new Reg(); } }\n"
            "function main() -> void { Reg a = new Reg(); echo(a.data); echo(mk().data); echo(mkp(7).data); Maker m = new Maker(); echo(m.make().data); }\n" % (sname, sname, sname, lname, lname, lname))


def render_e5(lname):
    """(second hunt, C09/d1) a parameter or local spelled like a method of the class, a free function, or the enclosing function itself, used
    as an ARGUMENT of a bare call to that method / function: what is called is never a variable"""
    return ("function helper(int v) -> int { return v * 3; }\n"
            "class A { public constructor() -> A = default; public function add(int a, int b) -> int { return a + b; }\n"
            "  public function run(int %s) -> int { int r = add(%s, 2); return r + helper(%s); }\n"
            "  public function twice() -> int { int %s = 4; return add(%s, %s) + helper(%s); } }\n"
            "function free(int %s) -> int { return helper(%s) + 1; }\n"
            "function main() -> void { int add = 5; A a = new A(); echo(a.run(1) + add); echo(a.twice()); echo(free(2)); }\n" % ((lname,) * 9))


def render_e6(lname):
    """(seed C09-3) the destructors of a class chain each run in a frame of their own: a top-level local of the subclass's destructor (or of the
    middle class's) named like a field the base destructor reads by its bare name"""
    return ("class Sensor { private int pending = 7; public int gain = 2; public constructor() -> Sensor = default; public destructor() -> void { echo(\"Sensor flushes \" + pending + \" \" + gain); } }\n"
            "class Mid extends Sensor { public int offset = 3; public constructor() -> Mid { super(); } public destructor() -> void { int %s = offset * 10; echo(\"Mid drops \" + %s); } }\n"
            "class Cal extends Mid { public constructor() -> Cal { super(); } public destructor() -> void { int %s = offset * 100; echo(\"Cal drops \" + %s); } }\n"
            "function main() -> void { { Cal c = new Cal(); } Mid m = new Mid(); m = null; echo(\"done\"); }\n" % ((lname,) * 4))


def render_e7(lname):
    """(seed C09-4) a field initialiser reads other fields and statics by their bare names; it runs while a constructor is active, and neither
    that constructor's parameters and locals, nor the subclass constructor's, nor the creating function's are in its scope"""
    return ("class Base { public int slots = 4; public int cap = slots * 2; public static int unit = 3; public int w = unit + slots;\n"
            "  public constructor(int %s) -> Base { int t = %s + 1; echo(t); } public function twice(int v) -> int { return v * 2; } }\n"
            "class Ring extends Base { public int extra = slots + cap; public int viaCall = twice(w); public constructor(int %s, int b) -> Ring { super(b); echo(%s); } }\n"
            "class Lazy { public int slots = 6; public int cap = slots + 1; public constructor() -> Lazy { int %s = 70; echo(%s); } }\n"
            "function make(int %s) -> Ring { return new Ring(%s, 50); }\n"
            "function main() -> void { int %s = 9; Ring r = new Ring(100, %s); echo(r.slots); echo(r.cap); echo(r.w); echo(r.extra); echo(r.viaCall);\n"
            "  Ring s = make(7); echo(s.cap); echo(s.extra); echo(s.viaCall); Lazy z = new Lazy(); echo(z.cap); }\n" % ((lname,) * 10))


def e_items(tier):
    items = []
    for k in ((3, 4) if tier != "thorough" else (3, 4, 5)):
        variants = list(itertools.permutations(E_NAMES, k))
        if k >= 4:
            variants = variants[::7] if k == 4 else variants[::61]
        for i in range(0, len(variants), 200):
            items.append((("E1", k), variants[i:i + 200]))
    combos = [(sn, fn, tp) for sn in ("Cfg", "T", "U", "plainS") for fn in ("Cfg", "T", "U", "plainF") for tp in ("T", "U", "W") if sn != fn]
    items.append((("E2",), combos))
    for i, w in enumerate(E3_WRAPS):
        items.append((("E3", i), [(w, ln) for ln in ("x", "cl", "p", "o", "c2", "m")]))
    for sn in ("N", "size"):
        items.append((("E4", sn), [(sn, ln) for ln in (sn, "data", "qs", "a", "m")]))
    items.append((("E5",), [(ln,) for ln in ("add", "helper", "run", "twice", "free", "a", "main")]))
    items.append((("E6",), [(ln,) for ln in ("pending", "gain", "c", "m", "offset2")]))
    items.append((("E7",), [(ln,) for ln in ("slots", "cap", "unit", "w", "extra", "viaCall", "v", "twice")]))
    return items


def _one_e(item):
    tag, variants = item
    out, n = [], 1
    if tag[0] == "E1":
        ref_src = render_e1(["u%d" % i for i in range(tag[1])])
    elif tag[0] == "E3":
        ref_src = render_e3(E3_WRAPS[tag[1]], "u0")
    elif tag[0] == "E4":
        ref_src = render_e4(tag[1], "u0")
    elif tag[0] == "E5":
        ref_src = render_e5("u0")
    elif tag[0] == "E6":
        ref_src = render_e6("u0")
    elif tag[0] == "E7":
        ref_src = render_e7("u0")
    else:
        ref_src = render_e2("plainS", "plainF", "W")
    r0 = vdrv.run_src(ref_src, gc="own", warn=0)
    if r0.crash or r0.rec is None or r0.rec.get("status") != "ok":
        return tag, [("reference", ref_src, "the uniquely named variant did not run: %s %s" % (r0.status(), (r0.rec or {}).get("msg", r0["fd2"][:200])))], 1, None
    want = (r0.rec["status"], r0.rec["stdout"])
    for v in variants:
        src = render_e1(list(v)) if tag[0] == "E1" else render_e3(*v) if tag[0] == "E3" else render_e4(*v) if tag[0] == "E4" else render_e5(*v) if tag[0] == "E5" else render_e6(*v) if tag[0] == "E6" else render_e7(*v) if tag[0] == "E7" else render_e2(*v)
        r = vdrv.run_src(src, gc="own", warn=0)
        n += 1
        if r.crash:
            out.append((v, src, "interpreter died: %s" % r.crash))
            continue
        got = (r.rec.get("status"), r.rec.get("stdout", ""))
        if got != want:
            out.append((v, src, "renaming changed the behaviour: with unique names the program prints %r, with names %s it gives %s %r %s" % (want[1], list(v), got[0], got[1], r.rec.get("msg", ""))))
    return tag, out, n, want[1]


def _one(item):
    if item[0][0] in ("E1", "E2", "E3", "E4", "E5", "E6", "E7"):
        return _one_e(item)
    if item[0][0] == "D":
        return _one_d((item[0][1:], item[1]))
    (i1, i2, i3, ic), name_list = item
    m1, m2, fb, calls = M1_BODIES[i1], M2_BODIES[i2], F_BODIES[i3], CALLS[ic]
    ref_src = render(UNIQUE, m1, m2, fb, calls)
    r0 = vdrv.run_src(ref_src, gc="own", warn=0)
    out = []
    if r0.crash or r0.rec is None or r0.rec.get("status") != "ok":
        return (i1, i2, i3, ic), [("reference", ref_src, "the uniquely named variant did not run: %s %s" % (r0.status(), (r0.rec or {}).get("msg", r0["fd2"][:200])))], 1, None
    want = (r0.rec["status"], r0.rec["stdout"])
    n = 1
    for names in name_list:
        src = render(names, m1, m2, fb, calls)
        r = vdrv.run_src(src, gc="own", warn=0)
        n += 1
        if r.crash:
            out.append((names, src, "interpreter died: %s" % r.crash))
            continue
        got = (r.rec.get("status"), r.rec.get("stdout", ""))
        if got != want:
            out.append((names, src, "renaming locals/parameters changed the behaviour: with unique names the program prints %r, with names %s it gives %s %r %s" % (
                want[1], {k: v for k, v in names.items()}, got[0], got[1], r.rec.get("msg", ""))))
    return (i1, i2, i3, ic), out, n, want[1]


def main(tier):
    ck = vcheck.Check("C09", "exploration", tier)
    ck.set_deadline(1700 if tier == "thorough" else 170)
    combos = list(itertools.product(range(len(M1_BODIES)), range(len(M2_BODIES)), range(len(F_BODIES)), range(len(CALLS))))
    if tier != "thorough":
        combos = [c for i, c in enumerate(combos) if i % 7 == 0 or c[3] >= 4]
    # family B namings only matter for the call sequences that open the generic

    allnames = list(namings(tier))
    items = []
    total = 0
    for c in combos:
        nl = [n for n in allnames if valid(n, M1_BODIES[c[0]], M2_BODIES[c[1]]) and (not n.get("familyB") or c[3] >= 7)]
        if tier != "thorough":
            nl = [n for i, n in enumerate(nl) if n.get("familyB") or i % 10 == 0]
        # split large groups so that workers stay busy
        for i in range(0, len(nl), 250):
            items.append((c, nl[i:i + 250]))
            total += len(nl[i:i + 250])
    # family D (destructors): every destructor body x way of dying x naming
    dn = list(namings_d())
    for ib in range(len(D_BODIES)):
        for idth in range(len(D_DEATHS)):
            for i in range(0, len(dn), 250):
                items.append((("D", ib, idth), dn[i:i + 250]))
                total += len(dn[i:i + 250])
    for it in e_items(tier):
        items.append(it)
        total += len(it[1])
    items.sort(key=lambda it: 0 if (it[0][0] == "D" or str(it[0][0]).startswith("E")) else 1)      # the small family first: it completes even if the deadline cuts the rest
    outs = set()
    nruns = 0
    done = 0
    B = 64
    for start in range(0, len(items), B):
        if ck.out_of_time():
            ck.cap("deadline after %d of %d name assignments" % (done, total))
            break
        for combo, bad, n, refout in vdrv.pmap(_one, items[start:start + B], chunksize=1):
            nruns += n
            done += n - 1
            if refout is not None:
                outs.add((combo, refout))
            for names, src, p in bad:
                collide = sorted(k for k in ("aP", "bL", "fP", "fL", "mA", "mB", "uP", "uL", "hP", "hL", "dL") if isinstance(names, dict) and names.get(k) in (names.get("F1"), names.get("F2")))
                ck.violation("variant:%s:%s" % (combo, ",".join(collide) if isinstance(names, dict) else ("reference" if names == "reference" else "renamed")), "%s\nprogram:\n%s" % (p, src),
                             {"tool": "vdrv", "job": {"kind": "run", "opts": {"gc": "own", "warn": 0}, "blobs": {"src": src}}})
    ck.sample({"unique": render(UNIQUE, M1_BODIES[0], M2_BODIES[0], F_BODIES[0], CALLS[7])})
    ck.sample({"colliding": render({"S1": "x", "S2": "y", "oP": "x", "oL": "n", "F1": "x", "F2": "y", "aP": "n", "bL": "n", "fP": "x", "fL": "y", "gP": "x", "cP": "x", "mA": "x", "mB": "y"}, M1_BODIES[0], M2_BODIES[0], F_BODIES[0], CALLS[4])})
    ck.assumptions += ["a naming is an alpha-variant iff within each body no local/parameter carries the name of a field that body refers to barely (then the bare name would lexically mean the local)",
                       "main's object variables k and j keep fixed names outside the pool"]
    ck.finish({"evaluations": nruns, "distinct_nontrivial": len(outs), "rule": "all capture-free assignments of pool names {x,y,n} to the name slots x body/call combinations; distinct = distinct (combination, reference output) pairs",
               "combinations": len(combos) + len(D_BODIES) * len(D_DEATHS), "destructor_family_namings": len(dn), "name_assignments": total})
