"""C20 - self-update decisions. The real update_manager.cpp compiled into the harness (scripted HTTP stub, fake clock,
scratch cache): exhaustive version pairs/triples, exhaustive small checksums.txt files, BFS over invocation histories."""
import json, subprocess
from concurrent.futures import ThreadPoolExecutor
import vcheck, vbuild


def main(tier):
    ck = vcheck.Check("C20", "model_checking", tier)
    exe = vbuild.ensure("asan", ["upd_mc"])["upd_mc"]
    D = 14 if tier == "thorough" else 6
    modes = [["pairs"], ["checksum"], ["history", str(D)]]

    def one(args):
        p = subprocess.run([exe] + args, stdout=subprocess.PIPE, stderr=subprocess.PIPE)
        if p.returncode != 0:
            return {"crashed": True, "rc": p.returncode, "stderr": p.stderr.decode(errors="replace")[-3000:], "args": args, "violations": []}
        d = json.loads(p.stdout.decode(errors="replace").strip().split("\n")[-1])
        d["args"] = args
        return d
    with ThreadPoolExecutor(max_workers=3) as ex:
        res = list(ex.map(one, modes))
    for d in res:
        if d.get("crashed"):
            ck.violation("crash:" + " ".join(d["args"]), "upd_mc %s died rc=%s (an exception escaping the updater terminates the CLI the same way):\n%s" % (d["args"], d["rc"], d["stderr"]),
                         {"tool": "cmd", "argv": [exe] + d["args"]})
            continue
        for v in d["violations"]:
            ck.violation(v["key"], "%s (x%d)\ncase: %s" % (v["what"], v["count"], v["case"]), {"tool": "cmd", "argv": [exe] + d["args"], "case": v["case"]})
        for s in d.get("samples", [])[:2]:
            ck.sample({"mode": d["mode"], "case": s})
    pairs = next((d for d in res if d.get("mode") == "pairs"), {})
    chk = next((d for d in res if d.get("mode") == "checksum"), {})
    hist = next((d for d in res if d.get("mode") == "history"), {})
    ck.assumptions += ["versions: optional 'v', up to three dot-separated decimal components (missing = 0), anything after is ignored; a component beyond int range may be treated as unparseable",
                       "HTTP, wall clock, cache directory and stdin are harness-controlled; sha256 and tar are real"]
    ck.finish({
        "states": hist.get("states", 0) + pairs.get("alphabet", 0) + chk.get("files", 0),
        "transitions": hist.get("transitions", 0) + pairs.get("pairs", 0) + chk.get("files", 0),
        "traces_validated_against_impl": hist.get("transitions", 0) + pairs.get("pairs", 0) + pairs.get("triples", 0) + chk.get("files", 0) + chk.get("gate_runs", 0),
        "version_alphabet": pairs.get("alphabet"), "version_pairs": pairs.get("pairs"), "version_triples": pairs.get("triples"),
        "announced": pairs.get("announced"), "downloads_requested": pairs.get("downloads"), "already_latest": pairs.get("already_latest"), "refused": pairs.get("refused"),
        "checksum_files": chk.get("files"), "checksum_gate_runs": chk.get("gate_runs"),
        "history_depth": D, "history_states": hist.get("states"), "history_transitions": hist.get("transitions"), "history_notices": hist.get("notices"),
    }, exhaustive=True)
