"""C06 - a measured qubit cannot be operated on until reset, through any access path.
Explicit-state search on the real evaluator: state = history of labelled operations replayed on a fresh evaluator via a
generated program; canonical key = (evaluator measured flags, simulator measured flags, last-measurement slots) read from the
real objects. Every state is expanded with every (operation x qubit x access path); a reference Active/Measured automaton
predicts acceptance or the located refusal."""
import collections, itertools
import vcheck, vdrv, qcheck, refsim
from checks import simlevel

PRELUDE = """class O {
    public qubit q;
    public constructor() -> O = default;
    public function bx() -> void { x(q); }
    public function bh() -> void { h(q); }
    public function bcxc(qubit u) -> void { cx(q, u); }
    public function bcxt(qubit u) -> void { cx(u, q); }
    public function bms() -> void { measure q; }
    public function bme() -> bit { return measure q; }
    public function breset() -> void { reset q; }
    public function tx() -> void { x(this.q); }
    public function th() -> void { h(this.q); }
    public function tcxc(qubit u) -> void { cx(this.q, u); }
    public function tcxt(qubit u) -> void { cx(u, this.q); }
    public function tms() -> void { measure this.q; }
    public function tme() -> bit { return measure this.q; }
    public function treset() -> void { reset this.q; }
}
class Hp {
    public constructor() -> Hp = default;
    public function ax(qubit t) -> void { x(t); }
    public function ah(qubit t) -> void { h(t); }
    public function acxc(qubit t, qubit u) -> void { cx(t, u); }
    public function acxt(qubit t, qubit u) -> void { cx(u, t); }
    public function ams(qubit t) -> void { measure t; }
    public function ame(qubit t) -> bit { return measure t; }
    public function areset(qubit t) -> void { reset t; }
}
function fx(qubit t) -> void { x(t); }
function fh(qubit t) -> void { h(t); }
function fcxc(qubit t, qubit u) -> void { cx(t, u); }
function fcxt(qubit t, qubit u) -> void { cx(u, t); }
function fms(qubit t) -> void { measure t; }
function fme(qubit t) -> bit { return measure t; }
function freset(qubit t) -> void { reset t; }
@quantum function qx(qubit t) -> void { x(t); }
@quantum function qh(qubit t) -> void { h(t); }
@quantum function qcxc(qubit t, qubit u) -> void { cx(t, u); }
@quantum function qcxt(qubit t, qubit u) -> void { cx(u, t); }
@quantum function qms(qubit t) -> void { measure t; }
@quantum function qme(qubit t) -> bit { return measure t; }
@quantum function qreset(qubit t) -> void { reset t; }
function fmarr(qubit[] t) -> void { measure t; }
static class Keep { public static O o = null; }
"""
PRELUDE_LINES = PRELUDE.count("\n")
HELPER_LINE = {}
for i, ln in enumerate(PRELUDE.split("\n")):
    for w in ln.replace("(", " ").split():
        pass
    if "function " in ln:
        name = ln.split("function ")[1].split("(")[0]
        HELPER_LINE[name] = i + 1

QUBITS = ["a", "r0", "r1", "oq"]
EXPR = {"a": "a", "r0": "r[0]", "r1": "r[1]", "oq": "o.q"}
OPS = ["x", "h", "cxc", "cxt", "ms", "me", "reset"]
MAIN_DECL = ["qubit pad;", "qubit a;", "qubit[2] r;", "O o = new O();", "Keep.o = o;", "qubit p;", "Hp hp = new Hp();"]
# simulator indices by allocation order
INDEX = {"pad": 0, "a": 1, "r0": 2, "r1": 3, "oq": 4, "p": 5}


def labelled_ops(tier):
    """-> list of (label, qubit(s) touched, kind, renderer(n)->statement text, helper name or None)"""
    out = []
    for q in QUBITS:
        T = EXPR[q]
        paths = ["direct", "fn", "qfn", "mparam"] + (["bare", "this"] if q == "oq" else [])
        for op in OPS:
            for path in paths:
                if path == "direct":
                    txt = {"x": "x(%s);", "h": "h(%s);", "cxc": "cx(%s, p);", "cxt": "cx(p, %s);", "ms": "measure %s;", "me": "bit b{n} = measure %s;", "reset": "reset %s;"}[op] % T
                    helper = None
                elif path in ("fn", "qfn"):
                    pre = "f" if path == "fn" else "q"
                    helper = pre + op
                    args = T + (", p" if op in ("cxc", "cxt") else "")
                    txt = ("bit b{n} = %s(%s);" if op == "me" else "%s(%s);") % (helper, args)
                elif path == "mparam":
                    helper = "a" + op
                    args = T + (", p" if op in ("cxc", "cxt") else "")
                    txt = ("bit b{n} = hp.%s(%s);" if op == "me" else "hp.%s(%s);") % (helper, args)
                else:
                    helper = ("b" if path == "bare" else "t") + op
                    args = "p" if op in ("cxc", "cxt") else ""
                    txt = ("bit b{n} = o.%s(%s);" if op == "me" else "o.%s(%s);") % (helper, args)
                out.append(("%s:%s:%s" % (op, q, path), q, op, txt, helper))
    out.append(("marr:direct", "r", "marr", "measure r;", None))
    out.append(("marr:fn", "r", "marr", "fmarr(r);", "fmarr"))
    out.append(("recycle", "oq", "recycle", "Keep.o = null; o = null; o = new O(); Keep.o = o;", None))
    out.append(("recycle-destroy", "oq", "recycle", "Keep.o = null; destroy o; o = new O(); Keep.o = o;", None))
    return out


def render(hist):
    lines = ["function main() -> void {"] + ["    " + d for d in MAIN_DECL]
    stmt_line = []
    for n, op in enumerate(hist):
        stmt_line.append(PRELUDE_LINES + len(lines) + 1)
        lines.append("    " + op[3].replace("{n}", str(n)))
    lines.append("}")
    return PRELUDE + "\n".join(lines) + "\n", stmt_line


def reference(hist):
    """Active/Measured automaton. Returns (index of the first refused op or None, measured dict, expected performed sim ops (names))"""
    measured = {q: False for q in QUBITS}
    performed = []
    for i, (label, q, kind, txt, helper) in enumerate(hist):
        if kind == "marr":
            for e in ("r0", "r1"):
                if measured[e]:
                    return i, measured, performed
                measured[e] = True
                performed.append(("measure", INDEX[e]))
            continue
        if kind == "recycle":
            measured["oq"] = False
            performed.append(("release", INDEX["oq"]))
            continue
        if kind == "reset":
            measured[q] = False
            performed.append(("reset", INDEX[q]))
            continue
        if measured[q]:
            return i, measured, performed
        if kind in ("ms", "me"):
            measured[q] = True
            performed.append(("measure", INDEX[q]))
        elif kind == "cxc":
            performed.append(("cx", INDEX[q], INDEX["p"]))
        elif kind == "cxt":
            performed.append(("cx", INDEX["p"], INDEX[q]))
        else:
            performed.append((kind, INDEX[q]))
    return None, measured, performed


def check_run(hist, r, stmt_line):
    """-> (problems, key or None)"""
    probs = []
    refused, measured, performed = reference(hist)
    if r.crash:
        return ["interpreter died: %s %s" % (r.crash, r["fd2"][:300])], None
    rec = r.rec
    st = rec.get("status")
    ops = [o for o in rec["ops"] if o[0] != "alloc"]
    # compare performed simulator operations (implicit resets on release/reuse are tolerated at 'release' items)
    j = 0
    for item in performed:
        if item[0] == "release":
            while j < len(ops) and ops[j][0] == "reset" and ops[j][1] == item[1]:
                j += 1
            continue
        if j >= len(ops):
            probs.append("operation %s was never performed by the simulator" % (item,))
            break
        got = ops[j]
        want_name = item[0]
        if got[0] != want_name or got[1] != item[1] or (len(item) > 2 and got[2] != item[2]):
            probs.append("simulator performed %s where %s was expected" % (got[:3], item))
            break
        j += 1
    else:
        # trailing ops: end-of-scope release of o.q only
        rest = [o for o in ops[j:] if not (o[0] == "reset" and o[1] == INDEX["oq"])]
        if rest:
            probs.append("the simulator performed %s although the program was refused / finished before it" % (rest[0][:3],))
    if refused is None:
        if st != "ok":
            probs.append("a program that never touches a measured qubit was stopped: %s at line %s: %s" % (st, rec.get("line"), rec.get("msg")))
    else:
        label, q, kind, txt, helper = hist[refused]
        if st != "runtime":
            probs.append("operation #%d (%s) touches a measured qubit but the program ended with status %s %s" % (refused, label, st, rec.get("msg", "")))
        else:
            ok_lines = {stmt_line[refused]}
            if helper:
                ok_lines.add(HELPER_LINE[helper])
            if rec.get("line") not in ok_lines or not rec.get("col", 0) > 0:
                probs.append("refusal of %s is not located at the offending statement: reported Ln %s Col %s, statement is on line %s%s; message: %s" % (
                    label, rec.get("line"), rec.get("col"), stmt_line[refused], (" (helper body on line %d)" % HELPER_LINE[helper]) if helper else "", rec.get("msg")))
            if "measured" not in (rec.get("msg") or ""):
                probs.append("refusal message does not name a measured qubit: %r" % rec.get("msg"))
    fl = rec["flags"]
    for q in QUBITS:
        i = INDEX[q]
        if i >= len(fl["eval"]) or i >= len(fl["sim"]):
            probs.append("qubit %s (index %d) missing from the flag vectors" % (q, i))
            continue
        if bool(fl["eval"][i]) != measured[q] or bool(fl["sim"][i]) != measured[q]:
            probs.append("after the run qubit %s should be %s but evaluator flag=%s simulator flag=%s" % (q, "Measured" if measured[q] else "Active", fl["eval"][i], fl["sim"][i]))
    for q in ("pad", "p"):
        i = INDEX[q]
        if fl["eval"][i] or fl["sim"][i]:
            probs.append("never-measured qubit %s is flagged measured" % q)
    amps = refsim.amps_from_json(rec["amps"])
    marg = tuple(round(refsim.p1(amps, INDEX[q]), 3) for q in QUBITS)
    key = (tuple(fl["eval"][:6]), tuple(fl["sim"][:6]), tuple(fl["last"][:6]), marg)
    return probs, key


def leak_programs():
    """handles that outlive the object owning the qubit (leak ways shared with checks/c03.py) against a freshly declared qubit d: the
    measured flag of the one must never show up on the other. -> (name, source, line that must refuse or None, line of the stale use)"""
    from checks import c03
    base = c03.LEAK_CLS.count("\n") + 1
    for ln, lsrc in c03.LEAKS.items():
        for fn, (fsrc, handles) in c03.LEAK_FRESH.items():
            d = handles[0]
            bodies = {"measure-leaked-then-gate-fresh": (["measure s;", "x(%s);" % d], None, 0),
                      "measure-leaked-reset-fresh-gate-leaked": (["measure s;", "reset %s;" % d, "x(s);"], 2, 0),
                      "measure-fresh-then-gate-leaked": (["measure %s;" % d, "x(s);"], None, 1),
                      "measure-fresh-reset-leaked-gate-fresh": (["measure %s;" % d, "reset s;", "x(%s);" % d], 2, 1)}
            # (seeds C06-3, C17-6) the leaked handle is measured AFTER its owner's qubit was released and then goes out of scope, so the index
            # is free again: the next declaration that takes it is a never-measured qubit
            lines = ["function main() -> void {", "qubit pad;", "{ " + lsrc + " x(s); measure s; }", fsrc, "h(%s);" % d, "measure %s;" % d, "echo(\"end\");", "}"]
            yield ("leak:%s:%s:measured-after-release-then-out-of-scope" % (ln, fn), c03.LEAK_CLS + "\n".join(lines) + "\n", None, base + 2)
            for bn, (stmts, refuse_at, stale_at) in bodies.items():
                lines = ["function main() -> void {", "qubit pad;", lsrc, fsrc] + stmts + ["echo(\"end\");", "}"]
                yield ("leak:%s:%s:%s" % (ln, fn, bn), c03.LEAK_CLS + "\n".join(lines) + "\n",
                       None if refuse_at is None else base + 4 + refuse_at, base + 4 + stale_at)


def owner_death_programs():
    """(second hunt, C06/d1) a handle copied out of an object, measured, THEN the owner dies (null, destroy, scope end, replaced, a field's owner
    destroyed): the owner's death is not a reset of the handle's qubit - the next gate through the handle is refused, and after an explicit reset
    it is accepted. -> same tuple shape as leak_programs"""
    from checks import c03
    base = c03.LEAK_CLS.count("\n") + 1
    deaths = {"null": ("Lk a = new Lk(); qubit s = a.q;", "a = null;"), "destroy": ("Lk a = new Lk(); qubit s = a.q;", "destroy a;"), "replaced": ("Lk a = new Lk(); qubit s = a.q;", "a = new Lk();"),
              "via-method": ("Lk a = new Lk(); qubit s = a.out();", "a = null;"), "holder-field": ("Hd hh = new Hd(); qubit s = hh.a.q;", "hh = null;"),
              "static-owner": ("G.so = new Lk(); qubit s = G.so.q;", "G.so = null;")}
    for dn, (decl, death) in deaths.items():
        for prep in ("x(s);", "h(s); x(s);"):
            lines = ["function main() -> void {", "qubit pad;", decl, prep, "measure s;", death, "x(s);", "echo(\"end\");", "}"]
            yield ("leak:owner-dies-after-measure:%s:%s:gate-must-be-refused" % (dn, "x" if prep == "x(s);" else "hx"), c03.LEAK_CLS + "\n".join(lines) + "\n", base + 6, base + 6)
            lines = ["function main() -> void {", "qubit pad;", decl, prep, "measure s;", death, "reset s;", "x(s);", "echo(\"end\");", "}"]
            yield ("leak:owner-dies-after-measure:%s:%s:reset-then-gate-accepted" % (dn, "x" if prep == "x(s);" else "hx"), c03.LEAK_CLS + "\n".join(lines) + "\n", None, base + 6)


def recycled_register_programs():
    """(seed C06-5) a REGISTER handle that outlives its owner, where the register was built from recycled simulator indices (earlier objects
    died first, so its indices are neither ascending nor contiguous): measured, owner dead, never reset - a gate or measurement through any
    element of the copy is refused at that line; after 'reset' of that element it is accepted. -> same tuple shape as leak_programs"""
    for n in (2, 3):
        cls = ("class Reg { public qubit[%d] qs; public constructor() -> Reg = default; }\nclass One { public qubit q; public constructor() -> One = default; }\n"
               "function scratchReg() -> void { Reg t = new Reg(); h(t.qs[1]); }\nfunction scratchOne() -> void { One t = new One(); h(t.q); }\n" % n)
        warm = {"none": "", "reg": "scratchReg();", "one+reg": "scratchOne(); scratchReg();", "reg+one": "scratchReg(); scratchOne();", "reg+reg": "scratchReg(); scratchReg();"}
        for wn, wsrc in warm.items():
            for mform in ("whole", "element"):
                for k in range(n):
                    for use in ("x(hs[%d]);" % k, "measure hs[%d];" % k, "cx(hs[%d], hs[%d]);" % ((k + 1) % n, k)):
                        for fixed in (False, True):
                            msrc = "measure r.qs;" if mform == "whole" else "measure r.qs[%d];" % k
                            fn = cls + "function grab() -> qubit[] { Reg r = new Reg(); x(r.qs[%d]); %s return r.qs; }\n" % (k, msrc)
                            body = ["function use(qubit[] hs) -> void {"] + (["reset hs[%d];" % k] if fixed else []) + [use, "echo(\"end\");", "}"]
                            base = fn.count("\n") + 1
                            src = fn + "\n".join(body) + "\nfunction main() -> void { qubit pad; %s use(grab()); }\n" % wsrc
                            refuse = None if fixed else base + 1
                            if fixed and use.startswith("cx") and mform == "whole":
                                continue        # the control is measured too: covered by the unfixed case
                            yield ("leak:recycled-register:n%d:%s:%s:%d:%s:%s" % (n, wn, mform, k, use.split("(")[0].split(" ")[0], "reset-first" if fixed else "must-refuse"), src, refuse, refuse or base + 1)


def _leak_one(item):
    name, src, must_refuse, stale_line = item
    r = vdrv.run_src(src, gc="own", warn=0)
    if r.crash or r.rec is None:
        return name, src, "interpreter died: %s %s" % (r.crash, r["fd2"][:300])
    st, line, msg = r.rec.get("status"), r.rec.get("line"), r.rec.get("msg") or ""
    if st == "runtime" and "measured" not in msg and line is not None and line <= (must_refuse or 10 ** 9):
        return name, src, None          # the stale handle itself was refused: allowed
    if must_refuse is None:
        if st != "ok":
            return name, src, "a program that never touches a measured qubit was stopped: %s at line %s: %s" % (st, line, msg)
    else:
        if st != "runtime":
            return name, src, "the statement on line %d touches a measured qubit that was not reset, but the program ended with status %s %s" % (must_refuse, st, msg)
        if line != must_refuse or "measured" not in msg:
            return name, src, "the refusal should be on line %d ('... has already been measured') but is: line %s: %s" % (must_refuse, line, msg)
    return name, src, None


_LABELS = None


def expand(item):
    """item = history (list of labelled ops): run history+op for every labelled op, all outcome histories. Returns list of
    (label, problems, key, ok, nruns)"""
    hist = item
    out = []
    for op in _LABELS:
        h2 = hist + [op]
        src, stmt_line = render(h2)
        runs, capped = qcheck.dfs_outcomes(src, gc="own", max_runs=16, want="ops,flags,inv,amps")
        for script, r in runs:
            probs, key = check_run(h2, r, stmt_line)
            refused = reference(h2)[0]
            out.append((op[0], probs, key, refused is None, src, list(script)))
    return out


def main(tier):
    global _LABELS
    ck = vcheck.Check("C06", "model_checking", tier)
    # simulator-level part (refusal inside QasmSimulator) comes from the sim_mc BFS
    res = simlevel.run_all([["bfs", "full", 3, 8 if tier != "thorough" else 10]])
    simlevel.report(ck, res, {"C06"})
    nleak = 0
    for name, src, prob in vdrv.pmap(_leak_one, list(leak_programs()) + list(owner_death_programs()) + list(recycled_register_programs()), chunksize=4):
        nleak += 1
        if prob:
            ck.violation(":".join(name.split(":")[:2] + name.split(":")[3:]) + ":" + prob.split(" ")[0], "%s\ncase %s\nprogram:\n%s" % (prob, name, src),
                         {"tool": "vdrv", "job": {"kind": "run", "opts": {"gc": "own", "warn": 0}, "blobs": {"src": src}}})
    _LABELS = labelled_ops(tier)
    maxdepth = 6 if tier == "thorough" else 4
    ck.set_deadline(1500 if tier == "thorough" else 150)
    seen = {}
    frontier = [[]]
    # the root state
    src, sl = render([])
    r0 = qcheck.run(src, gc="own", want="ops,flags,inv,amps")
    p0, k0 = check_run([], r0, sl)
    for p in p0:
        ck.violation("root:" + p[:40], p, {"tool": "vdrv", "job": {"kind": "run", "opts": {"want": "ops,flags"}, "blobs": {"src": src}}})
    seen[k0] = []
    transitions = runs = refusals = 0
    depth = 0
    labels_hit = set()
    while frontier and depth < maxdepth:
        if ck.out_of_time():
            ck.cap("deadline at depth %d with %d frontier states" % (depth, len(frontier)))
            break
        nxt = []
        for hist, results in zip(frontier, vdrv.pmap(expand, frontier, chunksize=1)):
            for label, probs, key, accepted, src, script in results:
                transitions += 1
                labels_hit.add(label)
                if not accepted:
                    refusals += 1
                for p in probs:
                    ck.violation("%s|%s" % (label, " ".join(p.split(" ")[:5])), "%s\nhistory: %s\ndraws: %s\nprogram:\n%s" % (p, [h[0] for h in hist] + [label], script, src),
                                 {"tool": "vdrv", "job": {"kind": "run", "opts": {"want": "ops,flags,inv", "gc": "own", "draws": ",".join(map(str, script)), "warn": 0}, "blobs": {"src": src}}})
                if accepted and not probs and key is not None and key not in seen:
                    op = next(o for o in _LABELS if o[0] == label)
                    seen[key] = hist + [op]
                    nxt.append(hist + [op])
        frontier = nxt
        depth += 1
    if frontier and depth >= maxdepth:
        ck.note("BFS stopped at depth bound %d with %d unexpanded states" % (maxdepth, len(frontier)))
    for k, h in list(seen.items())[:: max(1, len(seen) // 4)][:4]:
        ck.sample({"state": {"eval": k[0], "sim": k[1], "last": k[2], "p1": k[3]}, "history": [x[0] for x in h]})
    ck.assumptions += ["a refusal is 'located' when line is the offending statement's line (or the helper body's line for operations reached through a function/method) and column > 0",
                       "'measure r' on an array is the sequence of its element measurements"]
    ck.finish({"states": len(seen) + sum(d.get("states", 0) for d in res), "transitions": transitions + sum(d.get("refused", 0) for d in res),
               "traces_validated_against_impl": transitions, "eval_states": len(seen), "eval_transitions": transitions, "refusals_checked": refusals, "labelled_operations": len(_LABELS), "leaked_handle_programs": nleak,
               "labels_exercised": len(labels_hit), "depth_completed": depth, "fixpoint": not frontier,
               "sim_level_refused_transitions": sum(d.get("refused", 0) for d in res)}, exhaustive=not frontier or depth >= maxdepth)
