"""C11 - garbage collection is unobservable under every schedule; the timer thread is race-free and always stopped.
(a) collection-point exploration: for every program of an allocation grammar the collector is forced at every subset of the
    statement boundaries (all 2^K subsets for K <= K0, all subsets of size <= d plus 'all' beyond); stdout, destructor log,
    status and tracked counts must equal the run without any collection.
(b) timer-thread protocol under a cooperative preemption-bounded scheduler (harness/gcthread_mc) and
(c) a free-running ThreadSanitizer pass - see checks/c11_threads.py (invoked from here when built)."""
import itertools, os
import vcheck, vdrv

CLASSES = """class N { public int id; public N next; public constructor(int i) -> N { this.id = i; this.next = null; } public function get() -> int { return this.id; } }
class R { public int id; public constructor(int i) -> R { this.id = i; return this; } }
class P { public N a; public N b; public constructor(N x, N y) -> P { this.a = x; this.b = y; } public function sum() -> int { return this.a.id * 10 + this.b.id; } }
class D { public int id; public constructor(int i) -> D { this.id = i; } public destructor() -> void { echo("~D" + this.id); } public function twice(int k) -> int { return this.id * 2 + k; } }
function mkd(int i) -> D { D t = new D(i); return t; }
class W { public N inner = new N(7); public int k = 1; public constructor() -> W = default; }
class Q { public qubit q; public int tag = 4; public constructor() -> Q = default; }
class T { @tracked public qubit q; public constructor() -> T = default; }
class QC { public qubit q; public N tag; public constructor(int i) -> QC { this.tag = new N(i); } public function id() -> int { return this.tag.id; } }
class TC { @tracked public qubit q; public N tag; public N tag2; public constructor(int i) -> TC { this.tag = new N(i); this.tag2 = new N(i + 1); this.tag.next = this.tag2; } public function id() -> int { return this.tag.id * 10 + this.tag.next.id; } }
class QH { public qubit q; public int id; public constructor(int i) -> QH { this.id = i; } public destructor() -> void { echo("~QH" + this.id); } }
class TH { @tracked public qubit q; public int id; public constructor(int i) -> TH { this.id = i; } public destructor() -> void { echo("~TH" + this.id); } }
class CN { public CN next; public QH held; public TH theld; public D plain; public int id; public constructor(int i) -> CN { this.id = i; this.next = null; this.held = null; this.theld = null; this.plain = null; } }
class CX { public CX peer; public D extra; public Q qown; public constructor() -> CX { this.peer = null; this.extra = null; this.qown = null; } }
class QS extends Q { public int extra = 1; public constructor() -> QS { super(); } }
class TR { @tracked public qubit q; public TR other; public constructor() -> TR { this.other = null; } }
class TRS extends TR { public constructor() -> TRS { super(); } }
class QR { public qubit q; public QR other; public constructor() -> QR { this.other = null; } }
class QRS extends QR { public constructor() -> QRS { super(); } }
class WB { @tracked public qubit h; public constructor(qubit p) -> WB { this.h = p; } }
class NW { public NW other; public WB w; public constructor() -> NW { this.other = null; this.w = null; } }
class Pb { public qubit q; public constructor() -> Pb = default; public destructor() -> void { echo("~Pb"); } }
class Sl { public Pb item; public constructor() -> Sl { this.item = null; } public destructor() -> void { echo("~Sl"); } }
class Sf { public Sl slot; public constructor() -> Sf { this.slot = null; } public destructor() -> void { echo("~Sf"); } }
class Ry { public Sf shelf; public Ry self; public constructor() -> Ry { this.shelf = null; this.self = null; } }
class J { public int k = 0; public constructor() -> J = default; public destructor() -> void { this.k = 1; this.k = 2; } }
function mkqc(int i) -> QC { J j = new J(); return new QC(i); }
function mktc(int i) -> TC { J j = new J(); return new TC(i); }
function qsum(QC a, QC b) -> int { return a.id() * 10 + b.id(); }
static class S { public static N keep = null; public static int n = 0; }
function mk(int i) -> N { return new N(i); }
function mkr(int i) -> R { return new R(i); }
function link(N x, N y) -> int { return x.id * 10 + y.id; }
function link3(N x, N y, N z) -> int { return x.id * 100 + y.id * 10 + z.id; }
function rid(R x, R y) -> int { return x.id * 10 + y.id; }
function ident(N x) -> N { return x; }
function burst(int n) -> int { int c = 0; for (int i = 0; i < n; i = i + 1) { N t = new N(i); c = c + t.id; } return c; }
function chain(int n) -> N { N head = new N(0); N cur = head; for (int i = 1; i < n; i = i + 1) { N nx = new N(i); cur.next = nx; cur = nx; } return head; }
function len(N h) -> int { int c = 0; N cur = h; for (int i = 0; i < 50; i = i + 1) { if (cur == null) { return c; } c = c + 1; cur = cur.next; } return c; }
"""
BODIES = {
    "operand-temp": ["boolean b = mkd(1) == mkd(2);", "echo(b);", "echo(\"end\");"],
    "operand-temp-3": ["boolean b = (mkd(1) == mkd(2)) == (mkd(3) != mkd(4));", "echo(b);"],
    "receiver-temp": ["echo(mkd(5).id + burst(2));", "echo(\"mid\");", "echo(mkd(6).twice(burst(1)));"],
    "args-calls": ["echo(link(mk(1), mk(2)));"],
    "args-new": ["echo(link(new N(1), new N(2)));"],
    "args-mixed": ["echo(link(mk(1), new N(2)));", "echo(link(new N(3), mk(4)));"],
    "args-3": ["echo(link3(mk(1), mk(2), mk(3)));"],
    "args-return-this": ["echo(rid(mkr(1), mkr(2)));", "echo(rid(new R(3), mkr(4)));"],
    "args-nested": ["echo(link(ident(mk(1)), ident(ident(mk(2)))));"],
    "ctor-args": ["P p = new P(new N(1), new N(2));", "echo(p.sum());"],
    "ctor-args-calls": ["P p = new P(mk(1), mk(2));", "echo(p.sum());"],
    "ctor-arg-burst": ["P p = new P(mk(burst(3)), mk(2));", "echo(p.sum());"],
    "ret-as-arg": ["echo(link(mk(burst(2)), mk(2)));"],
    "method-on-temp": ["echo(mk(5).get() + burst(2));", "echo(mk(6).get() + mk(7).get());"],
    "field-init": ["W w = new W();", "echo(w.inner.id + w.k);", "echo(burst(2));", "echo(w.inner.id);"],
    "field-of-object": ["P p = new P(new N(1), new N(2));", "p.a = new N(5);", "echo(burst(2));", "echo(p.sum());"],
    "static-field": ["S.keep = new N(3);", "echo(burst(2));", "echo(S.keep.id);", "S.keep = null;", "echo(burst(1));"],
    "cycle-null": ["N a = new N(1);", "N b = new N(2);", "a.next = b;", "b.next = a;", "echo(a.next.id);", "a = null;", "b = null;", "echo(burst(2));"],
    "cycle-destroy": ["N a = new N(1);", "N b = new N(2);", "a.next = b;", "b.next = a;", "destroy a;", "echo(b.next.id);", "destroy b;", "echo(burst(1));"],
    "cycle-3-kept": ["N a = new N(1);", "N b = new N(2);", "N c = new N(3);", "a.next = b;", "b.next = c;", "c.next = a;", "b = null;", "c = null;", "echo(burst(2));", "echo(a.next.next.id);"],
    "destructor-scope": ["D d = new D(1);", "{ D e = new D(2); echo(\"in\"); }", "echo(\"out\");", "d = null;", "echo(\"end\");"],
    "destructor-overwrite": ["D d = new D(1);", "d = new D(2);", "echo(\"mid\");", "d = new D(3);", "echo(burst(2));"],
    "qubit-object": ["Q q = new Q();", "h(q.q);", "echo(burst(2));", "echo(q.tag);", "measure q.q;"],
    "tracked-object": ["T t = new T();", "x(t.q);", "measure t.q;", "echo(burst(2));", "t = null;", "echo(burst(1));"],
    # objects that own qubits (the collector never sweeps those) with plain children, held only by evaluation temporaries while
    # another statement boundary passes (the local J's destructor body runs during the callee's frame teardown)
    "qubit-temp-child": ["echo(mkqc(3).id());", "echo(mkqc(4).tag.id + burst(2));"],
    "qubit-temp-child-args": ["echo(qsum(mkqc(1), mkqc(2)));", "echo(qsum(new QC(3), mkqc(4)));"],
    "tracked-temp-child": ["echo(mktc(5).id());", "echo(mktc(6).tag.next.id + burst(1));"],
    # objects (qubit-holding, tracked, plain with a destructor) reachable only from a dropped cycle
    "cycle-owns-qubit-object": ["CN a = new CN(1);", "CN b = new CN(2);", "a.next = b;", "b.next = a;", "a.held = new QH(7);", "a = null;", "b = null;", "echo(\"dropped\");", "echo(burst(2));", "echo(\"end\");"],
    "cycle-owns-tracked-object": ["CN a = new CN(1);", "CN b = new CN(2);", "a.next = b;", "b.next = a;", "b.theld = new TH(8);", "x(b.theld.q);", "measure b.theld.q;", "a = null;", "b = null;", "echo(\"dropped\");", "echo(burst(2));", "echo(\"end\");"],
    "cycle-owns-plain-dtor-object": ["CN a = new CN(1);", "CN b = new CN(2);", "a.next = b;", "b.next = a;", "a.plain = new D(9);", "a = null;", "b = null;", "echo(\"dropped\");", "echo(burst(2));", "echo(\"end\");"],
    "self-cycle-owns-qubit-object": ["CN a = new CN(1);", "a.next = a;", "a.held = new QH(3);", "h(a.held.q);", "a = null;", "echo(burst(1));", "QH keep = new QH(4);", "echo(keep.id);"],
    # an object referenced both by a live variable and by a dropped cycle: whether its destructor runs when the variable lets go depends on
    # whether the cycle was collected in between
    "object-shared-with-dropped-cycle": ["D d = new D(1);", "CX c1 = new CX();", "CX c2 = new CX();", "c1.peer = c2;", "c2.peer = c1;", "c1.extra = d;", "c1 = null;", "c2 = null;", "echo(burst(2));", "d = null;", "echo(\"d dropped\");"],
    # a qubit handle copied out of an object that only a dropped cycle still owns: x(h) ... measure h must give 1 whenever the cycle is collected
    "qubit-handle-outlives-cycle-owner": ["CX w = new CX();", "w.qown = new Q();", "w.peer = w;", "qubit hq = w.qown.q;", "w = null;", "x(hq);", "echo(burst(2));", "echo(measure hq);"],
    # a subclass that merely inherits a qubit field, in a dropped cycle
    "inherited-qubit-field-in-cycle": ["CX a = new CX();", "a.qown = new QS();", "a.peer = a;", "qubit hq = a.qown.q;", "x(hq);", "a = null;", "echo(burst(2));", "echo(measure hq);"],
    # hunt C03/d8: a dropped cycle of objects that hold (tracked) qubits, of the class that declares the field and of a subclass that
    # only inherits it: same outcome counts and same later measurements whenever the collector runs
    "tracked-cycle-of-declaring-class": ["TR a = new TR();", "TR b = new TR();", "a.other = b;", "b.other = a;", "x(a.q);", "measure a.q;", "a = null;", "b = null;", "echo(burst(2));", "qubit fresh;", "echo(measure fresh);"],
    "tracked-cycle-of-subclass": ["TRS a = new TRS();", "TRS b = new TRS();", "a.other = b;", "b.other = a;", "x(a.q);", "measure a.q;", "a = null;", "b = null;", "echo(burst(2));", "qubit fresh;", "echo(measure fresh);"],
    "qubit-cycle-of-subclass": ["QRS a = new QRS();", "QRS b = new QRS();", "a.other = b;", "b.other = a;", "x(a.q);", "qubit keep = b.q;", "x(keep);", "a = null;", "b = null;", "echo(burst(2));", "qubit fresh;", "echo(measure fresh);", "echo(measure keep);"],
    # hunt C17/d9: a tracked field that names main's qubit, in an object only a dropped cycle holds: its outcome must not depend on whether
    # the cycle is collected before or after main measures the qubit
    "tracked-borrowed-qubit-held-by-dropped-cycle": ["qubit bq;", "NW a = new NW();", "NW b = new NW();", "a.other = b;", "b.other = a;", "a.w = new WB(bq);", "a = null;", "b = null;", "echo(burst(2));", "x(bq);", "measure bq;", "echo(\"end\");"],
    # (second hunt, C11/d1 demo2) a LIVE qubit-holding object that a dropped cycle also refers to: when it dies depends on whether the cycle
    # was swept before or after the program's own reference went - what a handle copied out of it measures must not
    "live-qubit-owner-referenced-from-dropped-cycle": ["Q t = new Q();", "x(t.q);", "qubit hq = t.q;", "CX c1 = new CX();", "c1.peer = c1;", "c1.qown = t;", "c1 = null;", "echo(burst(2));", "t = null;", "echo(burst(2));", "echo(measure hq);"],
    "live-qubit-owner-referenced-from-dropped-cycle-measured": ["Q t = new Q();", "x(t.q);", "qubit hq = t.q;", "measure hq;", "CX c1 = new CX();", "c1.peer = c1;", "c1.qown = t;", "c1 = null;", "echo(burst(2));", "t = null;", "echo(burst(2));", "reset hq;", "echo(measure hq);"],
    # (seed C11-6) the owner of a live qubit handle hangs below a chain of three holders whose top is cyclic garbage; the holders were allocated
    # top-down (and, in the second program, bottom-up): the whole chain stays alive as long as the handle does, under every schedule
    "qubit-handle-below-holder-chain-top-down": ["Ry r = new Ry();", "Sf s = new Sf();", "Sl t = new Sl();", "Pb p = new Pb();", "r.shelf = s;", "s.slot = t;", "t.item = p;", "r.self = r;", "qubit hq = p.q;", "x(hq);",
                                                 "p = null;", "t = null;", "s = null;", "r = null;", "echo(\"dropped\");", "echo(burst(2));", "echo(measure hq);", "echo(\"end\");"],
    "qubit-handle-below-holder-chain-bottom-up": ["Pb p = new Pb();", "Sl t = new Sl();", "Sf s = new Sf();", "Ry r = new Ry();", "r.shelf = s;", "s.slot = t;", "t.item = p;", "r.self = r;", "qubit hq = p.q;", "x(hq);",
                                                  "p = null;", "t = null;", "s = null;", "r = null;", "echo(\"dropped\");", "echo(burst(2));", "echo(measure hq);", "echo(\"end\");"],
    "pressure": ["echo(burst(18));", "N k = new N(9);", "echo(burst(18));", "echo(k.id);"],
    "pressure-args": ["echo(link(mk(burst(18)), mk(burst(18))));"],
    "list": ["N h = chain(5);", "echo(len(h));", "echo(burst(2));", "echo(len(h));", "h.next.next = null;", "echo(burst(2));", "echo(len(h));"],
    "list-temp": ["echo(len(chain(4)));", "echo(len(ident(chain(3))));"],
    "loop-alloc": ["int s = 0;", "for (int i = 0; i < 3; i = i + 1) { N t = mk(i); s = s + link(t, mk(i + 1)); }", "echo(s);"],
    "error-after-alloc": ["N a = new N(1);", "echo(link(mk(1), mk(2)));", "int z = 0;", "echo(1 / z);"],
    "null-deref": ["N a = new N(1);", "a.next = new N(2);", "echo(a.next.id);", "echo(a.next.next.id);"],
}


def program(name):
    return CLASSES + "function main() -> void {\n    " + "\n    ".join(BODIES[name]) + "\n}\n"


def observe(rec):
    return (rec.get("status"), rec.get("stdout", ""), rec.get("msg", "") if rec.get("status") != "ok" else "", str(sorted((rec.get("tracked") or {}).items())))


def schedules(K, K0, d):
    if K <= K0:
        for bits in range(1, 1 << K):
            yield [i for i in range(K) if (bits >> i) & 1]
    else:
        for k in range(1, d + 1):
            for c in itertools.combinations(range(K), k):
                yield list(c)
        yield list(range(K))


_K0 = 8
_D = 2
_BUDGET = 4000


def _base(name):
    src = program(name)
    probe = vdrv.run_src(src, gc="none", warn=0, want="tracked")
    if probe.crash or probe.rec is None:
        return name, None, None, "the run without collections died: %s %s" % (probe.crash, probe["fd2"][:300])
    # the last boundary is the collection execute() always performs before it returns (production forces it), so it is part of
    # every schedule, including the reference one: "no collection while the program runs"
    last = probe.rec["polls"] - 1
    base = vdrv.run_src(src, gc="mask:%d" % last, warn=0, want="tracked")
    if base.crash or base.rec is None:
        return name, None, None, "the run with only the end-of-run collection died: %s %s" % (base.crash, base["fd2"][:300])
    own = vdrv.run_src(src, gc="own", warn=0, want="tracked")
    ref = observe(base.rec)
    prob = None
    if own.crash:
        prob = "interpreter died with its own collection triggers: %s %s" % (own.crash, own["fd2"][:300])
    elif observe(own.rec) != ref:
        prob = "behaviour differs under the program's own triggers (allocation pressure, destroy): %r vs %r" % (ref, observe(own.rec))
    return name, base.rec["polls"], ref, prob


def _chunk(item):
    name, K, ref, chunk = item
    src = program(name)
    spec = "/".join("mask:" + ",".join(map(str, s)) for s in chunk)
    r = vdrv.run_job({"id": "g", "kind": "run", "opts": {"shots": len(chunk), "gcs": spec, "warn": 0, "want": "tracked", "timeout_ms": 60000}, "blobs": {"src": src}})
    recs = r["records"]
    bad = []
    if r.crash or len(recs) != len(chunk):
        for s in chunk:   # attribute: one schedule per process
            r1 = vdrv.run_src(src, gc="mask:" + ",".join(map(str, s)), warn=0, want="tracked")
            if r1.crash:
                bad.append((s, "interpreter died under this collection schedule: %s\n%s" % (r1.crash, r1["fd2"][:600])))
            elif observe(r1.rec) != ref or r1.rec["polls"] != K:
                bad.append((s, "behaviour differs: with no collection before the end of the run %r, with collections at statement boundaries %s: %r" % (ref, s, observe(r1.rec))))
        return name, bad, len(chunk)
    for s, rec in zip(chunk, recs):
        if observe(rec) != ref:
            bad.append((s, "behaviour differs: with no collection before the end of the run %r, with collections at statement boundaries %s: %r" % (ref, s, observe(rec))))
        elif rec["polls"] != K:
            bad.append((s, "the number of statement boundaries changed from %d to %d under schedule %s" % (K, rec["polls"], s)))
    return name, bad, len(chunk)


def corpus(tier):
    from checks import c08, c10, c12, c17, c09
    out = []
    for name, src, exp in c08.hierarchy_programs(tier) + c08.overload_programs(tier) + c08.generic_programs() + c08.destructor_programs():
        if exp[0] == "ok":
            out.append(("c08:" + name, src))
    for prep in ("h", "x"):
        for p in c17.programs(prep):
            out.append(("c17:%s:%s" % (prep, p.name), p.src))
    for sub in c10.subsets(3):
        out.append(("c10:" + "+".join(sub), c10.program(list(sub) + ["main"], sub)))
    for name, src in c12.edge_programs(tier):
        if name.startswith(("chain", "many-qubits", "deep-recursion")):
            continue
        if tier == "thorough" or name.startswith(("dtor-edge", "generic-hierarchy", "hierarchy", "error-at", "error-in", "pressure", "null")):
            out.append(("c12:" + name, src))
    for ib in range(len(c09.D_BODIES)):
        for idth in range(len(c09.D_DEATHS)):
            out.append(("c09:D:%d:%d" % (ib, idth), c09.render_d(c09.D_UNIQUE, c09.D_BODIES[ib], c09.D_DEATHS[idth])))
    return out


def _corpus_one(item):
    name, src = item
    probe = vdrv.run_src(src, gc="none", warn=0, want="tracked")
    if probe.crash or probe.rec is None or probe.rec.get("stage") != "run":
        return name, src, None, 1                      # not accepted, or a crash (C12's subject)
    last = probe.rec["polls"] - 1
    base = vdrv.run_src(src, gc="mask:%d" % last, warn=0, want="tracked")
    if base.crash or base.rec is None:
        return name, src, None, 2
    ref = observe(base.rec)
    n = 2
    for label, spec in (("every boundary", "all"), ("every second boundary", "mask:" + ",".join(map(str, list(range(0, last, 2)) + [last]))), ("the program's own triggers", "own")):
        r = vdrv.run_src(src, gc=spec, warn=0, want="tracked")
        n += 1
        if r.crash == "timeout":
            continue
        if r.crash:
            return name, src, "interpreter died with collections at %s: %s %s" % (label, r.crash, r["fd2"][:400]), n
        if observe(r.rec) != ref:
            return name, src, "behaviour differs: with no collection before the end of the run %r, with collections at %s %r" % (ref, label, observe(r.rec)), n
    return name, src, "", n


def main(tier):
    global _K0, _D
    ck = vcheck.Check("C11", "model_checking", tier)
    global _BUDGET
    _K0, _D = (15, 3) if tier == "thorough" else (12, 2)
    _BUDGET = 60000 if tier == "thorough" else 4000
    ck.set_deadline(1500 if tier == "thorough" else 150)
    names = list(BODIES)
    total = 0
    states = set()
    exhaustive_programs = 0
    items = []
    Ks = {}
    bounds = {}
    for name, K, ref, prob in vdrv.pmap(_base, names, chunksize=1):
        total += 2
        if K is None:
            ck.violation("gc:%s:baseline" % name, "%s\nprogram (%s):\n%s" % (prob, name, program(name)), {"tool": "vdrv", "job": {"kind": "run", "opts": {"gc": "none"}, "blobs": {"src": program(name)}}})
            continue
        if prob:
            ck.violation("gc:%s:own" % name, "%s\nprogram (%s):\n%s" % (prob, name, program(name)), {"tool": "vdrv", "job": {"kind": "run", "opts": {"gc": "own", "want": "tracked"}, "blobs": {"src": program(name)}}})
        states.add((name, ref))
        Ks[name] = K
        # the largest deviation bound whose schedule count stays within the per-program budget
        import math
        d = 1
        while d < 6 and sum(math.comb(K, k) for k in range(1, d + 2)) <= _BUDGET:
            d += 1
        # every schedule = a non-empty subset of the boundaries inside the run + the end-of-run collection (always performed)
        scheds = [sc + [K - 1] for sc in schedules(K - 1, _K0, d)]
        bounds[name] = "all subsets" if K - 1 <= _K0 else "<= %d collections (+ all)" % d
        if K - 1 <= _K0:
            exhaustive_programs += 1
        for i in range(0, len(scheds), 32):
            items.append((name, K, ref, scheds[i:i + 32]))
        if len(ck.samples) < 4:
            ck.sample({"program": name, "statement_boundaries": K, "schedules": len(scheds), "body": BODIES[name]})
    nbad = {}
    B = 512
    for start in range(0, len(items), B):
        if ck.out_of_time():
            ck.cap("deadline: %d of %d schedule chunks explored" % (start, len(items)))
            break
        for name, bad, n in vdrv.pmap(_chunk, items[start:start + B], chunksize=2):
            total += n
            for sch, p in bad:
                nbad[name] = nbad.get(name, 0) + 1
                if nbad[name] <= 2:
                    ck.violation("gc:%s:%s" % (name, p.split(":")[0][:40]), "%s\nprogram (%s):\n%s" % (p, name, program(name)),
                                 {"tool": "vdrv", "job": {"kind": "run", "opts": {"gc": "mask:" + ",".join(map(str, sch)), "warn": 0, "want": "tracked"}, "blobs": {"src": program(name)}}})
    # corpus pass: every accepted program of the other checks' generators, run with the collector forced at EVERY statement boundary and
    # at every second one, against the run with only the end-of-run collection (three points of the schedule space per program, over
    # thousands of programs nobody wrote with the collector in mind)
    ncorp = 0
    if not ck.out_of_time():
        for name, src, prob, n in vdrv.pmap(_corpus_one, corpus(tier), chunksize=8):
            total += n
            if prob is None:
                continue
            ncorp += 1
            if prob:
                fam = ":".join(name.split(":")[:2])
                ck.violation("corpus:%s:%s" % (fam, prob.split(":")[0][:40]), "%s\nprogram (%s):\n%s" % (prob, name, src), {"tool": "vdrv", "job": {"kind": "run", "opts": {"gc": "all", "warn": 0, "want": "tracked"}, "blobs": {"src": src}}})
    # thread passes
    thr = {}
    try:
        from checks import c11_threads
        thr = c11_threads.run(ck, tier)
    except ImportError:
        ck.note("thread passes (b)/(c) not built")
    ck.assumptions += ["collections are forced through the BLOCH_VERIF_HOOKS schedule at the interpreter's own poll points (statement starts and the end of execute)",
                       "heap-object counts and destructors of cyclic garbage (documented: not run) are not compared"]
    cov = {"states": len(states), "transitions": total, "traces_validated_against_impl": total, "programs": len(names), "programs_with_all_subsets": exhaustive_programs, "statement_boundaries": Ks, "bound_per_program": bounds,
           "K0": _K0, "deviation_bound_beyond_K0": _D, "corpus_programs": ncorp}
    cov.update(thr)
    ck.finish(cov, exhaustive=True)
