"""C16 - static rules are enforced in every syntactic position, and only there. Rule x position x context matrix: for every cell
the violating program must be rejected with a Semantic diagnostic and its repaired twin must be accepted by the analyser.
The type-compatibility cells take their expected verdict from the relation in the property text (same type, int->long,
subclass->base, null->class), not from the analyser."""
import itertools
import vcheck, vdrv

# ---------------------------------------------------------------------------------------------------------------------------
# part 1: declared-type compatibility in every sink
# ---------------------------------------------------------------------------------------------------------------------------
TYPES = ["int", "long", "float", "bit", "boolean", "char", "string", "Base", "Derived", "Other"]
GETTERS = """class Base { public int b; public constructor() -> Base = default; }
class Derived extends Base { public constructor() -> Derived { super(); } }
class Other { public constructor() -> Other = default; }
function gint() -> int { return 1; }
function glong() -> long { return 2L; }
function gfloat() -> float { return 1.5f; }
function gbit() -> bit { return 1b; }
function gboolean() -> boolean { return true; }
function gchar() -> char { return 'c'; }
function gstring() -> string { return "s"; }
function gBase() -> Base { return new Base(); }
function gDerived() -> Derived { return new Derived(); }
function gOther() -> Other { return new Other(); }
"""
VALUES = TYPES + ["null", "qubit"]
DEFAULT = {"int": "0", "long": "0L", "float": "0.0f", "bit": "0b", "boolean": "false", "char": "'a'", "string": "\"\"", "Base": "null", "Derived": "null", "Other": "null"}


def vexpr(v):
    if v == "null":
        return "null"
    if v == "qubit":
        return "vq"
    return "g%s()" % v


def compatible(t, v):
    if v == "null":
        return t in ("Base", "Derived", "Other")
    if v == "qubit":
        return False
    return t == v or (t == "long" and v == "int") or (t == "Base" and v == "Derived")


def sink_program(sink, t, v):
    e = vexpr(v)
    pre = GETTERS
    main_decl = "qubit vq; " if v == "qubit" else ""
    if sink == "initialiser":
        return pre + "function main() -> void { %s%s x = %s; }\n" % (main_decl, t, e)
    if sink == "assign-statement":
        return pre + "function main() -> void { %s%s x = %s; x = %s; }\n" % (main_decl, t, DEFAULT[t], e)
    if sink == "assign-expression":
        return pre + "function main() -> void { %s%s x = %s; int i = 0; for (i = 0; i < 0; x = %s) { } }\n" % (main_decl, t, DEFAULT[t], e)
    if sink == "member-assign":
        return pre + "class H { public %s f; public constructor() -> H = default; }\nfunction main() -> void { %sH h = new H(); h.f = %s; }\n" % (t, main_decl, e)
    if sink == "this-member-assign":
        if v == "qubit":
            return None
        return pre + "class H { public %s f; public constructor() -> H = default; public function set() -> void { this.f = %s; } }\nfunction main() -> void { H h = new H(); h.set(); }\n" % (t, e)
    if sink == "function-arg":
        return pre + "function take(%s p) -> void { }\nfunction main() -> void { %stake(%s); }\n" % (t, main_decl, e)
    if sink == "method-arg":
        return pre + "class H { public constructor() -> H = default; public function take(%s p) -> void { } }\nfunction main() -> void { %sH h = new H(); h.take(%s); }\n" % (t, main_decl, e)
    if sink == "ctor-arg":
        return pre + "class H { public constructor(%s p) -> H { } }\nfunction main() -> void { %sH h = new H(%s); }\n" % (t, main_decl, e)
    if sink == "super-arg":
        if v == "qubit":
            return None
        return pre + "class H { public constructor(%s p) -> H { } }\nclass S extends H { public constructor() -> S { super(%s); } }\nfunction main() -> void { S s = new S(); }\n" % (t, e)
    if sink == "return":
        if v == "qubit":
            return pre + "function r(qubit vq) -> %s { return vq; }\nfunction main() -> void { }\n" % t
        return pre + "function r() -> %s { return %s; }\nfunction main() -> void { }\n" % (t, e)
    if sink == "method-return":
        if v == "qubit":
            return None
        return pre + "class H { public constructor() -> H = default; public function r() -> %s { return %s; } }\nfunction main() -> void { }\n" % (t, e)
    raise ValueError(sink)


SINKS = ["initialiser", "assign-statement", "assign-expression", "member-assign", "this-member-assign", "function-arg", "method-arg", "ctor-arg", "super-arg", "return", "method-return"]


def compat_cells():
    for sink in SINKS:
        for t in TYPES:
            for v in VALUES:
                src = sink_program(sink, t, v)
                if src is None:
                    continue
                yield ("compat:%s:%s<-%s" % (sink, t, v), src, compatible(t, v))
    yield from array_compat_cells()


# array-typed targets: 'null only for class references' and 'only if it has that type' also hold where the declared type is an array
ARRAY_TYPES = ["int[]", "float[]", "Base[]"]
ARRAY_VALUES = {"null": "null", "int": "gint()", "Base": "gBase()", "int[]": "ai", "float[]": "af"}
ARRAY_LOCALS = "int[] ai = {1, 2}; float[] af = {1.5f, 2.5f}; "


def array_compat_cells():
    for t in ARRAY_TYPES:
        for v, e in ARRAY_VALUES.items():
            ok = (t == v)
            progs = {
                "initialiser": GETTERS + "function main() -> void { %s%s x = %s; }\n" % (ARRAY_LOCALS, t, e),
                "function-arg": GETTERS + "function take(%s p) -> void { }\nfunction main() -> void { %stake(%s); }\n" % (t, ARRAY_LOCALS, e),
                "method-arg": GETTERS + "class H { public constructor() -> H = default; public function take(%s p) -> void { } }\nfunction main() -> void { %sH h = new H(); h.take(%s); }\n" % (t, ARRAY_LOCALS, e),
                "ctor-arg": GETTERS + "class H { public constructor(%s p) -> H { } }\nfunction main() -> void { %sH h = new H(%s); }\n" % (t, ARRAY_LOCALS, e),
                "ctor-arg-in-return": GETTERS + "class H { public constructor(%s p) -> H { } }\nfunction mk() -> H { %sreturn new H(%s); }\nfunction main() -> void { }\n" % (t, ARRAY_LOCALS, e),
            }
            if v in ("null", "int", "Base"):      # a super(...) argument has no locals to draw an array from
                progs["super-arg"] = GETTERS + "class H { public constructor(%s p) -> H { } }\nclass S extends H { public constructor() -> S { super(%s); } }\nfunction main() -> void { }\n" % (t, e)
            for sink, src in progs.items():
                yield ("compat:%s:%s<-%s" % (sink, t, v), src, ok)


# ---------------------------------------------------------------------------------------------------------------------------
# part 2: illegal expressions / statements in every position and context
# ---------------------------------------------------------------------------------------------------------------------------
SUPPORT = """class LeafFirst extends MidA { public constructor() -> LeafFirst { super(); } }
class ImplFirst extends MidA { public constructor() -> ImplFirst { super(); } public override function pure() -> int { return 1; } }
class MidA extends Abs { public int mid = 1; public constructor() -> MidA { super(); } }
class OwnPure { public constructor() -> OwnPure = default; public virtual function pure2() -> int; }
class Priv { private int secret = 1; protected int prot = 2; public int pub = 3; public final int ff = 5; private constructor(int hidden) -> Priv { } public constructor() -> Priv = default;
    private function hid() -> int { return 1; } protected function ph() -> int { return 2; } public function open() -> int { return 3; } private static function shid() -> int { return 4; } public static int spub = 9; private static int spriv = 8; }
abstract class Abs { public constructor() -> Abs = default; public virtual function pure() -> int; }
static class Stat { public static int n = 1; public static function f() -> int { return 1; } }
class LeafLast extends MidA { public constructor() -> LeafLast { super(); } }
class ImplLast extends MidA { public constructor() -> ImplLast { super(); } public override function pure() -> int { return 1; } }
function vf() -> void { }
function idf(int a) -> int { return a; }
function idf4(Abs p) -> int { return 1; }
function idf5(OwnPure p) -> int { return 1; }
"""
# name -> (violating expression, repaired expression), both of type int unless noted
EXPR_RULES = {
    "undeclared-variable": ("nope", "ok"),
    "use-before-declaration": ("later", "ok"),       # 'later' is declared after the use in the same body
    "void-call-as-operand": ("vf()", "idf(1)"),
    "function-name-as-value": ("idf", "ok"),
    "gate-name-as-undeclared-variable": ("h", "ok"),
    "gate-name-as-undeclared-variable-rx": ("rx", "ok"),
    "read-index-null": ("arr[null]", "arr[0]"),
    "read-index-string": ("arr[\"s\"]", "arr[1]"),
    "read-index-float": ("arr[1.5f]", "arr[2]"),
    "private-field-via-object": ("po.secret", "po.pub"),
    "protected-field-via-object": ("po.prot", "po.pub"),
    "private-method-via-object": ("po.hid()", "po.open()"),
    "protected-method-via-object": ("po.ph()", "po.open()"),
    "private-static-via-type": ("Priv.spriv", "Priv.spub"),
    "private-static-method-via-type": ("Priv.shid()", "Stat.f()"),
    "assign-to-final-local": ("(fin = 2)", "(ok = 2)"),
    "increment-final-local": ("fin++", "ok++"),
    "assign-final-field-outside-ctor": ("(po.ff = 2)", "(po.pub = 2)"),
    "new-abstract": ("idf2(new Abs())", "idf2(new Priv())"),
    # abstract without the keyword: a bodyless virtual of its own; inherited and unimplemented over two and three levels, with the
    # leaf declared before / after its bases (the repaired twin instantiates the sibling that implements the method)
    "new-class-with-own-bodyless-virtual": ("idf5(new OwnPure())", "idf4(new ImplLast())"),
    "new-abstract-by-inheritance-2-levels": ("idf4(new MidA())", "idf4(new ImplLast())"),
    "new-abstract-by-inheritance-3-levels-leaf-declared-first": ("idf4(new LeafFirst())", "idf4(new ImplFirst())"),
    "new-abstract-by-inheritance-3-levels-leaf-declared-last": ("idf4(new LeafLast())", "idf4(new ImplLast())"),
    "new-static-class": ("idf3(new Stat())", "idf2(new Priv())"),
    "new-private-ctor": ("idf2(new Priv(1))", "idf2(new Priv())"),
    "null-to-int-argument": ("idf(null)", "idf(1)"),
    "wrong-arity": ("idf(1, 2)", "idf(1)"),
    "undefined-function": ("nofn(1)", "idf(1)"),
    "unknown-member": ("po.nothing", "po.pub"),
    "int-from-string": ("idf(\"s\")", "idf(1)"),
}
EXTRA_FUNCS = "function idf2(Priv p) -> int { return 1; }\nfunction idf3(Stat p) -> int { return 1; }\n"
LOCALS = "int ok = 1; final int fin = 1; int[3] arr; Priv po = new Priv(); "
TAIL = " int later = 1;"

# positions: templates with {E}; all yield a well-typed statement when {E} is an int expression
EXPR_POSITIONS = {
    "statement": "idf({E});",
    "expression-statement": "{E};",
    "operand-left": "ok = {E} + 1;",
    "operand-right": "ok = 1 * {E};",
    "unary-operand": "ok = -{E};",
    "call-argument": "ok = idf({E});",
    "nested-call-argument": "ok = idf(idf({E}));",
    "index": "ok = arr[{E}];",
    "index-write": "arr[{E}] = 1;",
    "array-element-value": "arr[0] = {E};",
    "array-literal-element": "int[] lit = {{1, {E}}};",
    "initialiser": "int z = {E};",
    "if-condition": "if ({E} == 1) {{ ok = 2; }}",
    "while-condition": "while ({E} == 7) {{ ok = 2; }}",
    "for-condition": "for (int i = 0; i < {E}; i = i + 1) {{ }}",
    "for-init": "for (int i = {E}; i < 1; i = i + 1) {{ }}",
    "for-update": "for (int i = 0; i < 1; i = i + {E}) {{ }}",
    "for-update-whole": "for (int i = 0; i < 1; {E}) {{ i = i + 1; }}",
    "ternary-condition": "{E} == 1 ? echo(1); : echo(2);",
    "ternary-branch": "ok == 1 ? echo({E}); : echo(2);",
    "echo": "echo({E});",
    "cast-operand": "ok = (int) {E};",
    "parenthesised": "ok = ({E});",
    "comparison": "boolean cmp = {E} < 2;",
    "nested-block": "{{ {{ ok = {E}; }} }}",
    "if-body": "if (ok == 1) {{ ok = {E}; }} else {{ ok = 3; }}",
    "else-body": "if (ok == 1) {{ ok = 3; }} else {{ ok = {E}; }}",
    "while-body": "while (ok == 7) {{ ok = {E}; }}",
    "for-body": "for (int i = 0; i < 1; i = i + 1) {{ ok = {E}; }}",
    "member-assign-value": "po.pub = {E};",
    "method-argument": "ok = po.open() + idf({E});",
    "new-argument": "Box bx = new Box({E});",
}
BOX = "class Box { public int v; public constructor(int x) -> Box { this.v = x; } }\n"


def body_contexts():
    """context name -> function(stmt_text, uses_return) -> program"""
    def main_ctx(stmt):
        return SUPPORT + EXTRA_FUNCS + BOX + "function main() -> void { " + LOCALS + stmt + TAIL + " }\n"

    def func_ctx(stmt):
        return SUPPORT + EXTRA_FUNCS + BOX + "function work(int ok) -> int { final int fin = 1; int[3] arr; Priv po = new Priv(); " + stmt + TAIL + " return ok; }\nfunction main() -> void { echo(work(1)); }\n"

    def method_ctx(stmt):
        return SUPPORT + EXTRA_FUNCS + BOX + "class Ctx { public int fld = 1; public constructor() -> Ctx = default; public function m(int ok) -> int { final int fin = 1; int[3] arr; Priv po = new Priv(); " + stmt + TAIL + " return ok; } }\nfunction main() -> void { Ctx c = new Ctx(); echo(c.m(1)); }\n"

    def ctor_ctx(stmt):
        return SUPPORT + EXTRA_FUNCS + BOX + "class Ctx { public int fld = 1; public constructor(int ok) -> Ctx { final int fin = 1; int[3] arr; Priv po = new Priv(); " + stmt + TAIL + " } }\nfunction main() -> void { Ctx c = new Ctx(1); }\n"

    def dtor_ctx(stmt):
        return SUPPORT + EXTRA_FUNCS + BOX + "class Ctx { public int fld = 1; public constructor() -> Ctx = default; public destructor() -> void { int ok = 1; final int fin = 1; int[3] arr; Priv po = new Priv(); " + stmt + TAIL + " } }\nfunction main() -> void { Ctx c = new Ctx(); }\n"

    def static_ctx(stmt):
        return SUPPORT + EXTRA_FUNCS + BOX + "class Ctx { public constructor() -> Ctx = default; public static function sm(int ok) -> int { final int fin = 1; int[3] arr; Priv po = new Priv(); " + stmt + TAIL + " return ok; } }\nfunction main() -> void { echo(Ctx.sm(1)); }\n"

    def quantum_ctx(stmt):
        return SUPPORT + EXTRA_FUNCS + BOX + "@quantum function qf(qubit q) -> void { int ok = 1; final int fin = 1; int[3] arr; Priv po = new Priv(); " + stmt + TAIL + " }\nfunction main() -> void { qubit q; qf(q); }\n"
    return {"main": main_ctx, "function": func_ctx, "method": method_ctx, "constructor": ctor_ctx, "destructor": dtor_ctx, "static-method": static_ctx, "quantum-function": quantum_ctx}


def expr_cells(tier):
    ctxs = body_contexts()
    for rule, (bad, good) in EXPR_RULES.items():
        for pos, tmpl in EXPR_POSITIONS.items():
            for cname, ctx in ctxs.items():
                if False and tier != "thorough" and cname not in ("main", "method") and pos not in ("initialiser", "call-argument", "if-condition", "for-update"):   # round 9: the full matrix is cheap enough for the quick tier
                    continue
                if rule == "void-call-as-operand" and pos in ("expression-statement", "for-update-whole"):
                    continue   # calling a void function as a statement is legal
                if rule in ("assign-to-final-local", "assign-final-field-outside-ctor") and pos not in ("expression-statement", "for-update-whole", "nested-block", "if-body", "else-body", "while-body", "for-body", "parenthesised", "initialiser", "call-argument", "echo"):
                    continue   # the value of an assignment expression as an arithmetic operand is not documented
                yield ("expr:%s:%s:%s" % (rule, pos, cname), ctx(tmpl.format(E=bad)), False)
                yield ("expr:%s:%s:%s:twin" % (rule, pos, cname), ctx(tmpl.format(E=good)), True)
    # field initialiser positions (expression only, class scope)
    for rule, (bad, good) in EXPR_RULES.items():
        if rule in ("use-before-declaration", "assign-to-final-local", "increment-final-local") or rule.startswith("read-index"):
            continue
        for static in ("", "static "):
            def fi(e):
                return SUPPORT + EXTRA_FUNCS + BOX + "static class G { public static int ok = 1; public static Priv po = new Priv(); }\nclass Ctx { public %sint f = %s; public constructor() -> Ctx = default; }\nfunction main() -> void { Ctx c = new Ctx(); }\n" % (
                    static, e.replace("po.", "G.po.").replace("ok", "G.ok"))
            yield ("expr:%s:field-initialiser:%s" % (rule, static or "instance"), fi(bad), False)
            yield ("expr:%s:field-initialiser:%s:twin" % (rule, static or "instance"), fi(good), True)


# statement-level rules: (violating statement(s), repaired statement(s))
STMT_RULES = {
    "redeclaration-same-scope": ("int dup = 1; int dup = 2;", "int dup = 1; int dup2 = 2;"),
    "redeclaration-inner-scope": ("int dup = 1; { int dup = 2; }", "int dup = 1; { int dup2 = 2; }"),
    "redeclare-loop-variable": ("for (int i = 0; i < 1; i = i + 1) { int i = 5; }", "for (int i = 0; i < 1; i = i + 1) { int j = 5; }"),
    "assign-final-statement": ("fin = 3;", "ok = 3;"),
    "final-without-initialiser": ("final int nf;", "final int nf = 1;"),
    "void-variable": ("void vv;", "int vv;"),
    "assign-void-result": ("ok = vf();", "ok = idf(1);"),
    "initialise-with-void": ("int fromv = vf();", "int fromv = idf(1);"),
    "pass-void-result": ("ok = idf(vf());", "ok = idf(idf(1));"),
    "echo-void": ("echo(vf());", "echo(idf(1));"),
    "null-to-primitive": ("int np = null;", "int np = 0;"),
    "null-to-array": ("int[] na = null;", "int[] na = {1};"),
    "null-assign-primitive": ("ok = null;", "ok = 0;"),
    "postfix-on-float": ("float pf = 1.0f; pf++;", "float pf = 1.0f; ok++;"),
    "int-condition": ("if (ok) { }", "if (ok == 1) { }"),
    "destroy-primitive": ("destroy ok;", "destroy po;"),
    "gate-on-int": ("h(ok);", "ok = 2;"),
    "rx-int-angle": ("qubit gq; rx(gq, 1);", "qubit gq; rx(gq, 1.0f);"),
    "measure-int": ("measure ok;", "qubit mq; measure mq;"),
    "reset-int": ("reset ok;", "qubit rq; reset rq;"),
    "multi-declare-int": ("int ma, mb;", "qubit ma, mb;"),
    # hunt C06/d4: array and object operands of reset / measure
    "reset-qubit-array": ("qubit[2] rr; reset rr;", "qubit[2] rr; reset rr[0];"),
    "measure-expression-qubit-array": ("qubit[2] rr; bit mb = measure rr;", "qubit[2] rr; bit mb = measure rr[0];"),
    "measure-int-array": ("measure arr;", "qubit[2] mr; measure mr;"),
    "reset-int-array": ("reset arr;", "qubit rq2; reset rq2;"),
    "reset-object": ("reset po;", "qubit rq3; reset rq3;"),
    "measure-expression-object": ("bit mo = measure po;", "qubit mq3; bit mo = measure mq3;"),
    "self-reference-in-initialiser": ("int selfr = selfr + 1;", "int selfr = ok + 1;"),
    "self-reference-in-final-initialiser": ("final int selff = selff + 1;", "final int selff = ok + 1;"),
    "self-reference-class-initialiser": ("Priv selfo = selfo;", "Priv selfo = po;"),
    "void-in-string-concatenation": ("string vs = \"a\" + vf();", "string vs = \"a\" + idf(1);"),
    "void-in-string-concatenation-left": ("echo(vf() + \"a\");", "echo(idf(1) + \"a\");"),
    "null-in-int-array-literal": ("int[] nl = {null};", "int[] nl = {1};"),
    "null-in-float-array-literal": ("float[] nlf = {1.0f, null};", "float[] nlf = {1.0f, 2.0f};"),
    "int-in-string-array-literal": ("string[] sl = {1, 2};", "string[] sl = {\"1\", \"2\"};"),
    "string-in-char-array-literal": ("char[] cl = {\"x\"};", "char[] cl = {'x'};"),
    "string-in-int-array-literal": ("int[] il = {1, \"two\"};", "int[] il = {1, 2};"),
    "object-into-int-array-element": ("arr[0] = new Priv();", "arr[0] = 4;"),
    "array-into-int-array-element": ("int[] other = {1}; arr[1] = other;", "int[] other = {1}; arr[1] = other[0];"),
    "string-into-int-array-element": ("arr[2] = \"s\";", "arr[2] = 2;"),
    # an assignment used as a value has the type of the slot it assigns to (hunt C07/d7, former open finding)
    "assignment-expression-float-into-int": ("float ay = 0.0f; int az = (ay = 2.5f);", "float ay = 0.0f; float az = (ay = 2.5f);"),
    "element-assignment-expression-into-string": ("string es = (arr[0] = 1);", "int es = (arr[0] = 1);"),
    "member-assignment-expression-into-string": ("string ms = (po.pub = 1);", "int ms = (po.pub = 1);"),
    "assignment-expression-to-final-as-operand": ("arr[0] = (fin = 4) + 1;", "arr[0] = (ok = 4) + 1;"),
    # a declaration inside a '? :' branch ends with the branch (hunt C09/d6)
    "ternary-then-declaration-used-after": ("(ok == 1) ? int tv = 1; : echo(0); ok = tv;", "int tv = 0; (ok == 1) ? tv = 1; : echo(0); ok = tv;"),
    "ternary-else-declaration-used-after": ("(ok == 1) ? echo(0); : int tv = 1; ok = tv;", "int tv = 0; (ok == 1) ? echo(0); : tv = 1; ok = tv;"),
    "ternary-branch-redeclares-outer": ("int dup = 1; (ok == 1) ? int dup = 2; : echo(0);", "int dup = 1; (ok == 1) ? int dup2 = 2; : echo(0);"),
    "ternary-branch-second-declarator-used-after": ("(ok == 1) ? qubit ta, tb; : echo(0); h(tb);", "(ok == 1) ? qubit ta, tb; : echo(0); qubit tb2; h(tb2);"),
    "ternary-else-second-declarator-used-after": ("(ok == 1) ? echo(0); : qubit ta, tb, tc; h(tc);", "(ok == 1) ? echo(0); : qubit ta, tb, tc; qubit tc2; h(tc2);"),
    "ternary-both-branches-declare-same-name": ("(ok == 1) ? int tb = 1; : int tb = 2; ok = tb;", "(ok == 1) ? int tb = 1; : int tb = 2; ok = 1;"),
}
STMT_WRAPS = {
    "plain": "{S}",
    "nested-block": "{{ {{ {S} }} }}",
    "if-body": "if (ok == 1) {{ {S} }}",
    "else-body": "if (ok == 2) {{ }} else {{ {S} }}",
    "while-body": "while (ok == 7) {{ {S} }}",
    "for-body": "for (int k = 0; k < 1; k = k + 1) {{ {S} }}",
    "ternary-then": "(ok == 1) ? {{ {S} }} : {{ }}",
    "ternary-else": "(ok == 1) ? {{ }} : {{ {S} }}",
}


def stmt_cells(tier):
    ctxs = body_contexts()
    for rule, (bad, good) in STMT_RULES.items():
        for wname, wrap in STMT_WRAPS.items():
            for cname, ctx in ctxs.items():
                if False and tier != "thorough" and cname not in ("main", "method", "constructor") and wname != "plain":
                    continue
                if cname == "quantum-function" and ("qubit" in bad or "qubit" in good):
                    continue
                yield ("stmt:%s:%s:%s" % (rule, wname, cname), ctx(wrap.format(S=bad)), False)
                yield ("stmt:%s:%s:%s:twin" % (rule, wname, cname), ctx(wrap.format(S=good)), True)


def decl_cells():
    """declaration-level rules: each (violating program, repaired program)"""
    S = SUPPORT
    pairs = {
        "super-call-of-bodyless-method": ("abstract class Fa { public constructor() -> Fa = default; public virtual function g() -> int; }\nclass Ha extends Fa { public constructor() -> Ha { super(); } public override function g() -> int { return super.g() + 1; } }",
                                          "abstract class Fa { public constructor() -> Fa = default; public virtual function g() -> int { return 1; } }\nclass Ha extends Fa { public constructor() -> Ha { super(); } public override function g() -> int { return super.g() + 1; } }"),
        "return-value-in-void-function": ("function v() -> void { return 1; }", "function v() -> void { return; }"),
        "bare-return-in-int-function": ("function v() -> int { return; }", "function v() -> int { return 1; }"),
        # cells that the unchanged tree gets wrong and that are recorded as open known findings (known_findings.jsonl)
        "class-name-used-as-instance": ("function v() -> void { Priv kf = Priv; }", "function v() -> void { Priv kf = new Priv(); }"),
        "final-field-assigned-again-after-top-level-return": ("class M { public final int f; public constructor() -> M { this.f = 1; return this; this.f = 2; } }", "class M { public final int f; public constructor() -> M { this.f = 1; return this; } }"),
        "final-field-skipped-by-early-return": ("class M { public final int f; public constructor(boolean c) -> M { if (c) { return this; } this.f = 1; } }", "class M { public final int f; public constructor(boolean c) -> M { this.f = 1; if (c) { return this; } } }"),
        "assignment-expression-of-int-into-string": ("function v() -> void { int n = 0; string s5 = (n = 5); }", "function v() -> void { int n = 0; int s5 = (n = 5); }"),
        "missing-return-in-method": ("class M { public constructor() -> M = default; public function v() -> int { int a = 1; } }", "class M { public constructor() -> M = default; public function v() -> int { int a = 1; return a; } }"),
        "missing-return-in-static-method": ("class M { public constructor() -> M = default; public static function v() -> string { echo(1); } }", "class M { public constructor() -> M = default; public static function v() -> string { echo(1); return \"s\"; } }"),
        "return-value-in-destructor": ("class M { public constructor() -> M = default; public destructor() -> void { echo(1); return 5; } }", "class M { public constructor() -> M = default; public destructor() -> void { echo(1); return; } }"),
        "missing-return": ("function v() -> int { int a = 1; }", "function v() -> int { int a = 1; return a; }"),
        "return-value-in-void-method": ("class M { public constructor() -> M = default; public function v() -> void { return 1; } }", "class M { public constructor() -> M = default; public function v() -> void { return; } }"),
        "bare-return-in-int-method": ("class M { public constructor() -> M = default; public function v() -> int { return; } }", "class M { public constructor() -> M = default; public function v() -> int { return 1; } }"),
        "void-parameter-function": ("function v(void p) -> void { }", "function v(int p) -> void { }"),
        "void-parameter-method": ("class M { public constructor() -> M = default; public function v(void p) -> void { } }", "class M { public constructor() -> M = default; public function v(int p) -> void { } }"),
        "void-parameter-constructor": ("class M { public constructor(void p) -> M { } }", "class M { public constructor(int p) -> M { } }"),
        "void-field": ("class M { public void f; public constructor() -> M = default; }", "class M { public int f; public constructor() -> M = default; }"),
        "duplicate-parameter": ("function v(int a, int a) -> void { }", "function v(int a, int b) -> void { }"),
        "parameter-redeclared": ("function v(int a) -> void { int a = 2; }", "function v(int a) -> void { int b = 2; }"),
        "duplicate-function": ("function v() -> void { } function v() -> void { }", "function v() -> void { } function v2() -> void { }"),
        "duplicate-class": ("class M { public constructor() -> M = default; } class M { public constructor() -> M = default; }", "class M { public constructor() -> M = default; } class M2 { public constructor() -> M2 = default; }"),
        "quantum-returns-int": ("@quantum function v() -> int { return 1; }", "@quantum function v() -> bit { return 1b; }"),
        "quantum-returns-float": ("@quantum function v() -> float { return 1.0f; }", "@quantum function v() -> void { }"),
        "quantum-method-returns-int": ("class M { public constructor() -> M = default; @quantum public function v() -> int { return 1; } }", "class M { public constructor() -> M = default; @quantum public function v() -> bit { return 1b; } }"),
        "shots-on-other-function": ("@shots(2) function v() -> void { }", "function v() -> void { }"),
        "quantum-on-main": (None, None),
        "this-in-static-method": ("class M { public int f; public constructor() -> M = default; public static function v() -> int { return this.f; } }", "class M { public int f; public constructor() -> M = default; public function v() -> int { return this.f; } }"),
        "super-in-static-method": ("class M extends Priv { public constructor() -> M { super(); } public static function v() -> int { return super.open(); } }", "class M extends Priv { public constructor() -> M { super(); } public function v() -> int { return super.open(); } }"),
        "this-in-static-initialiser": ("class M { public int f = 1; public static int g = this.f; public constructor() -> M = default; }", "class M { public int f = 1; public int g = this.f; public constructor() -> M = default; }"),
        "this-in-free-function": ("function v() -> int { return this.f; }", "function v() -> int { return 1; }"),
        "instance-field-from-static": ("class M { public int f; public constructor() -> M = default; public static function v() -> int { return f; } }", "class M { public static int f; public constructor() -> M = default; public static function v() -> int { return f; } }"),
        "final-field-assigned-outside-ctor": ("class M { public final int f; public constructor() -> M { this.f = 1; } public function v() -> void { this.f = 2; } }", "class M { public int f; public constructor() -> M { this.f = 1; } public function v() -> void { this.f = 2; } }"),
        "final-field-assigned-outside-ctor-bare": ("class M { public final int f; public constructor() -> M { this.f = 1; } public function v() -> void { f = 2; } }", "class M { public int f; public constructor() -> M { this.f = 1; } public function v() -> void { f = 2; } }"),
        "final-field-assigned-twice": ("class M { public final int f; public constructor() -> M { this.f = 1; this.f = 2; } }", "class M { public final int f; public constructor() -> M { this.f = 1; } }"),
        "final-field-assigned-twice-mixed": ("class M { public final int f; public constructor() -> M { this.f = 1; f = 2; } }", "class M { public final int f; public constructor() -> M { f = 1; } }"),
        "final-field-never-assigned": ("class M { public final int f; public constructor() -> M { } }", "class M { public final int f; public constructor() -> M { this.f = 1; } }"),
        "final-field-missing-in-one-ctor": ("class M { public final int f; public constructor() -> M { this.f = 1; } public constructor(int a) -> M { } }", "class M { public final int f; public constructor() -> M { this.f = 1; } public constructor(int a) -> M { this.f = a; } }"),
        "final-field-assigned-nested-if": ("class M { public final int f; public constructor(boolean c) -> M { if (c) { this.f = 1; } } }", "class M { public final int f; public constructor(boolean c) -> M { this.f = 1; } }"),
        "final-field-assigned-nested-loop": ("class M { public final int f; public constructor() -> M { for (int i = 0; i < 1; i = i + 1) { this.f = 1; } } }", "class M { public final int f; public constructor() -> M { this.f = 1; } }"),
        "final-field-assigned-nested-block": ("class M { public final int f; public constructor() -> M { { this.f = 1; } } }", "class M { public final int f; public constructor() -> M { this.f = 1; } }"),
        "final-field-assigned-in-ternary-branch": ("class M { public final int f; public final int g; public constructor(boolean c) -> M { c ? this.f = 1; : this.g = 1; } }", "class M { public final int f; public final int g; public constructor(boolean c) -> M { this.f = 1; this.g = 1; } }"),
        "final-field-with-initialiser-reassigned": ("class M { public final int f = 1; public constructor() -> M { this.f = 2; } }", "class M { public final int f = 1; public constructor() -> M { } }"),
        "inherited-final-field-assigned": ("class P2 { public final int f; public constructor() -> P2 { this.f = 1; } } class M extends P2 { public constructor() -> M { super(); this.f = 2; } }",
                                           "class P2 { public int f; public constructor() -> P2 { this.f = 1; } } class M extends P2 { public constructor() -> M { super(); this.f = 2; } }"),
        "final-static-without-initialiser": ("class M { public static final int f; public constructor() -> M = default; }", "class M { public static final int f = 1; public constructor() -> M = default; }"),
        "final-static-assigned": ("class M { public static final int f = 1; public constructor() -> M { M.f = 2; } }", "class M { public static int f = 1; public constructor() -> M { M.f = 2; } }"),
        "private-field-from-subclass": ("class M extends Priv { public constructor() -> M { super(); } public function v() -> int { return this.secret; } }", "class M extends Priv { public constructor() -> M { super(); } public function v() -> int { return this.prot; } }"),
        "private-field-from-subclass-bare": ("class M extends Priv { public constructor() -> M { super(); } public function v() -> int { return secret; } }", "class M extends Priv { public constructor() -> M { super(); } public function v() -> int { return prot; } }"),
        "private-method-from-subclass": ("class M extends Priv { public constructor() -> M { super(); } public function v() -> int { return this.hid(); } }", "class M extends Priv { public constructor() -> M { super(); } public function v() -> int { return this.ph(); } }"),
        "private-method-from-subclass-bare": ("class M extends Priv { public constructor() -> M { super(); } public function v() -> int { return hid(); } }", "class M extends Priv { public constructor() -> M { super(); } public function v() -> int { return ph(); } }"),
        "private-method-via-super": ("class M extends Priv { public constructor() -> M { super(); } public function v() -> int { return super.hid(); } }", "class M extends Priv { public constructor() -> M { super(); } public function v() -> int { return super.ph(); } }"),
        "private-field-write-from-subclass": ("class M extends Priv { public constructor() -> M { super(); } public function v() -> void { this.secret = 4; } }", "class M extends Priv { public constructor() -> M { super(); } public function v() -> void { this.prot = 4; } }"),
        "private-ctor-via-super": ("class M extends Priv { public constructor() -> M { super(1); } }", "class M extends Priv { public constructor() -> M { super(); } }"),
        "protected-field-from-unrelated-class": ("class M { public constructor() -> M = default; public function v(Priv p) -> int { return p.prot; } }", "class M { public constructor() -> M = default; public function v(Priv p) -> int { return p.pub; } }"),
        "protected-method-from-unrelated-class": ("class M { public constructor() -> M = default; public function v(Priv p) -> int { return p.ph(); } }", "class M { public constructor() -> M = default; public function v(Priv p) -> int { return p.open(); } }"),
        "private-field-write-from-unrelated-class": ("class M { public constructor() -> M = default; public function v(Priv p) -> void { p.secret = 1; } }", "class M { public constructor() -> M = default; public function v(Priv p) -> void { p.pub = 1; } }"),
        "private-field-same-class-other-instance": (None, None),
        "destroy-private-field-from-outside": ("class Own { private Priv inner = null; public Priv shown = null; public constructor() -> Own = default; } function v(Own o) -> void { destroy o.inner; }", "class Own { private Priv inner = null; public Priv shown = null; public constructor() -> Own = default; } function v(Own o) -> void { destroy o.shown; }"),
        "override-without-virtual-base": ("class P2 { public constructor() -> P2 = default; public function v() -> int { return 1; } } class M extends P2 { public constructor() -> M { super(); } public override function v() -> int { return 2; } }",
                                          "class P2 { public constructor() -> P2 = default; public virtual function v() -> int { return 1; } } class M extends P2 { public constructor() -> M { super(); } public override function v() -> int { return 2; } }"),
        "class-without-constructor": ("class M { public int f; }", "class M { public int f; public constructor() -> M = default; }"),
        "extends-unknown": ("class M extends Nowhere { public constructor() -> M { super(); } }", "class M extends Priv { public constructor() -> M { super(); } }"),
        "inheritance-cycle": ("class M extends M2 { public constructor() -> M { super(); } } class M2 extends M { public constructor() -> M2 { super(); } }", "class M extends M2 { public constructor() -> M { super(); } } class M2 { public constructor() -> M2 = default; }"),
        "missing-super-ctor": ("class P2 { public constructor(int a) -> P2 { } } class M extends P2 { public constructor() -> M { } }", "class P2 { public constructor(int a) -> P2 { } } class M extends P2 { public constructor() -> M { super(1); } }"),
        "super-not-first": ("class P2 { public constructor(int a) -> P2 { } } class M extends P2 { public constructor() -> M { int z = 1; super(z); } }", "class P2 { public constructor(int a) -> P2 { } } class M extends P2 { public constructor() -> M { super(1); int z = 1; } }"),
        "static-class-instance-field": ("static class M { public int f; }", "static class M { public static int f; }"),
        "ambiguous-overload": ("class M { public constructor() -> M = default; public function f(long a, int b) -> int { return 1; } public function f(int a, long b) -> int { return 2; } public function v() -> int { return this.f(1, 1); } }",
                               "class M { public constructor() -> M = default; public function f(long a, int b) -> int { return 1; } public function f(int a, long b) -> int { return 2; } public function v() -> int { return this.f(1L, 1); } }"),
        "duplicate-overload": ("class M { public constructor() -> M = default; public function f(int a) -> int { return 1; } public function f(int b) -> int { return 2; } }", "class M { public constructor() -> M = default; public function f(int a) -> int { return 1; } public function f(long b) -> int { return 2; } }"),
    }
    for name, (bad, good) in pairs.items():
        if bad is None:
            continue
        yield ("decl:" + name, S + bad + "\nfunction main() -> void { }\n", False)
        yield ("decl:" + name + ":twin", S + good + "\nfunction main() -> void { }\n", True)
    yield ("decl:return-array-literal:twin", S + "function v() -> int[] { return {1, 2}; }\nfunction main() -> void { }\n", True)
    yield ("decl:quantum-on-main", S + "@quantum function main() -> void { }\n", False)
    yield ("decl:shots-on-main:twin", S + "@shots(2) function main() -> void { }\n", True)
    yield ("decl:private-field-same-class-other-instance:twin", S + "class M { private int s = 1; public constructor() -> M = default; public function v(M o) -> int { return o.s + this.s; } }\nfunction main() -> void { }\n", True)


# ---------------------------------------------------------------------------------------------------------------------------
# part 4: the compatibility relation through generic inheritance ('an instance of a subclass of the expected class' when the classes
# are generic: the subclass relation carries the type arguments through every 'extends Base<...>' clause; inherited members have the
# argument's type)
# ---------------------------------------------------------------------------------------------------------------------------
GENERIC_SUPPORT = """class G0<T> { public T item; public constructor(T x) -> G0<T> { this.item = x; } public virtual function f() -> string { return "G0"; } public function put(T v) -> void { this.item = v; } public function get() -> T { return this.item; } }
class G1<T> extends G0<T> { public constructor(T x) -> G1<T> { super(x); } public override function f() -> string { return "G1"; } }
class P<A, B> extends G0<B> { public A first; public constructor(A a, B b) -> P<A, B> { super(b); this.first = a; } public function swapin(B nb) -> B { B old = item; item = nb; this.put(nb); return old; } }
class U<T> { public constructor() -> U<T> { } }
class H extends G0<int> { public constructor() -> H { super(1); } public function bump() -> int { item = item + 1; this.put(get() + 1); return this.item; } }
class HS extends G1<string> { public constructor() -> HS { super("h"); } }
function take(G0<int> g) -> string { return g.f(); }
function mkH() -> G0<int> { return new H(); }
"""


def generic_cells():
    main_cases = {   # body of main -> accepted?
        "init:G0<int><-H": ("G0<int> a = new H();", True),
        "init:G0<int><-G1<int>": ("G0<int> a = new G1<int>(7);", True),
        "init:G0<int><-P<string,int>": ("G0<int> a = new P<string, int>(\"a\", 1);", True),
        "init:G0<string><-HS": ("G0<string> a = new HS();", True),
        "init:G1<string><-HS": ("G1<string> a = new HS();", True),
        "assign:G0<int><-H": ("G0<int> a = new G0<int>(1); a = new H();", True),
        "arg:G0<int><-H": ("echo(take(new H()));", True),
        "arg:G0<int><-G1<int>": ("echo(take(new G1<int>(2)));", True),
        "arg:G0<int><-P<float,int>": ("echo(take(new P<float, int>(1.5f, 2)));", True),
        "return:G0<int><-H": ("G0<int> a = mkH(); echo(a.f());", True),
        "init:G0<float><-G1<int>": ("G0<float> a = new G1<int>(1);", False),
        "init:G0<int><-U<int>": ("G0<int> a = new U<int>();", False),
        "init:G0<string><-P<string,int>": ("G0<string> a = new P<string, int>(\"a\", 1);", False),
        "init:G0<int><-HS": ("G0<int> a = new HS();", False),
        "init:G1<int><-G0<int>": ("G1<int> a = new G0<int>(1);", False),
        "arg:G0<int><-P<int,float>": ("echo(take(new P<int, float>(1, 2.5f)));", False),
        "arg:G0<int><-HS": ("echo(take(new HS()));", False),
        "member:H.item<-int": ("H h = new H(); h.item = 4; int k = h.item; echo(k);", True),
        "member:H.put(int)": ("H h = new H(); h.put(3); echo(h.bump());", True),
        "member:int<-H.get()": ("H h = new H(); int k = h.get() + 1; echo(k);", True),
        "member:P.item<-int": ("P<string, int> p = new P<string, int>(\"a\", 1); p.item = 2; int k = p.get(); string s = p.first; echo(p.swapin(7));", True),
        "member:H.item<-string": ("H h = new H(); h.item = \"s\";", False),
        "member:H.put(string)": ("H h = new H(); h.put(\"s\");", False),
        "member:string<-H.get()": ("H h = new H(); string s = h.get();", False),
        "member:P.item<-string": ("P<string, int> p = new P<string, int>(\"a\", 1); p.item = \"x\";", False),
        "member:string<-P.get()": ("P<string, int> p = new P<string, int>(\"a\", 1); string s = p.get();", False),
        "member:P.put(string)": ("P<string, int> p = new P<string, int>(\"a\", 1); p.put(\"no\");", False),
    }
    for name, (body, ok) in main_cases.items():
        yield ("generic:" + name, GENERIC_SUPPORT + "function main() -> void { " + body + " }\n", ok)
    decl_cases = {
        "super(int)->G0<int>": ("class X extends G0<int> { public constructor() -> X { super(1); } }", True),
        "super(string)->G0<int>": ("class X extends G0<int> { public constructor() -> X { super(\"s\"); } }", False),
        "super(B)->G0<B>": ("class X<A, B> extends G0<B> { public constructor(A a, B b) -> X<A, B> { super(b); } }", True),
        "super(A)->G0<B>": ("class X<A, B> extends G0<B> { public constructor(A a, B b) -> X<A, B> { super(a); } }", False),
        "this.item<-B in X<A,B> extends G0<B>": ("class X<A, B> extends G0<B> { public constructor(A a, B b) -> X<A, B> { super(b); this.item = b; } }", True),
        "this.item<-A in X<A,B> extends G0<B>": ("class X<A, B> extends G0<B> { public constructor(A a, B b) -> X<A, B> { super(b); this.item = a; } }", False),
        "item<-int in X extends G0<int>": ("class X extends G0<int> { public constructor() -> X { super(1); item = 2; } }", True),
        "item<-string in X extends G0<int>": ("class X extends G0<int> { public constructor() -> X { super(1); item = \"s\"; } }", False),
        "return get() as int in X extends G1<int>": ("class X extends G1<int> { public constructor() -> X { super(1); } public function g() -> int { return get() + this.get(); } }", True),
        "return get() as string in X extends G1<int>": ("class X extends G1<int> { public constructor() -> X { super(1); } public function g() -> string { return this.get(); } }", False),
    }
    for name, (decl, ok) in decl_cases.items():
        yield ("generic:decl:" + name, GENERIC_SUPPORT + decl + "\nfunction main() -> void { }\n", ok)


def final_field_position_cells():
    """'final fields: exactly once per constructor, top level only' - the single assignment of a final field written in every position of a
    constructor body that is NOT a top-level statement (bodies, nested blocks, and the headers of for/if/while); the twin assigns the field
    at top level and puts an assignment to an ordinary field in the same position"""
    # not demanded: an assignment expression evaluated once, unconditionally, inside a top-level statement ('int z = (this.f = 2);') is at
    # the top level in every sense the rule can mean; assignment expressions as operands of comparisons are undocumented
    positions = {k: v for k, v in EXPR_POSITIONS.items() if k in ("nested-block", "if-body", "else-body", "while-body", "for-body", "for-update-whole", "for-init")}
    positions["for-init-whole"] = "for ({E}; ok < 1; ok = ok + 1) {{ }}"
    positions["if-condition-via-call"] = "if (idf({E}) == 1) {{ ok = 2; }}"
    positions["while-condition-via-call"] = "while (idf({E}) == 7) {{ ok = 2; }}"
    positions["ternary-branch-statement"] = "ok == 1 ? {E}; : echo(2);"
    for pos, tmpl in positions.items():
        for how in ("this.", ""):
            def ctor(body):
                return SUPPORT + EXTRA_FUNCS + BOX + "class M { public final int f; public int g; public constructor() -> M { int ok = 1; int[3] arr; Priv po = new Priv(); " + body + " } }\nfunction main() -> void { M m = new M(); }\n"
            bad = tmpl.format(E="(%sf = 2)" % how) if pos not in ("for-init-whole", "for-update-whole", "ternary-branch-statement") else tmpl.format(E="%sf = 2" % how)
            good = "this.f = 1; " + (tmpl.format(E="(%sg = 2)" % how) if pos not in ("for-init-whole", "for-update-whole", "ternary-branch-statement") else tmpl.format(E="%sg = 2" % how))
            yield ("finalpos:%s:%s" % (pos, how or "bare"), ctor(bad), False)
            yield ("finalpos:%s:%s:twin" % (pos, how or "bare"), ctor(good), True)


def _one(item):
    name, src, should_accept = item
    r = vdrv.run_job({"id": "a", "kind": "parse", "opts": {"analyse": 1}, "blobs": {"src": src}})
    if r.crash or r.rec is None:
        return name, src, "front end died: %s %s" % (r.crash, r["fd2"][:300]), None
    st = r.rec.get("status")
    msg = r.rec.get("msg", "")
    if should_accept:
        if st != "ok":
            return name, src, "a program that respects the rules is rejected: %s: %s" % (st, msg), st
    else:
        if st == "ok":
            return name, src, "a program that violates the rule is accepted by the analyser", st
        if st == "parse" and not name.startswith(("stmt:void-variable", "stmt:multi-declare", "decl:void-", "stmt:final-without", "decl:shots-on-other", "decl:static-class-instance-field")):
            return name, src, "rejected, but as a Parse error although the documented grammar admits the program: %s" % msg, st
        if st not in ("semantic", "parse"):
            return name, src, "rejected with category %s instead of Semantic: %s" % (st, msg), st
    return name, src, None, st


def main(tier):
    ck = vcheck.Check("C16", "exploration", tier)
    cells = list(compat_cells()) + list(expr_cells(tier)) + list(stmt_cells(tier)) + list(decl_cells()) + list(generic_cells()) + list(final_field_position_cells())
    n = 0
    outcomes = {}
    for name, src, prob, st in vdrv.pmap(_one, cells, chunksize=32):
        n += 1
        outcomes[st] = outcomes.get(st, 0) + 1
        if prob:
            parts = name.split(":")
            if parts[0] == "compat":
                key = "compat:%s:%s" % (parts[1], parts[2])
            elif parts[0] == "generic":
                key = name
            else:
                key = ":".join(parts[:2]) + (":twin" if name.endswith(":twin") else "") + ":" + ("accepted" if "accepted" in prob else "rejected")
            ck.violation(key, "%s\ncell: %s\nprogram:\n%s" % (prob, name, src), {"tool": "vdrv", "job": {"kind": "parse", "opts": {"analyse": 1}, "blobs": {"src": src}}})
        if n % 1511 == 1:
            ck.sample({"cell": name, "program": src[-500:]})
    ck.assumptions += ["only the verdict (accepted / Semantic) is compared, never the message or position",
                       "cells whose violating program the documented grammar itself excludes (void variables, multi-declared ints, final without type...) accept a Parse rejection"]
    fams = set(":".join(c[0].split(":")[:2]) for c in cells)
    ck.finish({"evaluations": n, "distinct_nontrivial": len(fams), "rule": "every cell of the rule x position x context matrix (violating program and repaired twin); distinct = distinct (kind, rule or sink) families",
               "cells": len(cells), "verdicts": outcomes})
