"""C14 - the parser realises the documented grammar. Every syntax tree over the documented constructs up to a size bound is
rendered with minimal and with full parentheses; both renderings must parse to exactly that tree (ParenthesizedExpression
erased, positions ignored)."""
import itertools, os, sys
import vcheck, vdrv
from astgen import *

A, B, C, Q = var("a"), var("b"), var("c"), var("q")
INT, FLT, BIT = ("prim", "int"), ("prim", "float"), ("prim", "bit")


def exprs(tier):
    out = []

    def add(tag, e):
        out.append((tag, e))
    ops = list(BINOPS)
    # E1: every ordered pair of binary operators in both nestings
    for o1 in ops:
        for o2 in ops:
            add("bin-left", N("bin", o1, N("bin", o2, A, B), C))
            add("bin-right", N("bin", o1, A, N("bin", o2, B, C)))
    # E2: unary x binary / unary / postfix
    for u in UNOPS:
        for o in ops:
            add("un-over-bin", N("un", u, N("bin", o, A, B)))
            add("un-left", N("bin", o, N("un", u, A), B))
            add("un-right", N("bin", o, A, N("un", u, B)))
        for u2 in UNOPS:
            add("un-un", N("un", u, N("un", u2, A)))
        for po in ("++", "--"):
            add("un-post", N("un", u, N("post", po, A)))
            add("post-un", N("post", po, N("un", u, A)))
        add("un-call", N("un", u, N("call", var("f"), [A])))
        add("call-un", N("call", N("un", u, var("f")), [A]))
        add("un-index", N("un", u, N("index", A, B)))
        add("index-un", N("index", N("un", u, A), B))
        add("un-member", N("un", u, N("member", A, "m")))
        add("member-un", N("member", N("un", u, A), "m"))
    # E3: casts
    for T in (INT, FLT, BIT):
        for o in ops:
            add("cast-left", N("bin", o, N("cast", T, A), B))
            add("cast-over-bin", N("cast", T, N("bin", o, A, B)))
            add("cast-right", N("bin", o, A, N("cast", T, B)))
        for u in UNOPS:
            add("cast-un", N("cast", T, N("un", u, A)))
            add("un-cast", N("un", u, N("cast", T, A)))
        add("cast-cast", N("cast", T, N("cast", INT, A)))
        add("cast-call", N("cast", T, N("call", var("f"), [A])))
        add("call-cast", N("call", N("cast", T, var("f")), [A]))
        add("cast-index", N("cast", T, N("index", A, B)))
        add("index-cast", N("index", N("cast", T, A), B))
        add("cast-member", N("cast", T, N("member", A, "m")))
        add("member-cast", N("member", N("cast", T, A), "m"))
        add("cast-post", N("cast", T, N("post", "++", A)))
        add("post-cast", N("post", "--", N("cast", T, A)))
        add("cast-lit", N("cast", T, lit("2.5f", "float")))
        add("cast-measure", N("cast", T, N("measure", Q)))
        add("cast-mcall", N("cast", T, N("call", N("member", A, "m"), [B])))
    # E4: postfix chains
    f = var("f")
    chains = [
        N("call", N("member", A, "m"), [B]), N("index", N("call", f, [A]), B), N("member", N("index", A, B), "m"),
        N("call", N("call", f, []), []), N("member", N("member", A, "m"), "n"), N("post", "++", N("index", A, B)),
        N("post", "--", N("member", A, "m")), N("index", N("index", A, B), C), N("call", N("index", A, B), [C]),
        N("member", N("call", f, [A, B]), "m"), N("call", N("member", N("call", N("member", A, "m"), []), "n"), [B]),
        N("member", N("new", ("named", ["K"], None), [A]), "m"), N("call", N("member", N("this"), "m"), []), N("member", N("this"), "x"),
        N("call", N("member", N("super"), "m"), [A]), N("call", N("super"), [A]), N("index", N("arr", [A, B]), C),
        N("post", "++", N("post", "++", A)), N("call", f, [N("call", f, [A]), N("index", B, C)]),
    ]
    for e in chains:
        add("chain", e)
        for o in ("+", "*", "==", "&&"):
            add("chain-in-bin", N("bin", o, e, A))
            add("chain-in-bin", N("bin", o, A, e))
    # E5: measure as an operand
    M = N("measure", Q)
    for o in ops:
        add("measure-left", N("bin", o, M, B))
        add("measure-right", N("bin", o, A, M))
        add("measure-of-bin", N("measure", N("bin", o, A, B)))
        add("measure-mid", N("bin", o, N("bin", "+", A, M), B))
    for u in UNOPS:
        add("un-measure", N("un", u, M))
    add("measure-arg", N("call", f, [M, A]))
    add("measure-index", N("index", A, M))
    add("measure-elem", N("measure", N("index", Q, A)))
    add("measure-member", N("measure", N("member", A, "q")))
    add("measure-measure", N("measure", M))
    add("measure-in-arr", N("arr", [M, A]))
    # E6: assignment expressions
    one = lit("1")
    add("assign", N("assign", "x", one))
    add("assign-chain", N("assign", "x", N("assign", "y", one)))
    add("massign", N("massign", A, "m", one))
    add("massign-this", N("massign", N("this"), "m", B))
    add("massign-chain", N("massign", N("member", A, "m"), "n", one))
    add("aassign", N("aassign", A, B, one))
    add("aassign-chain", N("aassign", A, B, N("assign", "x", one)))
    for o in ops:
        add("assign-rhs-bin", N("assign", "x", N("bin", o, A, B)))
        add("assign-in-bin-left", N("bin", o, N("assign", "x", one), B))
        add("assign-in-bin-right", N("bin", o, A, N("assign", "x", one)))
    add("assign-in-un", N("un", "-", N("assign", "x", one)))
    add("assign-in-call", N("call", f, [N("assign", "x", one)]))
    add("assign-in-index", N("index", A, N("assign", "x", one)))
    add("assign-measure", N("assign", "x", M))
    # E7: literals, array literals, new
    for l in (lit("0"), lit("42"), lit("1.5f", "float"), lit("3f", "float"), lit("7L", "long"), lit("1b", "bit"), lit("0b", "bit"), lit('"s t"', "string"), lit("'c'", "char"), lit("true", "boolean"),
              lit("false", "boolean"), N("null")):
        add("literal", l)
        add("literal-in-bin", N("bin", "+", l, A))
    add("arr-empty", N("arr", []))
    add("arr", N("arr", [lit("1"), N("bin", "+", A, B), N("un", "-", C)]))
    add("arr-nested", N("arr", [N("arr", [A]), N("arr", [B, C])]))
    add("new", N("new", ("named", ["K"], None), []))
    add("new-args", N("new", ("named", ["K"], None), [A, N("bin", "*", B, C)]))
    add("new-generic", N("new", ("named", ["Box"], [INT]), [A]))
    add("new-diamond", N("new", ("named", ["Box"], []), [A]))
    add("new-qualified", N("new", ("named", ["p", "K"], None), []))
    add("new-in-bin", N("bin", "==", N("new", ("named", ["K"], None), []), N("null")))
    # E8: all trees with three operator nodes (quick: 12 binary operators covering every level; thorough: all 16)
    if True:
        red = ["||", "&&", "|", "^", "&", "==", "<", ">=", "+", "-", "*", "%"] if tier != "thorough" else list(BINOPS)

        def gen(depth):
            if depth == 0:
                return [A]
            res = []
            for o in red:
                for dl in range(depth):
                    for l in gen(dl):
                        for r in gen(depth - 1 - dl):
                            res.append(N("bin", o, l, r))
            for u in ("-", "!"):
                for x in gen(depth - 1):
                    res.append(N("un", u, x))
            for x in gen(depth - 1):
                res.append(N("cast", INT, x))
                res.append(N("post", "++", x))
                res.append(N("call", x, [B]))
                res.append(N("index", x, B))
                res.append(N("member", x, "m"))
                res.append(N("measure", x))
            return res
        for e in gen(3):
            add("gen3", e)
        # E9: all trees with four operator nodes (quick: 4 binary operators of distinct levels; thorough: 6)
        red[:] = ["&&", "==", "+", "*"] if tier != "thorough" else ["||", "&&", "==", "<", "+", "*"]
        for e in gen(4):
            add("gen4", e)
    return out


def statements():
    E = [A, N("bin", "+", A, lit("1")), N("call", var("f"), [A]), N("measure", Q), N("bin", "&&", N("bin", "<", A, B), N("un", "!", C)), N("cast", INT, N("index", A, B))]
    out = []
    blk = lambda *s: N("block", list(s))
    for e in E:
        out += [
            N("vardecl", INT, "v", e, False, False), N("vardecl", INT, "v", e, True, False), N("expr", N("call", var("f"), [e])), N("return", e), N("echo", e), N("if", e, blk(N("echo", A)), None),
            N("if", e, blk(N("echo", A)), blk(N("return", None))), N("while", e, blk(N("expr", N("post", "++", var("i"))))), N("assign", "x", e),
            N("for", N("vardecl", INT, "i", lit("0"), False, False), N("bin", "<", var("i"), e), N("post", "++", var("i")), blk(N("echo", var("i")))),
            N("for", N("expr", N("assign", "i", e)), N("bin", "<", var("i"), B), N("assign", "i", N("bin", "+", var("i"), lit("1"))), blk()),
            N("for", None, e, N("post", "--", var("i")), blk()),
            N("expr", N("aassign", A, e, B)), N("expr", N("massign", A, "m", e)),
        ]
        if e.kind != "measure":
            out += [N("ternary", e, N("echo", A), N("echo", B)), N("ternary", e, N("assign", "x", lit("1")), N("expr", N("call", var("f"), []))), N("reset", N("index", Q, e)), N("measure", N("index", Q, e)),
                    N("destroy", e)]
    out += [
        N("reset", Q), N("measure", Q), N("measure", N("member", A, "q")), N("destroy", A), N("destroy", N("member", A, "m")), N("destroy", N("null")), N("return", None),
        N("vardecl", ("prim", "qubit"), "q", None, False, False), N("vardecl", ("prim", "qubit"), "q", None, False, True), N("vardecl", ("arr", ("prim", "qubit"), 2), "r", None, False, True),
        N("multiq", ["q0", "q1", "q2"]),
        N("vardecl", ("arr", INT, 3), "a", None, False, False), N("vardecl", ("arr", INT, None), "a", N("arr", [lit("1"), lit("2")]), False, False),
        N("vardecl", ("arr", INT, var("n")), "a", None, False, False), N("vardecl", ("arr", ("prim", "bit"), 2), "b", N("arr", [lit("0b", "bit"), lit("1b", "bit")]), True, False),
        N("vardecl", FLT, "x", lit("1.5f", "float"), False, False), N("vardecl", ("prim", "char"), "c", lit("'c'", "char"), False, False), N("vardecl", ("prim", "string"), "s", lit('"s"', "string"), False, False),
        N("vardecl", ("prim", "long"), "l", lit("5L", "long"), False, False), N("vardecl", ("prim", "boolean"), "t", lit("true", "boolean"), False, False),
        N("vardecl", ("named", ["K"], None), "k", N("new", ("named", ["K"], None), []), False, False), N("vardecl", ("named", ["K"], None), "k", N("null"), False, False),
        N("vardecl", ("named", ["Box"], [INT]), "bx", N("new", ("named", ["Box"], []), [A]), False, False), N("vardecl", ("arr", ("named", ["K"], None), 2), "ks", None, False, False),
        N("vardecl", ("named", ["p", "K"], None), "k", None, False, False),
        N("block", [N("block", [N("echo", A)]), N("echo", B)]),
    ]
    # forInit = variableDeclaration: a declaration of every primitive type, final and not, an array, a class type
    for ty, li in ((INT, lit("0")), (("prim", "long"), lit("5L", "long")), (FLT, lit("1.5f", "float")), (("prim", "boolean"), lit("true", "boolean")), (("prim", "bit"), lit("1b", "bit")),
                   (("prim", "char"), lit("'c'", "char")), (("prim", "string"), lit('"s"', "string"))):
        for fin in (False, True):
            out.append(N("for", N("vardecl", ty, "i", li, fin, False), N("bin", "<", A, B), N("post", "++", var("k")), blk(N("echo", var("i")))))
    out += [
        N("for", N("vardecl", ("prim", "qubit"), "q", None, False, False), N("bin", "<", A, B), N("post", "++", var("k")), blk()),
        # (hunt C14/d3) ... annotated, of a class type, of a generic class type, an array
        N("for", N("vardecl", ("prim", "qubit"), "q", None, False, True), N("bin", "<", A, B), N("post", "++", var("k")), blk()),
        N("for", N("vardecl", ("arr", ("prim", "qubit"), 2), "r", None, False, True), N("bin", "<", A, B), N("post", "++", var("k")), blk()),
        N("for", N("vardecl", ("named", ["K"], None), "n", N("new", ("named", ["K"], None), []), False, False), N("bin", "!=", var("n"), N("null")), N("assign", "n", N("null")), blk(N("echo", A))),
        N("for", N("vardecl", ("named", ["K"], None), "n", var("k"), True, False), N("bin", "<", A, B), N("post", "++", var("k")), blk()),
        N("for", N("vardecl", ("named", ["Box"], [INT]), "bx", N("new", ("named", ["Box"], []), [A]), False, False), N("bin", "<", A, B), N("post", "++", var("k")), blk()),
        N("for", N("vardecl", ("arr", INT, 3), "xs", None, False, False), N("bin", "<", A, B), N("post", "++", var("k")), blk()),
        N("if", A, N("block", [N("if", B, N("block", []), N("block", [N("echo", C)]))]), N("block", [])),
        N("while", A, N("block", [N("while", B, N("block", [N("return", None)]))])),
        N("ternary", A, N("ternary", B, N("echo", A), N("echo", B)), N("echo", C)),
        N("ternary", A, N("block", [N("echo", A)]), N("block", [])),
    ]
    return out


def declarations():
    progs = []
    body = [N("echo", A)]
    rets = [("void",), INT, ("prim", "bit"), ("arr", ("prim", "bit"), None), ("named", ["K"], None), ("named", ["Box"], [INT])]
    paramsets = [[], [(INT, "a")], [(("prim", "qubit"), "q"), (("arr", ("prim", "qubit"), None), "r")], [(("named", ["K"], None), "k"), (FLT, "x"), (("arr", INT, None), "xs")]]
    for ret in rets:
        for ps in paramsets:
            for quantum in (False, True):
                progs.append({"decls": [{"name": "f", "params": ps, "ret": ret, "body": body, "quantum": quantum}]})
    progs.append({"decls": [{"name": "main", "params": [], "ret": ("void",), "body": body, "shots": 100}]})
    progs.append({"package": ["a", "b"], "imports": ["x.y.Z", "x.y.*", "W"], "decls": [{"name": "main", "params": [], "ret": ("void",), "body": body}]})
    # class members: every admissible prefix combination
    fields = []
    for vis in (None, "public", "private", "protected"):
        for static in (False, True):
            for final in (False, True):
                for T, init in ((INT, None), (INT, lit("1")), (("arr", INT, 3), None), (("named", ["K"], None), N("null"))):
                    fields.append({"kind": "field", "vis": vis, "static": static, "final": final, "type": T, "name": "x", "init": init})
        fields.append({"kind": "field", "vis": vis, "type": ("prim", "qubit"), "name": "q", "tracked": True})
        fields.append({"kind": "field", "vis": vis, "type": ("arr", ("prim", "qubit"), 2), "name": "r", "tracked": True})
    methods = []
    for vis in (None, "public", "private", "protected"):
        for mods in ({}, {"static": True}, {"virtual": True}, {"override": True}, {"virtual": True, "override": True}):
            for quantum in (False, True):
                for ann_after in ((False, True) if quantum else (False,)):
                    for rev in ((False, True) if len(mods) == 2 else (False,)):
                        m = {"kind": "method", "vis": vis, "name": "m", "params": [(INT, "a")], "ret": ("prim", "bit") if quantum else INT, "body": [N("return", lit("0b", "bit") if quantum else A)],
                             "quantum": quantum, "ann_after": ann_after, "mods_rev": rev}
                        m.update(mods)
                        methods.append(m)
        methods.append({"kind": "method", "vis": vis, "virtual": True, "name": "pure", "params": [], "ret": ("void",), "body": None})
    ctors = []
    for vis in (None, "public", "private", "protected"):
        ctors.append({"kind": "ctor", "vis": vis, "params": [], "default": True})
        ctors.append({"kind": "ctor", "vis": vis, "params": [(INT, "x")], "default": True})
        ctors.append({"kind": "ctor", "vis": vis, "params": [(INT, "a")], "body": [N("expr", N("massign", N("this"), "x", A)), N("return", N("this"))]})
        ctors.append({"kind": "ctor", "vis": vis, "params": [], "body": [N("expr", N("call", N("super"), [lit("1")]))]})
        ctors.append({"kind": "dtor", "vis": vis, "default": True})
        ctors.append({"kind": "dtor", "vis": vis, "body": [N("echo", lit('"bye"', "string"))]})
    for m in fields + methods + ctors:
        progs.append({"decls": [{"name": "C", "members": [m]}]})
    # class headers
    base_members = [{"kind": "ctor", "vis": "public", "params": [], "default": True}]
    for hdr in ({}, {"abstract": True}, {"base": ("named", ["B"], None)}, {"base": ("named", ["p", "B"], None)}, {"base": ("named", ["G"], [INT])}, {"tparams": [("T", None)]},
                {"tparams": [("T", ("named", ["B"], None)), ("U", None)]}, {"tparams": [("T", None)], "base": ("named", ["G"], [("named", ["T"], None)])}, {"abstract": True, "base": ("named", ["B"], None)}):
        c = {"name": "C", "members": base_members}
        c.update(hdr)
        progs.append({"decls": [c]})
    progs.append({"decls": [{"name": "S", "static": True, "members": [{"kind": "field", "vis": None, "static": True, "final": True, "type": FLT, "name": "PI", "init": lit("3.14f", "float")},
                                                                        {"kind": "method", "vis": "public", "static": True, "name": "f", "params": [], "ret": INT, "body": [N("return", lit("1"))]}]}]})
    # several declarations in one file, classes and functions interleaved
    progs.append({"decls": [{"name": "f", "params": [], "ret": INT, "body": [N("return", lit("1"))]}, {"name": "C", "members": base_members},
                            {"name": "main", "params": [], "ret": ("void",), "body": [N("echo", N("call", var("f"), []))]}, {"name": "D", "base": ("named", ["C"], None), "members": base_members}]})
    return progs


def wrap_stmts(stmts, full):
    return "function main() -> void {\n" + "\n".join("  " + s_render(s, full) for s in stmts) + "\n}\n"


def expected_main(stmts):
    return "(program nil (function main -> (void) (block%s)))" % "".join(" " + s_dump(s) for s in stmts)


def parse(src):
    r = vdrv.run_job({"id": "p", "kind": "parse", "blobs": {"src": src}})
    rec = r.rec or {}
    if r.crash:
        return "crash:" + r.crash, None
    if rec.get("status") != "ok":
        return "%s at %s:%s %s" % (rec.get("status"), rec.get("line"), rec.get("col"), rec.get("msg")), None
    return "ok", rec["ast"]


def check_batch(item):
    """item = (kind, list of (tag, stmt)) -> list of failures (tag, rendering, src, problem)"""
    kind, batch = item
    fails = []

    def run(group, full):
        stmts = [s for _, s in group]
        src = wrap_stmts(stmts, full)
        st, ast = parse(src)
        if st == "ok" and ast == expected_main(stmts):
            return
        if len(group) == 1:
            tag, s = group[0]
            if st != "ok":
                fails.append((tag, "full" if full else "minimal", src, "rejected: " + st + "\nexpected tree: " + s_dump(s)))
            else:
                fails.append((tag, "full" if full else "minimal", src, "parsed into a different tree\n got:      %s\n expected: %s" % (ast, expected_main(stmts))))
            return
        mid = len(group) // 2
        run(group[:mid], full)
        run(group[mid:], full)
    run(batch, False)
    run(batch, True)
    return fails, len(batch)


def check_prog(p):
    fails = []
    for full in (False, True):
        src = program_src(p, full)
        st, ast = parse(src)
        exp = program_dump(p)
        if st != "ok":
            fails.append(("decl", "full" if full else "minimal", src, "rejected: " + st + "\nexpected tree: " + exp))
        elif ast != exp:
            fails.append(("decl", "full" if full else "minimal", src, "parsed into a different tree\n got:      %s\n expected: %s" % (ast, exp)))
    return fails, 1


def main(tier):
    ck = vcheck.Check("C14", "exploration", tier)
    ex = exprs(tier)
    contexts = [lambda e: N("vardecl", INT, "r", e, False, False), lambda e: N("return", e), lambda e: N("echo", e), lambda e: N("expr", N("call", var("g"), [A, e])),
                lambda e: N("if", e, N("block", []), None), lambda e: N("expr", N("aassign", var("z"), e, lit("0"))), lambda e: N("vardecl", INT, "r", N("index", var("z"), e), False, False)]
    items = []
    stm = []
    for i, (tag, e) in enumerate(ex):
        ctxs = contexts if tag not in ("gen3", "gen4") else [contexts[0], contexts[(i % (len(contexts) - 1)) + 1]]
        for c in ctxs:
            stm.append((tag, c(e)))
    for s in statements():
        stm.append(("stmt:" + s.kind, s))
    B_ = 40
    for i in range(0, len(stm), B_):
        items.append(("stmts", stm[i:i + B_]))
    distinct = set()
    n = 0
    nfail = 0
    for fails, cnt in vdrv.pmap(check_batch, items, chunksize=2):
        n += cnt
        for tag, rend, src, prob in fails:
            nfail += 1
            ck.violation("%s:%s:%s" % (tag, rend, prob.split("\n")[0][:60]), "%s rendering:\n%s\n%s" % (rend, src, prob), {"tool": "vdrv", "job": {"kind": "parse", "blobs": {"src": src}}})
    progs = declarations()
    for fails, cnt in vdrv.pmap(check_prog, progs, chunksize=8):
        n += cnt
        for tag, rend, src, prob in fails:
            ck.violation("%s:%s:%s" % (tag, rend, prob.split("\n")[0][:60]), "%s rendering:\n%s\n%s" % (rend, src, prob), {"tool": "vdrv", "job": {"kind": "parse", "blobs": {"src": src}}})
    for tag, s in stm[:: max(1, len(stm) // 5)][:5]:
        ck.sample({"tag": tag, "minimal": s_render(s, False), "full": s_render(s, True), "tree": s_dump(s)})
    ck.sample({"decl": program_src(progs[len(progs) // 2])})
    tags = set(t for t, _ in stm)
    ck.assumptions += ["precedence/associativity from docs/grammar.md; a cast is a unary-level prefix whose operand is a unary expression (docs/casting.md example); 'measure e' takes the longest operand",
                       "expression statements beginning 'ident < ident > ident' (ambiguous with generic declarations) are outside the alphabet; member modifiers are rendered in the shipped order 'static final'"]
    ck.finish({"evaluations": 2 * n, "distinct_nontrivial": len(set(s_dump(s) for _, s in stm)) + len(progs),
               "rule": "every tree of the listed shapes (all ordered binary-operator pairs in both nestings, unary/cast/postfix/measure/assignment interactions, chains, statements, declarations with every member-prefix combination) x 2 renderings; distinct = distinct expected trees",
               "expression_trees": len(ex), "statement_cases": len(stm), "declaration_programs": len(progs), "shape_tags": len(tags)})
