"""C18 - shots are isolated. Every program of a 'stateful' grammar (static counters, lazily instantiated generics with statics,
constant-sized arrays, objects owning qubits that are released and recycled, tracked locals, measured flags left set, runtime
errors on some outcome) is executed N times on ONE parsed+analysed AST with every assignment of outcome scripts to the
shots; each shot must equal a fresh lex-parse-analyse-run of the source with the same script. Also analyse twice, and
re-analyse between shots."""
import itertools
import vcheck, vdrv

PROGRAMS = {
    # (seed C18-4) a field array sized by an expression whose value changes during the run: the size is a property of each creation, not of
    # the declaration, and the next shot starts from the declaration again
    "field-array-size-changes-during-run": """static class Cfg { public static int width = 1; }
class Rg { public int[Cfg.width] cells; public qubit[Cfg.width] qs; public constructor() -> Rg = default; }
function main() -> void { Rg narrow = new Rg(); echo(narrow.cells); x(narrow.qs[0]); echo(measure narrow.qs[0]); Cfg.width = 3; Rg wide = new Rg(); echo(wide.cells); x(wide.qs[2]); echo(measure wide.qs[2]); }""",
    "field-array-size-from-measurement": """static class Cfg { public static int width = 1; }
class Rg { public int[Cfg.width] cells; public constructor() -> Rg = default; }
function main() -> void { qubit c; h(c); bit b = measure c; if (b == 1b) { Cfg.width = 2; } Rg r = new Rg(); echo(r.cells); Cfg.width = Cfg.width + 1; Rg r2 = new Rg(); echo(r2.cells); }""",
    "static-counter": """static class S { public static int n = 0; public static function bump() -> int { S.n = S.n + 1; return S.n; } }
function main() -> void { echo(S.bump()); echo(S.bump()); echo(S.n); }""",
    "static-object": """class N { public int id; public constructor(int i) -> N { this.id = i; } }
static class S { public static N keep = null; public static int seen = 0; }
function main() -> void { if (S.keep == null) { echo("empty"); } else { echo("stale " + S.keep.id); } S.keep = new N(S.seen + 5); S.seen = S.seen + 1; echo(S.keep.id); echo(S.seen); }""",
    "instance-static": """class C { public static int made = 0; public int id; public constructor() -> C { C.made = C.made + 1; this.id = C.made; } }
function main() -> void { C a = new C(); C b = new C(); echo(a.id); echo(b.id); echo(C.made); }""",
    "generic-static": """class Box<T> { public static int count = 10; public T v; public constructor(T x) -> Box<T> { this.v = x; Box.count = Box.count + 1; } public function seen() -> int { return count; } }
function main() -> void { Box<int> a = new Box<int>(1); Box<int> b = new Box<int>(2); Box<float> c = new Box<float>(1.5f); echo(a.seen()); echo(b.seen()); echo(c.seen()); }""",
    "generic-diamond": """class Box<T> { public T v; public constructor(T x) -> Box<T> { this.v = x; } public function get() -> T { return this.v; } }
function main() -> void { Box<int> a = new Box<>(4); echo(a.get()); Box<int> b = new Box<int>(5); b = new Box<>(6); echo(b.get()); }""",
    "const-array": """function fill(int k) -> int { final int n = 3; int[n] a; a[0] = k; a[2] = k + 1; return a[0] + a[1] + a[2]; }
function main() -> void { final int m = 2; int[m] b; b[1] = 7; echo(fill(1)); echo(fill(5)); echo(b); }""",
    "const-array-two-sizes": """function small() -> int { final int n = 2; int[n] a; a[1] = 1; return a[0] + a[1]; }
function big() -> int { final int n = 4; int[n] a; a[3] = 9; return a[0] + a[3]; }
function main() -> void { echo(small()); echo(big()); echo(small()); }""",
    "qubit-recycle": """class Q { public qubit q; public constructor() -> Q = default; public function fire() -> bit { h(this.q); return measure this.q; } }
function once() -> bit { Q o = new Q(); return o.fire(); }
function main() -> void { qubit pad; bit a = once(); bit b = once(); echo(a); echo(b); Q keep = new Q(); x(keep.q); echo(measure keep.q); }""",
    "tracked-local": """function main() -> void { @tracked qubit q; h(q); bit b = measure q; echo(b); if (b) { reset q; x(q); measure q; } }""",
    "measured-left-set": """function main() -> void { qubit a; qubit b; h(a); cx(a, b); bit m = measure a; echo(m); if (m) { x(b); } echo(measure b); }""",
    "tracked-array-loop": """function main() -> void { for (int i = 0; i < 2; i = i + 1) { @tracked qubit[2] r; h(r[0]); cx(r[0], r[1]); measure r; } echo("done"); }""",
    "error-on-outcome": """class N { public int id; public constructor(int i) -> N { this.id = i; } }
static class S { public static int runs = 0; }
function main() -> void { S.runs = S.runs + 1; echo(S.runs); qubit q; h(q); bit m = measure q; N n = new N(3); int z = 0; if (m) { echo(n.id / z); } echo("survived"); }""",
    "destructor-state": """class D { public static int live = 0; public int id; public constructor(int i) -> D { this.id = i; D.live = D.live + 1; } public destructor() -> void { D.live = D.live - 1; echo("~" + this.id); } }
function main() -> void { D a = new D(1); { D b = new D(2); echo(D.live); } echo(D.live); a = null; echo(D.live); }""",
    "cycle-garbage": """class N { public int id; public N next; public constructor(int i) -> N { this.id = i; this.next = null; } }
function main() -> void { for (int i = 0; i < 3; i = i + 1) { N a = new N(i); N b = new N(i + 10); a.next = b; b.next = a; } echo("cycles"); N c = new N(9); echo(c.id); }""",
    "overload-cache": """class A { public constructor() -> A = default; public function f(int x) -> string { return "int"; } public function f(long x) -> string { return "long"; } public function f(float x) -> string { return "float"; } }
function main() -> void { A a = new A(); echo(a.f(1)); echo(a.f(2L)); echo(a.f(1.5f)); long w = 3; echo(a.f(w)); }""",
}

# qubits declared after gates have already run (late locals, a helper's local, an object created mid-run), so that what one execution
# leaves in the simulator's buffers differs from the all-zero start
PROGRAMS["echo-operand-effects"] = """static class S { public static int n = 0; public static function bump() -> int { S.n = S.n + 1; return S.n; } }
function main() -> void { @tracked qubit q; x(q); echo(measure q); echo(S.bump()); qubit t; if (S.n == 1) { x(t); } bit r = measure t; }"""
PROGRAMS["late-allocation"] = """function main() -> void { @tracked qubit a; x(a); @tracked qubit b; x(a); echo(measure a); echo(measure b); }"""
PROGRAMS["late-allocation-helper"] = """class Q { public qubit q; public constructor() -> Q = default; }
function probe() -> bit { qubit t; return measure t; }
function main() -> void { qubit a; x(a); echo(probe()); Q o = new Q(); h(a); echo(measure o.q); qubit[2] late; echo(measure late[1]); echo(measure a); }"""

# generic code whose type-parameter names coincide with concrete class names, with allocations of the concrete class before and after
# allocations made inside the generic context, and the same generic class bound to different arguments in different orders
PROGRAMS["generic-param-named-like-class"] = """class Item { public int weight = 1; public constructor() -> Item = default; }
class Heavy { public int weight = 50; public constructor() -> Heavy = default; }
class Stack<Item> { public Item top; public constructor() -> Stack<Item> = default; public function push(Item x) -> Stack<Item> { Stack<Item> s = new Stack<Item>(); s.top = x; return s; } }
function main() -> void { Item first = new Item(); echo(first.weight); Stack<Heavy> s = new Stack<Heavy>(); s = s.push(new Heavy()); echo(s.top.weight); Item again = new Item(); echo(again.weight); }"""
PROGRAMS["generic-two-bindings"] = """class A { public int id = 1; public constructor() -> A = default; }
class B { public int id = 2; public constructor() -> B = default; }
class Pair<A, B> { public A l; public B r; public constructor(A x, B y) -> Pair<A, B> { this.l = x; this.r = y; } public function swap() -> Pair<B, A> { return new Pair<B, A>(this.r, this.l); } }
function main() -> void { A a0 = new A(); echo(a0.id); Pair<B, A> p = new Pair<B, A>(new B(), new A()); echo(p.l.id); Pair<A, B> q = p.swap(); echo(q.l.id); B b0 = new B(); echo(b0.id); A a1 = new A(); echo(a1.id); }"""

# Programs at the edge of what the analyser accepts (array sizes named by finals whose value is only known at run time,
# sizes that differ from call to call): wherever such a program IS accepted it is in the property's domain and must be
# shot-isolated; where the analyser rejects it, it is outside the domain and skipped (counted in the evidence).
FRONTIER = {}
for _tname, _decl, _show in (("int", "int[n] a;", "echo(a);"), ("float", "float[n] a;", "echo(a);"), ("qubit", "qubit[n] r; x(r[n - 1]);", "echo(measure r[n - 1]); echo(n);")):
    FRONTIER["size-from-measured-call:" + _tname] = """function width(bit m) -> int { if (m == 1b) { return 2; } return 1; }
function main() -> void { qubit q; h(q); bit m = measure q; final int n = width(m); %s echo(m); %s }""" % (_decl, _show)
    FRONTIER["size-from-measured-ternary:" + _tname] = """function main() -> void { qubit q; h(q); bit m = measure q; int k = 1; if (m == 1b) { k = 3; } final int n = k; %s echo(m); %s }""" % (_decl, _show)
    FRONTIER["size-from-parameter:" + _tname] = """function mk(int k, bit m) -> void { final int n = k; %s %s }
function main() -> void { qubit q; h(q); bit m = measure q; if (m == 1b) { mk(3, m); } else { mk(1, m); } echo(m); }""" % (_decl, _show)
    FRONTIER["size-from-static:" + _tname] = """static class S { public static int w = 1; }
function main() -> void { qubit q; h(q); bit m = measure q; if (m == 1b) { S.w = 2; } final int n = S.w; %s echo(m); %s }""" % (_decl, _show)
    FRONTIER["size-from-loop:" + _tname] = """function main() -> void { qubit q; h(q); bit m = measure q; for (int i = 1; i < 3; i = i + 1) { final int n = i; %s %s } echo(m); }""" % (_decl, _show)
    FRONTIER["size-from-final-expr:" + _tname] = """function two() -> int { return 2; }
function main() -> void { qubit q; h(q); bit m = measure q; final int b = two(); final int n = b + 1; %s echo(m); %s }""" % (_decl, _show)


def ndraws(src):
    r = vdrv.run_src(src, gc="own", warn=0)
    return len((r.rec or {}).get("draws", []))


def _r(x):
    return round(x, 9) + 0.0


OBS_FIELDS = ["status", "stdout", "message", "tracked counts", "emitted QASM", "probability offered at each draw", "final amplitudes"]


def diff_of(a, b):
    """the first component in which two observations differ, rendered"""
    for name, x, y in zip(OBS_FIELDS, a, b):
        if x != y:
            return "%s: %s  versus fresh  %s" % (name, str(x)[:300], str(y)[:300])
    return "(identical)"


def obs(rec):
    # besides what the user sees, the probability offered at every measurement/reset draw and the final amplitudes: a leaked quantum
    # state is invisible in the outcomes as long as the scripted outcome stays possible
    draws = [(d[0], d[1], _r(d[2])) for d in (rec.get("draws") or [])]
    amps = [(_r(a[0]), _r(a[1])) for a in (rec.get("amps") or [])]
    return (rec.get("status"), rec.get("stdout"), rec.get("msg") if rec.get("status") != "ok" else None, str(sorted((rec.get("tracked") or {}).items())), rec.get("qasm"), str(draws), str(amps))


_N = 2


def _one(name):
    src = PROGRAMS.get(name) or FRONTIER[name]
    base = vdrv.run_src(src, gc="own", warn=0, want="tracked,qasm,amps")
    if base.crash or base.rec is None:
        return name, [("-", "the program could not be run at all: %s %s" % (base.crash, base["fd2"][:300]))], 1
    if base.rec.get("stage") != "run":
        if name in FRONTIER:
            return name, None, 1
        return name, [("-", "the program is not accepted: %s" % base.rec.get("msg"))], 1
    nd = min(len(base.rec["draws"]), 3)
    scripts = list(itertools.product([0, 1], repeat=nd)) if nd else [()]
    # fresh single executions, one per script
    fresh = {}
    n = 1
    for sc in scripts:
        r = vdrv.run_src(src, gc="own", warn=0, want="tracked,qasm,amps", draws=",".join(map(str, sc)))
        n += 1
        if r.crash:
            return name, [(sc, "fresh run died: %s" % r.crash)], n
        fresh[sc] = obs(r.rec)
    bad = []
    for combo in itertools.product(scripts, repeat=_N):
        # "echo-off": multi-shot mode runs the shots with echo suppressed; suppressing the OUTPUT must not suppress what the operand does
        # (a measurement, a call that bumps a static): everything but stdout still equals the fresh, echoing run (seed C18-6)
        for variant, extra in (("plain", {}), ("echo-off", {"echo": 0}), ("analyse-twice", {"analyse_times": 2}), ("reanalyse-between", {"reanalyse_between": 1})):
            if variant not in ("plain", "echo-off") and combo != tuple([scripts[-1]] * _N) and combo != tuple([scripts[0]] * _N):
                continue
            r = vdrv.run_job({"id": "s", "kind": "run", "opts": dict({"shots": _N, "gc": "own", "warn": 0, "want": "tracked,qasm,amps", "draws": "/".join(",".join(map(str, sc)) for sc in combo)}, **extra),
                              "blobs": {"src": src}})
            n += _N
            recs = r["records"]
            if r.crash and len(recs) < _N:
                bad.append((combo, "%s: the interpreter died during shot %d of %d: %s %s" % (variant, len(recs), _N, r.crash, r["fd2"][:300])))
                continue
            for i, (sc, rec) in enumerate(zip(combo, recs)):
                if variant == "echo-off":
                    o, f = obs(rec), fresh[sc]
                    if o[0] == f[0] == "ok" and (o[0],) + o[2:] != (f[0],) + f[2:]:
                        bad.append((combo, "echo-off: shot %d (draw script %s) of a %d-shot run with echo suppressed differs from a fresh echoing run with the same script in %s" % (
                            i, list(sc), _N, diff_of((o[0], f[1]) + o[2:], f))))
                        break
                    continue
                if obs(rec) != fresh[sc]:
                    bad.append((combo, "%s: shot %d (draw script %s) of a %d-shot run on one AST differs from a fresh parse-analyse-run with the same script in %s" % (variant, i, list(sc), _N, diff_of(obs(rec), fresh[sc]))))
                    break
    return name, bad, n


def corpus(tier):
    """accepted programs of the other checks' generators (object model, allocation grammar, tracked placements, declaration pools,
    edge alphabet): each is a program whose repeated execution on one AST must behave like fresh runs"""
    from checks import c08, c10, c11, c12, c17
    out = []
    for name, src, exp in c08.hierarchy_programs(tier) + c08.overload_programs(tier) + c08.generic_programs() + c08.destructor_programs():
        if exp[0] == "ok":
            out.append(("c08:" + name, src))
    for name in c11.BODIES:
        out.append(("c11:" + name, c11.program(name)))
    for prep in ("h", "x", ""):
        for p in c17.programs(prep):
            out.append(("c17:%s:%s" % (prep, p.name), p.src))
    for sub in c10.subsets(4 if tier == "thorough" else 3):
        out.append(("c10:" + "+".join(sub), c10.program(list(sub) + ["main"], sub)))
    edge = c12.edge_programs(tier)
    for name, src in (edge if tier == "thorough" else edge[::7]):
        if name.startswith(("chain", "many-qubits")):
            continue                      # seconds per execution: resource use, not shot isolation
        out.append(("c12:" + name, src))
    return out


def _corpus_one(item):
    name, src = item
    fresh = vdrv.run_src(src, gc="own", warn=0, want="tracked,qasm,amps")
    if fresh.crash or fresh.rec is None:
        return name, src, None, 1          # crashes are C12's subject
    if fresh.rec.get("stage") != "run":
        return name, src, None, 1          # not accepted: outside this property
    f = obs(fresh.rec)
    probs = []
    for variant, extra in (("plain", {}), ("reanalyse-between", {"reanalyse_between": 1})):
        r = vdrv.run_job({"id": "s", "kind": "run", "opts": dict({"shots": _N, "gc": "own", "warn": 0, "want": "tracked,qasm,amps"}, **extra), "blobs": {"src": src}})
        recs = r["records"]
        if r.crash == "timeout":
            return name, src, "timeout", 1 + _N      # reported as a cap, never as a violation
        if r.crash and len(recs) < _N:
            probs.append("%s: the interpreter died during shot %d of %d: %s %s" % (variant, len(recs), _N, r.crash, r["fd2"][:300]))
            continue
        for i, rec in enumerate(recs):
            if obs(rec) != f:
                probs.append("%s: shot %d of a %d-shot run on one AST differs from a fresh parse-analyse-run (same default draws) in %s" % (variant, i, _N, diff_of(obs(rec), f)))
                break
    nleak = 0
    if "class " in src:
        # objects of one shot must be gone when the next one starts: LeakSanitizer after the last shot, all evaluators destroyed
        r = vdrv.run_job({"id": "k", "kind": "run", "opts": {"shots": _N, "gc": "own", "warn": 0, "leakcheck": 1}, "blobs": {"src": src}}, variant="asan+leak")
        nleak = _N
        if r.crash == "sanitizer:detected":
            lines = [ln.strip() for ln in r["fd2"].split("\n") if "leak of" in ln or "SUMMARY" in ln]
            probs.append("leak: memory allocated by the shots of a %d-shot run is still allocated (and unreachable) after the last shot - objects of earlier shots carried over: %s" % (_N, "; ".join(lines[:3])))
    return name, src, probs, 1 + 2 * _N + nleak


def main(tier):
    global _N
    ck = vcheck.Check("C18", "exploration", tier)
    _N = 3 if tier == "thorough" else 2
    total = 0
    ncorpus = 0
    for name, src, probs, n in vdrv.pmap(_corpus_one, corpus(tier), chunksize=8):
        total += n
        if probs is None:
            continue
        if probs == "timeout":
            ck.cap("corpus program %s: the %d-shot run exceeded the per-job time limit (not compared)" % (name, _N))
            continue
        ncorpus += 1
        for p in probs[:1]:
            fam = name.split(":")[0] + ":" + name.split(":")[1]
            ck.violation("corpus:%s:%s" % (fam, p.split(":")[0]), "%s\nprogram (%s):\n%s" % (p, name, src), {"tool": "vdrv", "job": {"kind": "run", "opts": {"shots": _N, "gc": "own", "warn": 0, "want": "tracked,qasm,amps"}, "blobs": {"src": src}}})
    frontier_in, frontier_out = 0, 0
    for name, bad, n in vdrv.pmap(_one, list(PROGRAMS) + list(FRONTIER), chunksize=1):
        total += n
        src = PROGRAMS.get(name) or FRONTIER[name]
        if name in FRONTIER:
            if bad is None:
                frontier_out += 1
                continue
            frontier_in += 1
        for combo, p in bad[:3]:
            ck.violation("shots:%s:%s" % (name, p.split(":")[0]), "%s\nscripts per shot: %s\nprogram (%s):\n%s" % (p, combo, name, src), {"tool": "text", "case": src})
        ck.sample({"program": name, "source": src[:300]}, limit=4)
    ck.assumptions += ["the AST may be modified in place as long as no later execution can observe it; observation = status, stdout, tracked counts, QASM"]
    ck.finish({"evaluations": total, "distinct_nontrivial": len(PROGRAMS), "rule": "each stateful program x every assignment of outcome scripts (<=3 draws) to %d consecutive shots, plus analyse-twice and re-analyse-between variants; and every accepted program of the C08/C10/C11/C12/C17 generators run %d times on one AST vs fresh (default draws); distinct = stateful programs" % (_N, _N),
               "programs": len(PROGRAMS), "corpus_programs": ncorpus, "frontier_programs_accepted": frontier_in, "frontier_programs_rejected_by_analyser": frontier_out, "shots_per_run": _N})
