"""C17 - @tracked/@shots accounting. Programs with tracked declarations in every placement (main, block, loop body run 0/1/2
times, helper called 0/1/2 times, object field whose owner dies by scope end / overwrite / null / destroy), qubit and qubit[2],
every per-element history (never measured, measured, measured-reset, measured-reset-measured) x every outcome history at the
evaluator level; the CLI with every way of giving the shot count x every --echo mode. A reference model predicts the
per-evaluator tracked counts, the aggregate table, probabilities and echo lines."""
import itertools, re
import vcheck, vdrv, qcheck

HIST = ["none", "M", "MR", "MRM"]


def hist_stmts(q, hist, prep="h"):
    """statements for one element with the given history; returns (text, number of measurements)"""
    out = []
    if hist == "none":
        if prep:
            out.append("%s(%s);" % (prep, q))
        return " ".join(out), 0
    if prep:
        out.append("%s(%s);" % (prep, q))
    out.append("measure %s;" % q)
    n = 1
    if hist in ("MR", "MRM"):
        out.append("reset %s;" % q)
    if hist == "MRM":
        if prep:
            out.append("%s(%s);" % (prep, q))
        out.append("measure %s;" % q)
        n = 2
    return " ".join(out), n


def outcome_of(hist, bits):
    """tracked outcome character of one element given the bits its measurements returned (in order)"""
    if hist == "none" or hist == "MR":
        return "?"
    return str(bits[-1])


class Prog:
    """a program plus its model: 'units' = list of (key, [element histories]) in the order their measurements happen and
    their scopes end; every unit contributes one outcome per exit."""

    def __init__(self, name, src, units, echoes=0, aliases=None):
        self.name, self.src, self.units, self.echoes = name, src, units, echoes
        self.aliases = aliases or {}      # other acceptable table names for a variable (e.g. declaring class vs dynamic class) -> canonical

    def canon(self, d):
        out = {}
        for k, v in d.items():
            ck = self.aliases.get(k, k)
            if ck in out and all(isinstance(c, int) for c in list(v.values()) + list(out[ck].values())):
                for o, c in v.items():                 # two acceptable names of one declaration: their counts add up
                    out[ck][o] = out[ck].get(o, 0) + c
            else:
                out[ck] = dict(v)
        return out

    def expected(self, outcomes):
        """per-evaluator tracked counts for one shot given the measurement outcomes of that shot in order"""
        it = iter(outcomes)
        res = {}
        for key, hists in self.units:
            chars = []
            for h in hists:
                n = {"none": 0, "M": 1, "MR": 1, "MRM": 2}[h]
                bits = [next(it) for _ in range(n)]
                chars.append(outcome_of(h, bits))
            if key is None:
                continue                  # measurements of an untracked qubit: consumed, not recorded
            s = "?" if "?" in chars else "".join(chars)
            res.setdefault(key, {})
            res[key][s] = res[key].get(s, 0) + 1
        return res

    def nmeasure(self):
        return sum({"none": 0, "M": 1, "MR": 1, "MRM": 2}[h] for _, hs in self.units for h in hs)


def programs(prep):
    progs = []
    pad = "qubit pad; "
    for h in HIST:
        body, _ = hist_stmts("q", h, prep)
        progs.append(Prog("main:%s" % h, "function main() -> void { %s@tracked qubit q; %s echo(\"e\"); }" % (pad, body), [("qubit q", [h])], 1))
        progs.append(Prog("block:%s" % h, "function main() -> void { %s{ @tracked qubit q; %s } echo(\"e\"); echo(\"f\"); }" % (pad, body), [("qubit q", [h])], 2))
        for n in (0, 1, 2):
            progs.append(Prog("for%d:%s" % (n, h), "function main() -> void { %sfor (int i = 0; i < %d; i = i + 1) { @tracked qubit q; %s } }" % (pad, n, body), [("qubit q", [h])] * n))
            calls = " ".join(["hlp();"] * n)
            progs.append(Prog("helper%d:%s" % (n, h), "function hlp() -> void { @tracked qubit q; %s }\nfunction main() -> void { %s%s echo(\"e\"); }" % (body, pad, calls), [("qubit q", [h])] * n, 1))
        fbody, _ = hist_stmts("this.q", h, prep)
        cls = "class T { @tracked public qubit q; public constructor() -> T = default; public function go() -> void { %s } }\n" % fbody
        progs.append(Prog("field-scope:%s" % h, cls + "function main() -> void { %sT t = new T(); t.go(); }" % pad, [("T.q", [h])]))
        progs.append(Prog("field-null:%s" % h, cls + "function main() -> void { %sT t = new T(); t.go(); t = null; echo(\"e\"); }" % pad, [("T.q", [h])], 1))
        progs.append(Prog("field-destroy:%s" % h, cls + "function main() -> void { %sT t = new T(); t.go(); destroy t; }" % pad, [("T.q", [h])]))
        progs.append(Prog("field-overwrite:%s" % h, cls + "function main() -> void { %sT t = new T(); t.go(); t = new T(); t.go(); }" % pad, [("T.q", [h]), ("T.q", [h])]))
        progs.append(Prog("field-inner:%s" % h, cls + "function mk() -> void { T t = new T(); t.go(); }\nfunction main() -> void { %smk(); mk(); }" % pad, [("T.q", [h]), ("T.q", [h])]))
        # same name tracked in two functions: one table row set, two exits per shot
        progs.append(Prog("two-sites:%s" % h, "function hlp() -> void { @tracked qubit q; %s }\nfunction main() -> void { %s@tracked qubit q; %s hlp(); }" % (body, pad, body), [("qubit q", [h]), ("qubit q", [h])]))
    # a second owner on a RECYCLED simulator index: the first object is destroyed (its qubit released) before the next
    # tracked qubit is created, and the two have different histories
    for h0, h1 in itertools.product(HIST, HIST):
        g0, _ = hist_stmts("this.q", h0, prep)
        g1, _ = hist_stmts("this.q", h1, prep)
        cls2 = "class T { @tracked public qubit q; public constructor() -> T = default; public function go0() -> void { %s } public function go1() -> void { %s } }\n" % (g0, g1)
        progs.append(Prog("field-reuse:%s,%s" % (h0, h1), cls2 + "function a() -> void { T t = new T(); t.go0(); }\nfunction b() -> void { T t = new T(); t.go1(); }\nfunction main() -> void { %sa(); b(); }" % pad,
                          [("T.q", [h0]), ("T.q", [h1])]))
        l1, _ = hist_stmts("q", h1, prep)
        progs.append(Prog("local-after-release:%s,%s" % (h0, h1), cls2 + "function a() -> void { T t = new T(); t.go0(); }\nfunction main() -> void { %sa(); @tracked qubit q; %s }" % (pad, l1),
                          [("T.q", [h0]), ("qubit q", [h1])]))
    for h0, h1 in itertools.product(HIST, HIST):
        b0, _ = hist_stmts("r[0]", h0, prep)
        b1, _ = hist_stmts("r[1]", h1, prep)
        progs.append(Prog("array:%s,%s" % (h0, h1), "function main() -> void { %s@tracked qubit[2] r; %s %s }" % (pad, b0, b1), [("qubit[] r", [h0, h1])]))
    # tracked fields that hold qubits the object does NOT own: an unsized 'qubit[]' field (nothing is allocated for it) or a
    # 'qubit' field bound by the constructor to the caller's register / qubit; the object itself owns nothing else
    pb = "class Pb { @tracked public qubit[] reg; public constructor(qubit[] r) -> Pb { this.reg = r; } }\n"
    pq = "class Pq { @tracked public qubit q; public constructor(qubit c) -> Pq { this.q = c; } }\n"
    for h0, h1 in itertools.product(HIST, HIST):
        b0, _ = hist_stmts("r[0]", h0, prep)
        b1, _ = hist_stmts("r[1]", h1, prep)
        progs.append(Prog("borrow-array-after:%s,%s" % (h0, h1), pb + "function main() -> void { %squbit[2] r; %s %s Pb p = new Pb(r); echo(\"e\"); }" % (pad, b0, b1), [("Pb.reg", [h0, h1])], 1))
        progs.append(Prog("borrow-array-before:%s,%s" % (h0, h1), pb + "function main() -> void { %squbit[2] r; { Pb p = new Pb(r); %s %s } echo(\"e\"); }" % (pad, b0, b1), [("Pb.reg", [h0, h1])], 1))
    for h in HIST:
        body, _ = hist_stmts("c", h, prep)
        progs.append(Prog("borrow-qubit:%s" % h, pq + "function main() -> void { %squbit c; %s Pq p = new Pq(c); p = null; echo(\"e\"); }" % (pad, body), [("Pq.q", [h])], 1))
    # a handle that outlives the object owning the qubit: the slot is released, then measured through the stale handle, and only then
    # re-used by a tracked declaration with its own history (the predecessor's last act on the slot happens AFTER its release)
    leak = "class Lk { public qubit q; public constructor() -> Lk = default; public function out() -> qubit { return this.q; } }\nfunction mk() -> qubit { Lk t = new Lk(); return t.out(); }\n"
    for h0, h1 in itertools.product(["M", "MRM"], HIST):
        s0, _ = hist_stmts("s", h0, prep)
        b1, _ = hist_stmts("q", h1, prep)
        progs.append(Prog("stale-handle-then-tracked:%s,%s" % (h0, h1), leak + "function main() -> void { %squbit s = mk(); %s @tracked qubit q; %s echo(\"e\"); }" % (pad, s0, b1),
                          [(None, [h0]), ("qubit q", [h1])], 1))
        g1, _ = hist_stmts("this.q", h1, prep)
        clsT = "class T { @tracked public qubit q; public constructor() -> T = default; public function go() -> void { %s } }\n" % g1
        progs.append(Prog("stale-handle-then-tracked-field:%s,%s" % (h0, h1), leak + clsT + "function main() -> void { %squbit s = mk(); %s T t = new T(); t.go(); echo(\"e\"); }" % (pad, s0),
                          [(None, [h0]), ("T.q", [h1])], 1))
    # (seeds C17-6, C06-3) ... and the stale handle is gone again before the tracked declaration, so the tracked qubit really gets the slot
    # that was measured after its release
    for h0, h1 in itertools.product(["M", "MRM"], HIST):
        s0, _ = hist_stmts("s", h0, prep or "x")
        b1, _ = hist_stmts("q", h1, prep)
        progs.append(Prog("stale-handle-out-of-scope-then-tracked:%s,%s" % (h0, h1), leak + "function probe() -> void { qubit s = mk(); %s }\nfunction main() -> void { %sprobe(); @tracked qubit q; %s echo(\"e\"); }" % (s0, pad, b1),
                          [(None, [h0]), ("qubit q", [h1])], 1))
        progs.append(Prog("stale-handle-block-then-tracked-loop:%s,%s" % (h0, h1), leak + "function main() -> void { %s{ qubit s = mk(); %s } for (int i = 0; i < 2; i = i + 1) { @tracked qubit q; %s } echo(\"e\"); }" % (pad, s0, b1),
                          [(None, [h0]), ("qubit q", [h1]), ("qubit q", [h1])], 1))
    # a tracked field whose object is kept alive only by a dropped cycle of plain objects: it ends when the collector reclaims the cycle
    # (at the latest in the collection execute() performs before it returns), and that end counts like any other
    for h in HIST:
        fbody2, _ = hist_stmts("this.q", h, prep)
        clsC = ("class T { @tracked public qubit q; public constructor() -> T = default; public function go() -> void { %s } }\n"
                "class Nd { public Nd next; public T held; public constructor() -> Nd { this.next = null; this.held = null; } }\n") % fbody2
        progs.append(Prog("field-owned-by-dropped-cycle:%s" % h, clsC + "function main() -> void { %sNd a = new Nd(); Nd b = new Nd(); a.next = b; b.next = a; a.held = new T(); a.held.go(); a = null; b = null; echo(\"e\"); }" % pad,
                          [("T.q", [h])], 1))
    # a tracked field inherited from a base class by a subclass that adds only classical members / its own qubit / nothing
    for h in HIST:
        fb, _ = hist_stmts("this.q", h, prep)
        base = "class TB { @tracked public qubit q; public constructor() -> TB = default; public function go() -> void { %s } }\n" % fb
        subs = {"adds-int": "class TS extends TB { public int k = 0; public constructor() -> TS { super(); } }\n",
                "adds-nothing": "class TS extends TB { public constructor() -> TS { super(); } }\n",
                "adds-qubit": "class TS extends TB { public qubit own; public constructor() -> TS { super(); } }\n",
                "two-levels": "class TM extends TB { public int m = 1; public constructor() -> TM { super(); } }\nclass TS extends TM { public int k = 0; public constructor() -> TS { super(); } }\n"}
        for sn, scls in subs.items():
            for dn, dsrc in {"scope": "{ TS t = new TS(); t.go(); }", "null": "TS t = new TS(); t.go(); t = null;", "base-typed": "TB t = new TS(); t.go(); t = null;"}.items():
                progs.append(Prog("inherited-field:%s:%s:%s" % (sn, dn, h), base + scls + "function main() -> void { %s%s echo(\"e\"); }" % (pad, dsrc), [("TS.q", [h])], 1,
                                  aliases={"TB.q": "TS.q", "TM.q": "TS.q"}))
    # hunt C17: several declarators under one @tracked; objects that are still alive when the run ends (held by a static, in a cycle of
    # tracked-field objects); a @tracked static field; a subclass that declares a field named like the inherited tracked one
    # hunt C17/d6: the destructor of an object declared AFTER the tracked qubit (it dies first) still acts on the qubit before the qubit's
    # own end; one declared BEFORE it dies afterwards, too late to matter
    for h in HIST:
        if h == "none":
            continue
        db, _ = hist_stmts("this.h", h, prep)
        mcls = "class Mh { public qubit h; public boolean on = false; public constructor() -> Mh = default; public destructor() -> void { if (this.on) { %s } } }\n" % db
        progs.append(Prog("measured-by-later-declared-destructor:%s" % h, mcls + "function main() -> void { %s{ @tracked qubit q; Mh m = new Mh(); m.h = q; m.on = true; } echo(\"e\"); }" % pad, [("qubit q", [h])], 1))
        progs.append(Prog("measured-by-earlier-declared-destructor:%s" % h, mcls + "function main() -> void { %s{ Mh m = new Mh(); @tracked qubit q; m.h = q; m.on = true; } echo(\"e\"); }" % pad, [("qubit q", ["none"]), (None, [h])], 1))
    for h0, h1 in itertools.product(HIST, HIST):
        b0, _ = hist_stmts("a", h0, prep)
        b1, _ = hist_stmts("b", h1, prep)
        progs.append(Prog("multi-declaration:%s,%s" % (h0, h1), "function main() -> void { %s@tracked qubit a, b; %s %s echo(\"e\"); }" % (pad, b0, b1), [("qubit a", [h0]), ("qubit b", [h1])], 1))
    for h in HIST:
        fbody3, _ = hist_stmts("this.q", h, prep)
        clsT3 = "class T { @tracked public qubit q; public T other; public constructor() -> T { this.other = null; } public function go() -> void { %s } }\n" % fbody3
        progs.append(Prog("alive-at-end-static-held:%s" % h, clsT3 + "static class Keep { public static T t; }\nfunction main() -> void { %sT t = new T(); t.go(); Keep.t = t; echo(\"e\"); }" % pad, [("T.q", [h])], 1))
        progs.append(Prog("alive-at-end-cycle:%s" % h, clsT3 + "function main() -> void { %sT a = new T(); T b = new T(); a.other = b; b.other = a; a.go(); b.go(); echo(\"e\"); }" % pad, [("T.q", [h]), ("T.q", [h])], 1))
        subT = "class TSub extends T { public constructor() -> TSub { super(); } }\n"
        progs.append(Prog("alive-at-end-cycle-of-subclass:%s" % h, clsT3 + subT + "function main() -> void { %sTSub a = new TSub(); TSub b = new TSub(); a.other = b; b.other = a; a.go(); b.go(); echo(\"e\"); }" % pad,
                          [("T.q", [h]), ("T.q", [h])], 1, aliases={"TSub.q": "T.q"}))
        progs.append(Prog("dropped-cycle-of-subclass:%s" % h, clsT3 + subT + "function burst() -> void { for (int i = 0; i < 20; i = i + 1) { T t = new T(); } }\nfunction mkc() -> void { TSub a = new TSub(); TSub b = new TSub(); a.other = b; b.other = a; a.go(); b.go(); }\nfunction main() -> void { %smkc(); echo(\"e\"); }" % pad,
                          [("T.q", [h]), ("T.q", [h])], 1, aliases={"TSub.q": "T.q"}))
        sbody, _ = hist_stmts("S.q", h, prep)
        progs.append(Prog("tracked-static-field:%s" % h, "static class S { @tracked public static qubit q; }\nfunction main() -> void { %s%s echo(\"e\"); }" % (pad, sbody), [("S.q", [h])], 1))
    # (the base's field is left untouched: which of the two a base METHOD's 'this.q' means is not documented, so only the subclass's own
    # field is operated on, from main, through a variable of the subclass type)
    for h1 in HIST:
        fb1, _ = hist_stmts("t.q", h1, prep)
        two = ("class TB { @tracked public qubit q; public constructor() -> TB = default; }\n"
               "class TS extends TB { @tracked public qubit q; public constructor() -> TS { super(); } }\n")
        progs.append(Prog("same-name-field-in-subclass:%s" % h1, two + "function main() -> void { %sTS t = new TS(); %s t = null; echo(\"e\"); }" % (pad, fb1), [("TB.q", ["none"]), ("TS.q", [h1])], 1))
    for h in HIST:
        gb, _ = hist_stmts("this.q", h, prep)
        gen = "class Bx<T> { @tracked public qubit q; public T v; public constructor(T v) -> Bx<T> { this.v = v; } public function go() -> void { %s } }\n" % gb
        progs.append(Prog("generic-two-instantiations:%s" % h, gen + "function main() -> void { %sBx<int> a = new Bx<int>(1); a.go(); a = null; Bx<float> b = new Bx<float>(1.5f); b.go(); b = null; echo(\"e\"); }" % pad,
                          [("Bx.q", [h]), ("Bx.q", [h])], 1, aliases={"Bx<int>.q": "Bx.q", "Bx<float>.q": "Bx.q"}))
    progs.append(Prog("array-measure-all", "function main() -> void { %s@tracked qubit[2] r; %s(r[0]); %s(r[1]); measure r; }" % (pad, prep or "z", prep or "z"), [("qubit[] r", ["M", "M"])]))
    progs.append(Prog("untracked", "function main() -> void { qubit q; measure q; echo(\"e\"); }", [], 1))
    return progs


def _eval_one(p):
    runs, capped = qcheck.dfs_outcomes(p.src, gc="own", max_runs=128, want="ops,tracked")
    bad = []
    for script, r in runs:
        if r.crash or r.status() != "ok":
            bad.append((script, "status %s: %s" % (r.status(), (r.rec or {}).get("msg", r["fd2"][:300]))))
            continue
        rec = r.rec
        outs = [o[4] for o in rec["ops"] if o[0] == "measure"]
        try:
            exp = p.expected(outs)
        except StopIteration:
            bad.append((script, "the program performed %d measurements, the model expects %d" % (len(outs), p.nmeasure())))
            continue
        if p.canon(rec["tracked"]) != exp:
            bad.append((script, "tracked counts of one execution are %r, expected %r (measurement outcomes %s)" % (rec["tracked"], exp, outs)))
    return p.name, p.src, bad, len(runs), capped


TABLE_RE = re.compile(r"^(\S+)\s*\|\s*(\d+)\s*\|\s*([0-9.]+)\s*$")


def parse_tables(stdout):
    """-> (shots or None, {var: {outcome: (count, prob)}}, other lines)"""
    lines = stdout.split("\n")
    shots = None
    tables = {}
    other = []
    i = 0
    cur = None
    while i < len(lines):
        ln = lines[i]
        m = re.match(r"^Shots: (\d+)$", ln)
        if m:
            shots = int(m.group(1))
        elif ln.startswith("Backend:") or ln.startswith("Elapsed:") or ln.startswith("outcome") or re.match(r"^-+\+-+\+-+$", ln) or ln == "":
            if ln == "":
                cur = None
        elif re.match(r"^(qubit(\[\])? \S+|\S+\.\S+)$", ln) and i + 1 < len(lines) and lines[i + 1].startswith("outcome"):
            cur = ln
            tables[cur] = {}
        else:
            m = TABLE_RE.match(ln)
            if m and cur is not None:
                tables[cur][m.group(1)] = (int(m.group(2)), float(m.group(3)))
            else:
                other.append(ln)
        i += 1
    return shots, tables, other


def _cli_one(item):
    p, mode, nflag, nann, echo = item
    src = p.src
    if nann is not None:
        src = src.replace("function main()", "@shots(%d)\nfunction main()" % nann)
    argv = ["bloch"]
    if nflag is not None:
        argv.append("--shots=%d" % nflag)
    if echo is not None:
        argv.append("--echo=%s" % echo)
    argv.append("main.bloch")
    r = vdrv.run_job({"id": "c", "kind": "cli", "opts": {"hook_draws": 1, "gc": "own"}, "argv": argv, "files": {"main.bloch": src}})
    rec = r.rec
    desc = "%s  [%s]" % (" ".join(argv), p.name)
    if r.crash or rec is None:
        return desc, src, ["CLI died: %s %s" % (r.crash, r["fd2"][:300])]
    if rec["rc"] != 0:
        return desc, src, ["CLI exit %s: %s" % (rec["rc"], rec["stderr"][-300:])]
    bad = []
    neff = nann if nann is not None else (nflag if nflag is not None else None)
    shots, tables, other = parse_tables(rec["stdout"])
    tables = p.canon(tables)
    # every draw takes the default branch: outcome 0 where possible, so the model's outcomes are all 0 unless certain 1
    per_shot = p.expected([0] * p.nmeasure()) if p.prep_free_zero else None
    if neff is None:
        if shots is not None or tables:
            bad.append("a table was printed although no shot count was given")
        n_runs = 1
    else:
        n_runs = neff
        if shots != neff:
            bad.append("table header says Shots: %s, effective shot count is %d (flag %s, annotation %s)" % (shots, neff, nflag, nann))
        if per_shot is not None:
            for var, outs in per_shot.items():
                tab = tables.get(var)
                if tab is None:
                    bad.append("no table for tracked variable %r (tables: %s)" % (var, list(tables)))
                    continue
                total = sum(c for c, _ in tab.values())
                exits = sum(outs.values())
                if total != neff * exits:
                    bad.append("counts of %r sum to %d, expected shots x exits per shot = %d x %d" % (var, total, neff, exits))
                for o, c in outs.items():
                    if tab.get(o, (0, 0))[0] != c * neff:
                        bad.append("%r outcome %r has count %s, expected %d" % (var, o, tab.get(o), c * neff))
                psum = 0.0
                for o, (c, pr) in tab.items():
                    psum += pr
                    if not (0 <= pr <= 1.0000001):
                        bad.append("%r outcome %r: printed probability %s is outside [0,1]" % (var, o, pr))
                    if total and abs(pr - c / total) > 0.00051:
                        bad.append("%r outcome %r: printed probability %s, count/total = %d/%d = %.4f" % (var, o, pr, c, total, c / total))
                if tab and abs(psum - 1.0) > 0.0005 * len(tab) + 1e-9:
                    bad.append("probabilities of %r sum to %.4f" % (var, psum))
            for var in tables:
                if var not in per_shot:
                    bad.append("table for %r although the model has no such tracked variable" % var)
    # echo policy
    if p.echoes:
        necho = sum(1 for ln in other if ln in ("e", "f"))
        if echo == "all":
            want = p.echoes * n_runs
        elif echo in (None, "auto"):
            want = p.echoes if n_runs == 1 else 0
        elif echo == "none":
            want = 0 if n_runs > 1 else None
        if want is not None and necho != want:
            bad.append("echo lines printed: %d, expected %d (echo option %s, %d shot(s), %d echo statement(s) per shot)" % (necho, want, echo, n_runs, p.echoes))
    return desc, src, bad


def _cli_raw(src, args):
    r = vdrv.run_job({"id": "c", "kind": "cli", "opts": {"hook_draws": 1, "gc": "own"}, "argv": ["bloch"] + args + ["main.bloch"], "files": {"main.bloch": src}})
    return r


def cli_edges():
    """(hunt C17 d1, d10) a shot count of zero means the same whether it comes from the flag or from the annotation; an --echo value the
    documentation does not list is either refused or treated like the default - it never silently suppresses a single shot's echo.
    -> list of (key, description, source)"""
    bad = []
    src = "function main() -> void { qubit pad; @tracked qubit q; measure q; echo(\"e\"); }"
    n = 0
    for cnt in (0,):
        a = _cli_raw(src, ["--shots=%d" % cnt])
        b = _cli_raw(src.replace("function main()", "@shots(%d)\nfunction main()" % cnt), [])
        n += 2
        if a.crash or b.crash or a.rec is None or b.rec is None:
            bad.append(("cli-edge:shots-zero:died", "CLI died with a shot count of %d: %s %s" % (cnt, a.crash, b.crash), src))
        elif (a.rec["rc"] == 0) != (b.rec["rc"] == 0):
            bad.append(("cli-edge:shots-zero:flag-and-annotation-disagree", "--shots=%d exits %d but @shots(%d) exits %d: stdout %r" % (cnt, a.rec["rc"], cnt, b.rec["rc"], b.rec["stdout"][:200]), src))
    # (second hunt, C09/d2) the order of the tables of variables that were NOT renamed does not change when another one is renamed
    def table_order(names):
        body = " ".join("@tracked qubit %s; measure %s;" % (nm, nm) for nm in names)
        r = _cli_raw("function main() -> void { qubit pad; %s echo(\"e\"); }" % body, ["--shots=1"])
        if r.crash or r.rec is None or r.rec["rc"] != 0:
            return None
        return [ln.split(" ", 1)[1] for ln in r.rec["stdout"].split("\n") if ln.startswith("qubit ")]
    base_names = ["a", "b", "c", "e"]
    o0 = table_order(base_names)
    n += 1
    for new in ("l", "zz", "A0", "d", "q9", "first"):
        o1 = table_order(base_names[:3] + [new])
        n += 1
        if o0 is None or o1 is None:
            bad.append(("cli-edge:table-order:died", "the CLI failed on four tracked qubits", "names %s / %s" % (base_names, new)))
            break
        if [x for x in o0 if x != "e"] != [x for x in o1 if x != new]:
            bad.append(("cli-edge:table-order:renaming-reshuffles-other-tables", "tables print as %s; with 'e' renamed to %r they print as %s: the tables of a, b, c changed places" % (o0, new, o1), "four tracked qubits a, b, c, e"))
            break
    for val in ("foo", "ALL", "", "al"):
        r = _cli_raw(src, ["--echo=%s" % val])
        n += 1
        if r.crash or r.rec is None:
            bad.append(("cli-edge:echo-value:died", "CLI died on --echo=%s: %s" % (val, r.crash), src))
            continue
        if r.rec["rc"] != 0:
            continue
        lines = [ln for ln in r.rec["stdout"].split("\n") if ln == "e"]
        if len(lines) != 1:
            bad.append(("cli-edge:echo-value:single-shot-echo-suppressed", "a single shot run with --echo=%s exits 0 and prints %d echo line(s) instead of 1" % (val, len(lines)), src))
    return bad, n


def main(tier):
    ck = vcheck.Check("C17", "exploration", tier)
    # evaluator level: superposed preparations, every outcome history
    progs_h = programs("h")
    nruns = 0
    for name, src, bad, n, capped in vdrv.pmap(_eval_one, progs_h, chunksize=2):
        nruns += n
        if capped:
            ck.cap("outcome DFS capped for " + name)
        for script, pbm in bad:
            ck.violation("eval:%s:%s" % (name.split(":")[0], " ".join(pbm.split(" ")[:5])), "%s\ndraws=%s\nprogram (%s):\n%s" % (pbm, list(script), name, src),
                         {"tool": "vdrv", "job": {"kind": "run", "opts": {"want": "ops,tracked", "gc": "own", "draws": ",".join(map(str, script)), "warn": 0}, "blobs": {"src": src}}})
    # CLI level: deterministic preparations (no prep -> every measurement gives 0; x -> 1)
    cli_items = []
    for prep in ("", "x"):
        ps = programs(prep)
        for p in ps:
            p.prep_free_zero = True
            if prep == "x":
                # all measurements return 1: wrap expected()
                base = p.expected
                p.expected = (lambda b: (lambda outs: b([1] * len(outs))))(base)
        ps = [p for p in ps if not p.name.startswith("generic-two-instantiations")]    # two table names are acceptable there; compared at evaluator level only
        sel = ps if tier == "thorough" else [p for p in ps if p.name.split(":")[0] in ("main", "for2", "helper2", "field-overwrite", "field-null", "two-sites", "array-measure-all", "block", "untracked", "field-reuse", "local-after-release", "borrow-array-after", "borrow-qubit", "stale-handle-then-tracked", "stale-handle-then-tracked-field", "stale-handle-out-of-scope-then-tracked", "stale-handle-block-then-tracked-loop", "field-owned-by-dropped-cycle", "inherited-field", "multi-declaration", "alive-at-end-static-held", "measured-by-later-declared-destructor", "measured-by-earlier-declared-destructor", "alive-at-end-cycle", "alive-at-end-cycle-of-subclass", "dropped-cycle-of-subclass", "tracked-static-field", "same-name-field-in-subclass") or p.name.startswith("array:M")]
        modes = [("none", None, None)] + [("flag", n, None) for n in (1, 2, 3)] + [("ann", None, n) for n in (1, 2, 3)] + [("both-eq", 2, 2), ("both-diff", 3, 2), ("both-diff", 1, 3), ("both-diff", 2, 1)]
        echos = [None, "auto", "all", "none"]
        for p in sel:
            for (mode, nf, na) in modes:
                for e in echos:
                    if tier != "thorough" and e in ("auto", "none") and not (p.echoes and p.name.split(":")[1:] in (["M"], [])):
                        continue
                    cli_items.append((p, mode, nf, na, e))
    ncli = 0
    for desc, src, bad in vdrv.pmap(_cli_one, cli_items, chunksize=8):
        ncli += 1
        for pbm in bad:
            ck.violation("cli:" + " ".join(re.sub(r"[0-9.]+", "#", pbm).split(" ")[:7]), "%s\ncommand: %s\nprogram:\n%s" % (pbm, desc, src), {"tool": "text", "case": desc + "\n" + src})
    ebad, nedge = cli_edges()
    ncli += nedge
    for key, what, esrc in ebad:
        ck.violation(key, "%s\nprogram:\n%s" % (what, esrc), {"tool": "text", "case": what + "\n" + esrc})
    ck.sample({"program": progs_h[5].src, "model_units": progs_h[5].units})
    ck.sample({"program": progs_h[-3].src, "model_units": progs_h[-3].units})
    ck.assumptions += ["probabilities are printed with three decimals (+-0.0005); row order, timing line, warnings are not compared",
                       "echo: --echo=all prints every shot, absent/auto prints iff one shot is run, none prints nothing when several shots run (nothing demanded for none with one shot)"]
    ck.finish({"evaluations": nruns + ncli, "distinct_nontrivial": len(progs_h) + len(set((i[0].name, i[1], i[2], i[3], i[4]) for i in cli_items)),
               "rule": "every tracked placement x element history x outcome history at evaluator level; every selected program x shot-count mode x echo mode through the real CLI; distinct = distinct (program, mode) cases",
               "eval_programs": len(progs_h), "eval_runs": nruns, "cli_runs": ncli})
