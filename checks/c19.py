"""C19 - import resolution. Every directory tree of a bounded family is built on tmpfs and loaded with the real ModuleLoader;
a reference model written from docs/language/semantics.md predicts the chosen files, load-once, dependency-first order of the
merged program, and the Semantic diagnostics (cycle, missing, package mismatch, main count)."""
import itertools, os, posixpath
import vcheck, vdrv


class Mod:
    def __init__(self, pkg, imports=(), fn=None, main=False, late_pkg=False):
        self.late_pkg = late_pkg  # the package line is written AFTER the imports (grammar: [packageDecl] {importDecl} ...): a header error
        self.pkg = pkg            # list of parts or None (no package line)
        self.imports = list(imports)  # list of (parts, wildcard)
        self.fn = fn              # unique marker function name
        self.main = main

    def text(self):
        s = ""
        if self.pkg is not None and not self.late_pkg:
            s += "package %s;\n" % ".".join(self.pkg)
        for parts, wild in self.imports:
            s += "import %s%s;\n" % (".".join(parts), ".*" if wild else "")
        if self.pkg is not None and self.late_pkg:
            s += "package %s;\n" % ".".join(self.pkg)
        if self.fn:
            s += "function %s() -> int { return 1; }\n" % self.fn
        if self.main:
            s += "function main() -> void { }\n"
        return s


class SemErr(Exception):
    pass


def model_load(tree, entry, search, cwd, symlinks=None):
    """tree: {relative path: Mod}; paths are '/'-separated relative to the scratch root. Returns ('ok', [function names in
    merged order]) or ('semantic', reason)."""
    symlinks = symlinks or {}

    def canon(p):
        p = posixpath.normpath(p)
        # resolve directory symlinks (only whole leading components are linked in our trees)
        changed = True
        while changed:
            changed = False
            for link, target in symlinks.items():
                if p == link or p.startswith(link + "/"):
                    p = posixpath.normpath(posixpath.join(posixpath.dirname(link), target) + p[len(link):])
                    changed = True
        return p

    files = {canon(p): m for p, m in tree.items()}
    dirs = set()
    for p in files:
        d = posixpath.dirname(p)
        while d:
            dirs.add(d)
            d = posixpath.dirname(d)
    dirs.add("")

    def bases(parts, fromdir):
        if parts and parts[0] == "bloch":
            return list(search) + [fromdir, cwd]
        return [fromdir] + list(search) + [cwd]

    def resolve_file(parts, fromdir):
        rel = "/".join(parts) + ".bloch"
        for b in bases(parts, fromdir):
            c = canon(posixpath.join(b, rel))
            if c in files:
                return c
        return None

    def resolve_pkg(parts, fromdir):
        rel = "/".join(parts)
        for b in bases(parts, fromdir):
            c = canon(posixpath.join(b, rel))
            if c in dirs or c == "":
                mods = sorted(f for f in files if posixpath.dirname(f) == c and f.endswith(".bloch"))
                if mods:
                    return mods
        return []

    cache, order, stack = {}, [], []

    def load(path):
        c = canon(path)
        if c in stack:
            raise SemErr("cycle")
        if c in cache:
            return
        if c not in files:
            raise SemErr("entry missing")
        stack.append(c)
        m = files[c]
        if m.late_pkg and m.pkg is not None and m.imports:
            raise SemErr("package after import")     # a malformed header: the file is not a module at all (Parse diagnostic)
        parent = posixpath.dirname(c)
        for parts, wild in m.imports:
            if wild:
                targets = resolve_pkg(parts, parent)
                if not targets:
                    raise SemErr("wildcard not found")
                for t in targets:
                    if t == c:
                        continue
                    load(t)
                    if (files[t].pkg or []) != list(parts):
                        raise SemErr("package mismatch")
            else:
                if not parts:
                    raise SemErr("no symbol")
                t = resolve_file(parts, parent)
                if t is None:
                    raise SemErr("not found")
                load(t)
                if (files[t].pkg or []) != list(parts[:-1]):
                    raise SemErr("package mismatch")
        cache[c] = m
        order.append(c)
        stack.pop()
    try:
        # implicit root Object when resolvable
        obj = resolve_file(["bloch", "lang", "Object"], posixpath.dirname(canon(entry)))
        if obj:
            load(obj)
            if (files[obj].pkg or []) != ["bloch", "lang"]:
                raise SemErr("package mismatch")        # the implicit import is held to the rule of a written one
        load(entry)
    except SemErr as e:
        return ("semantic", str(e))
    mains = sum(1 for c in order if files[c].main)
    if mains != 1:
        return ("semantic", "main count %d" % mains)
    return ("ok", [files[c].fn for c in order if files[c].fn])


# ---- families of trees ----------------------------------------------------------------------------------------------------
def fam_resolution():
    """(i) one import of X; X present in every subset of the four roots."""
    roots = ["app", "sp1", "sp2", "cwd"]
    for present in itertools.product([0, 1], repeat=4):
        for prefix in ("p", "bloch"):
            for wild in (False, True):
                for pk in ("right", "wrong", "missing"):
                    for entry_abs in (False, True):
                        tree = {}
                        for r, on in zip(roots, present):
                            if on:
                                pkg = {"right": [prefix], "wrong": ["q"], "missing": None}[pk]
                                tree["%s/%s/X.bloch" % (r, prefix)] = Mod(pkg, fn="x_from_" + r)
                        imp = ([prefix], True) if wild else ([prefix, "X"], False)
                        tree["app/main.bloch"] = Mod(None, [imp], fn="entry_fn", main=True)
                        yield ("resolution", tree, "app/main.bloch", ["sp1", "sp2"], "cwd", entry_abs, {})


def fam_graphs(nmods, both_orders=True):
    """(ii) every import digraph on entry + nmods modules (self-imports included)."""
    names = ["main"] + ["M%d" % i for i in range(1, nmods + 1)]
    n = len(names)
    pairs = [(i, j) for i in range(n) for j in range(n) if j != 0]   # nobody imports the entry file (it is not in package g)
    for bits in range(1 << len(pairs)):
        edges = {i: [] for i in range(n)}
        for k, (i, j) in enumerate(pairs):
            if (bits >> k) & 1:
                edges[i].append(j)
        for order in ((False, True) if both_orders else (False,)):
            tree = {}
            for i, nm in enumerate(names):
                targets = sorted(edges[i], reverse=order)
                imps = [(["g", names[j]], False) for j in targets]
                if i == 0:
                    tree["main.bloch"] = Mod(None, imps, fn="f_main", main=True)
                else:
                    tree["g/%s.bloch" % nm] = Mod(["g"], imps, fn="f_" + nm)
            yield ("graph", tree, "main.bloch", ["."], ".", False, {})


def fam_graphs_with_wildcards(nmods):
    """every symbol-import digraph on entry + nmods modules x every subset of files that additionally start with 'import g.*;'
    (the wildcard names a directory that contains the importer itself and every other module)"""
    names = ["main"] + ["M%d" % i for i in range(1, nmods + 1)]
    n = len(names)
    pairs = [(i, j) for i in range(n) for j in range(n) if j != 0]
    for bits in range(1 << len(pairs)):
        edges = {i: [] for i in range(n)}
        for k, (i, j) in enumerate(pairs):
            if (bits >> k) & 1:
                edges[i].append(j)
        for wild in range(1, 1 << n):
            tree = {}
            for i, nm in enumerate(names):
                imps = [(["g", names[j]], False) for j in sorted(edges[i])]
                if (wild >> i) & 1:
                    imps = [(["g"], True)] + imps
                if i == 0:
                    tree["main.bloch"] = Mod(None, imps, fn="f_main", main=True)
                else:
                    tree["g/%s.bloch" % nm] = Mod(["g"], imps, fn="f_" + nm)
            yield ("graph+wild", tree, "main.bloch", ["."], ".", False, {})


def fam_wild_graphs():
    """wildcard imports of a directory that contains the importer, chains through wildcards"""
    for m1_imps in ([], [(["g"], True)], [(["g", "M2"], False)], [(["g"], True), (["g", "M2"], False)]):
        for m2_imps in ([], [(["g"], True)], [(["g", "M1"], False)]):
            for main_imps in ([(["g"], True)], [(["g", "M1"], False)], [(["g"], True), (["g", "M1"], False)], [(["g", "M2"], False), (["g"], True)]):
                tree = {"main.bloch": Mod(None, main_imps, fn="f_main", main=True), "g/M1.bloch": Mod(["g"], m1_imps, fn="f_M1"), "g/M2.bloch": Mod(["g"], m2_imps, fn="f_M2"),
                        "g/notes.txt": Mod(None)}
                yield ("wildgraph", tree, "main.bloch", ["."], ".", False, {})


def fam_main_count():
    for ms in itertools.product([0, 1], repeat=3):
        tree = {"main.bloch": Mod(None, [(["g", "M1"], False), (["g", "M2"], False)], fn="f_main", main=bool(ms[0])), "g/M1.bloch": Mod(["g"], [], fn="f_M1", main=bool(ms[1])),
                "g/M2.bloch": Mod(["g"], [], fn="f_M2", main=bool(ms[2]))}
        yield ("mains", tree, "main.bloch", [], ".", False, {})


def fam_alias():
    """one file reachable under two qualified names, one of them not its package; both import orders; diamonds through
    different roots; symlinked search path; './' segments"""
    for order in (0, 1):
        imps = [(["a", "b", "C"], False), (["a", "D"], False)]
        if order:
            imps.reverse()
        tree = {"main.bloch": Mod(None, imps, fn="f_main", main=True), "a/D.bloch": Mod(["a"], [(["b", "C"], False)], fn="f_D"), "a/b/C.bloch": Mod(["a", "b"], [], fn="f_C")}
        yield ("alias", tree, "main.bloch", [], ".", False, {})
        # the same through a wildcard import: a/D.bloch says 'import b.*;' which finds a/b/ (package a.b, not b)
        treew = {"main.bloch": Mod(None, imps, fn="f_main", main=True), "a/D.bloch": Mod(["a"], [(["b"], True)], fn="f_D"), "a/b/C.bloch": Mod(["a", "b"], [], fn="f_C"),
                 "a/b/E.bloch": Mod(["a", "b"], [], fn="f_E")}
        yield ("alias-wild", treew, "main.bloch", [], ".", False, {})
        treew1 = dict(treew)
        del treew1["a/b/E.bloch"]
        yield ("alias-wild1", treew1, "main.bloch", [], ".", False, {})
        # wildcard first, symbol under the wrong name second
        treew2 = {"main.bloch": Mod(None, [(["a", "b"], True), (["a", "D"], False)] if not order else [(["a", "D"], False), (["a", "b"], True)], fn="f_main", main=True),
                  "a/D.bloch": Mod(["a"], [(["b", "C"], False)], fn="f_D"), "a/b/C.bloch": Mod(["a", "b"], [], fn="f_C")}
        yield ("alias-wild2", treew2, "main.bloch", [], ".", False, {})
        # the same file named correctly on both arms (diamond): loaded once
        tree2 = {"main.bloch": Mod(None, imps, fn="f_main", main=True), "a/D.bloch": Mod(["a"], [(["a", "b", "C"], False)], fn="f_D"), "a/b/C.bloch": Mod(["a", "b"], [], fn="f_C")}
        for search in (["."], ["./."], ["sub/.."]):
            t3 = dict(tree2)
            if search == ["sub/.."]:
                t3["sub/keep.txt"] = Mod(None)
            yield ("diamond", t3, "main.bloch", search, ".", False, {})
        # symlinked search path: lnk -> real ; one arm through lnk, the other through real
        tree4 = {"app/main.bloch": Mod(None, [(["p", "X"], False), (["p", "Y"], False)] if not order else [(["p", "Y"], False), (["p", "X"], False)], fn="f_main", main=True),
                 "real/p/X.bloch": Mod(["p"], [], fn="f_X"), "real/p/Y.bloch": Mod(["p"], [(["p", "X"], False)], fn="f_Y")}
        yield ("symlink", tree4, "app/main.bloch", ["lnk", "real"], "app", False, {"lnk": "real"})
    # different files behind the same qualified name in two roots: the importer-relative one wins for each importer
    tree5 = {"app/main.bloch": Mod(None, [(["p", "X"], False), (["lib", "L"], False)], fn="f_main", main=True), "app/p/X.bloch": Mod(["p"], [], fn="x_app"),
             "sp1/p/X.bloch": Mod(["p"], [], fn="x_sp1"), "sp1/lib/L.bloch": Mod(["lib"], [(["p", "X"], False)], fn="f_L")}
    yield ("shadow", tree5, "app/main.bloch", ["sp1"], "app", False, {})


def fam_missing():
    yield ("missing", {"main.bloch": Mod(None, [(["p", "X"], False)], fn="f_main", main=True)}, "main.bloch", [], ".", False, {})
    yield ("dir-for-file", {"main.bloch": Mod(None, [(["p", "X"], False)], fn="f_main", main=True), "p/X.bloch/keep.txt": Mod(None)}, "main.bloch", [], ".", False, {})
    yield ("empty-pkg", {"main.bloch": Mod(None, [(["p"], True)], fn="f_main", main=True), "p/readme.txt": Mod(None)}, "main.bloch", [], ".", False, {})
    yield ("default-pkg", {"main.bloch": Mod(None, [(["X"], False)], fn="f_main", main=True), "X.bloch": Mod(None, [], fn="f_X")}, "main.bloch", [], ".", False, {})
    yield ("default-pkg-wrong", {"main.bloch": Mod(None, [(["X"], False)], fn="f_main", main=True), "X.bloch": Mod(["z"], [], fn="f_X")}, "main.bloch", [], ".", False, {})
    yield ("self-import", {"g/main.bloch": Mod(["g"], [(["g", "main"], False)], fn="f_main", main=True)}, "g/main.bloch", ["."], ".", False, {})
    yield ("object-root", {"main.bloch": Mod(None, [], fn="f_main", main=True), "bloch/lang/Object.bloch": Mod(["bloch", "lang"], [], fn="f_obj")}, "main.bloch", [], ".", False, {})
    # (hunt C19/d1) a package line written after the imports, in the entry file and in an imported module whose package check would
    # otherwise pass
    yield ("late-package-entry", {"g/main.bloch": Mod(["g"], [(["g", "U"], False)], fn="f_main", main=True, late_pkg=True), "g/U.bloch": Mod(["g"], [], fn="f_U")}, "g/main.bloch", ["."], ".", False, {})
    yield ("late-package-imported", {"main.bloch": Mod(None, [(["g", "U"], False)], fn="f_main", main=True), "g/U.bloch": Mod(["g"], [(["g", "V"], False)], fn="f_U", late_pkg=True), "g/V.bloch": Mod(["g"], [], fn="f_V")}, "main.bloch", [], ".", False, {})
    yield ("late-package-wildcard", {"main.bloch": Mod(None, [(["g"], True)], fn="f_main", main=True), "g/U.bloch": Mod(["g"], [(["g", "V"], False)], fn="f_U", late_pkg=True), "g/V.bloch": Mod(["g"], [], fn="f_V")}, "main.bloch", [], ".", False, {})
    # (hunt C19/d5) the implicitly loaded root Object with a wrong / missing package line, alone and next to an explicit import of it
    for pk in (["wrong", "pkg"], None, ["bloch"], ["bloch", "lang", "x"]):
        tag = ".".join(pk) if pk else "none"
        yield ("object-root-wrong-package:" + tag, {"main.bloch": Mod(None, [], fn="f_main", main=True), "sp/bloch/lang/Object.bloch": Mod(pk, [], fn="f_obj")}, "main.bloch", ["sp"], ".", False, {})
        yield ("object-root-wrong-package-explicit:" + tag, {"main.bloch": Mod(None, [(["bloch", "lang", "Object"], False)], fn="f_main", main=True), "sp/bloch/lang/Object.bloch": Mod(pk, [], fn="f_obj")}, "main.bloch", ["sp"], ".", False, {})
        yield ("object-root-wrong-package-local:" + tag, {"main.bloch": Mod(None, [], fn="f_main", main=True), "bloch/lang/Object.bloch": Mod(pk, [], fn="f_obj")}, "main.bloch", [], ".", False, {})
    yield ("object-root-sp", {"app/main.bloch": Mod(None, [], fn="f_main", main=True), "sp/bloch/lang/Object.bloch": Mod(["bloch", "lang"], [], fn="f_obj_sp"),
                              "app/bloch/lang/Object.bloch": Mod(["bloch", "lang"], [], fn="f_obj_app")}, "app/main.bloch", ["sp"], "app", False, {})


def _one(case):
    fam, tree, entry, search, cwd, entry_abs, symlinks = case
    files = {}
    for p, m in tree.items():
        files[p] = m.text() if p.endswith(".bloch") else "x"
    mk = sorted(set([cwd] + list(search)) - set(symlinks))
    opts = {"entry": entry, "search": ",".join(search), "cwd": cwd, "mkdirs": ",".join(d for d in mk if d not in (".", "./.", "sub/.."))}
    if entry_abs:
        opts["entry_abs"] = 1
    else:
        # entry path is given relative to the working directory
        opts["entry"] = posixpath.relpath(entry, posixpath.normpath(cwd))
    r = vdrv.run_job({"id": "l", "kind": "load", "opts": opts, "files": files, "symlinks": symlinks})
    exp = model_load(tree, entry, [posixpath.normpath(s) for s in search], posixpath.normpath(cwd) if cwd != "." else "", symlinks)
    if exp[0] == "ok" and False:
        pass
    rec = r.rec
    desc = "family %s: entry=%s search=%s cwd=%s%s\n%s" % (fam, entry, search, cwd, (" symlinks=%s" % symlinks) if symlinks else "", "\n".join("--- %s\n%s" % (p, t) for p, t in sorted(files.items())))
    if r.crash or rec is None:
        return fam, ["loader died: %s %s" % (r.crash, r["fd2"][:400])], desc, None, exp[0]
    probs = []
    st = rec.get("status")
    if exp[0] == "ok":
        if st != "ok":
            probs.append("expected the program to load (merged order %s) but the loader stopped with %s: %s" % (exp[1], st, rec.get("msg")))
        elif rec["functions"] != exp[1] + ["main"] and [f for f in rec["functions"] if f != "main"] != exp[1]:
            probs.append("merged program lists functions %s, expected dependency-first load-once order %s" % ([f for f in rec["functions"] if f != "main"], exp[1]))
        elif rec.get("stack"):
            probs.append("loader finished with a non-empty import stack %s" % rec["stack"])
    else:
        if st == "ok":
            probs.append("expected a Semantic diagnostic (%s) but the program was accepted with functions %s" % (exp[1], rec.get("functions")))
        elif st != "semantic" and not (exp[1] == "package after import" and st == "parse"):
            probs.append("expected a Semantic diagnostic (%s) but got category %s: %s" % (exp[1], st, rec.get("msg")))
    state = (tuple(rec.get("load_order", [])), tuple(rec.get("cache", [])), tuple(rec.get("stack", [])))
    return fam, probs, desc, state, exp[0] + ":" + (exp[1] if exp[0] != "ok" else "")


def model_root(p):
    return p


def main(tier):
    ck = vcheck.Check("C19", "model_checking", tier)
    cases = list(fam_resolution()) + list(fam_wild_graphs()) + list(fam_main_count()) + list(fam_alias()) + list(fam_missing())
    cases += list(fam_graphs(3, True))
    cases += list(fam_graphs_with_wildcards(3 if tier == "thorough" else 2))
    states = set()
    outcomes = {}
    n = 0
    for fam, probs, desc, state, expcls in vdrv.pmap(_one, cases, chunksize=16):
        n += 1
        if state is not None:
            states.add(state)
        outcomes[expcls] = outcomes.get(expcls, 0) + 1
        for p in probs:
            ck.violation("%s:%s" % (fam, " ".join(p.split(" ")[:6])), p + "\n" + desc, {"tool": "text", "case": desc})
        if n % 911 == 1:
            ck.sample({"family": fam, "tree": desc[:700]})
    ck.assumptions += ["'dependencies precede their importers' is observed as the order of uniquely named marker functions in the merged program",
                       "a wildcard import skips candidate directories that contain no .bloch file (the documentation does not say; such trees expect 'not found' only when no root has one)"]
    ck.finish({"states": len(states), "transitions": n, "traces_validated_against_impl": n, "trees": n, "expected_outcome_classes": outcomes,
               "families": sorted(set(c[0] for c in cases))}, exhaustive=True)
