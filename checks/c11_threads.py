"""C11 thread passes: (c) free-running ThreadSanitizer/AddressSanitizer runs with the real 50 ms timer thread;
(b) the cooperative-scheduler exploration (gcthread_mc), when built."""
import glob, json, os, subprocess
import vbuild, vcheck

PROGS = sorted(glob.glob(os.path.join(vcheck.VERIF, "harness", "thread_progs", "*.bloch")))
EXPECT = {"long_alloc.bloch": ("ok", "29997\n", True), "error_while_running.bloch": ("runtime", "", True), "short.bloch": ("ok", "1\n", True), "no_classes.bloch": ("ok", "45\n", False),
          "destructors.bloch": ("ok", None, True)}


def free_running(ck, variant):
    exe = vbuild.ensure(variant, ["gcthread_free"])["gcthread_free"]
    n = 0
    for rep in range(2):
        p = subprocess.run([exe] + PROGS, stdout=subprocess.PIPE, stderr=subprocess.PIPE, timeout=600)
        err = p.stderr.decode(errors="replace")
        lines = [json.loads(l) for l in p.stdout.decode(errors="replace").split("\n") if l.startswith("{")]
        n += len(lines)
        if p.returncode != 0:
            kind = "data race" if "data race" in err else ("heap-use-after-free" if "use-after-free" in err else "rc=%d" % p.returncode)
            last = lines[-1]["file"] if lines else "(first program)"
            ck.violation("free-running:%s:%s" % (variant, kind), "%s build with the real timer thread reported %s after/while running %s (completed: %s)\n%s" % (
                variant, kind, os.path.basename(PROGS[len(lines)] if len(lines) < len(PROGS) else last), [os.path.basename(l["file"]) for l in lines], err[-2500:]),
                {"tool": "cmd", "argv": [exe] + PROGS})
            return n
        for l in lines:
            exp = EXPECT.get(os.path.basename(l["file"]))
            if exp is None:
                continue
            if l["status"] != exp[0] or (exp[1] is not None and l["stdout"] != exp[1]):
                ck.violation("free-running:%s:output:%s" % (variant, os.path.basename(l["file"])), "with the real timer thread %s gave %s %r, expected %s %r" % (l["file"], l["status"], l["stdout"][:80], exp[0], exp[1]),
                             {"tool": "cmd", "argv": [exe, l["file"]]})
            if l["timer_started"] != exp[2]:
                ck.violation("free-running:%s:timer:%s" % (variant, os.path.basename(l["file"])), "timer thread started=%s for %s, expected %s" % (l["timer_started"], l["file"], exp[2]), {"tool": "cmd", "argv": [exe, l["file"]]})
            if l["status"] == "ok" and l["joinable_after_execute"]:
                ck.violation("free-running:%s:not-joined:%s" % (variant, os.path.basename(l["file"])), "after a normal run the timer thread is still joinable (not stopped) for %s" % l["file"], {"tool": "cmd", "argv": [exe, l["file"]]})
    return n


def run(ck, tier):
    out = {}
    out["free_running_tsan_runs"] = free_running(ck, "tsan")
    out["free_running_asan_runs"] = free_running(ck, "asan")
    try:
        from checks import c11_sched
        out.update(c11_sched.run(ck, tier))
    except ImportError:
        ck.note("scheduler pass (b) not built")
    ck.assumptions.append("free-running passes are monitors (real time, real scheduler): they make unsynchronised accesses and a timer thread outliving its evaluator visible; they are not the deciding exploration")
    return out
