"""C02 - Born rule and collapse. model_checking: BFS over the real simulator with enumerated boundary draws
(sim_mc full mode) + evaluator-level programs under every outcome history."""
import itertools, sys, os
import vcheck, vdrv, refsim, qcheck
from checks import simlevel

PREPS = {"zero": "", "one": "x({q});", "plus": "h({q});", "ry1": "ry({q}, 1.0f);", "hz": "h({q}); z({q}); h({q});"}


def forms(tier):
    """yield (name, src, nmeasures, expect) ; expect(outcomes)-> (stdout_lines, tracked_dict)"""
    out = []
    for pn, prep in PREPS.items():
        P = prep.format(q="q")
        out.append(("decl-init:" + pn, "function main() -> void { @tracked qubit q; %s bit b = measure q; echo(b); }" % P,
                    lambda o: ([str(o[0])], {"qubit q": {str(o[0]): 1}})))
        out.append(("stmt:" + pn, "function main() -> void { @tracked qubit q; %s measure q; }" % P,
                    lambda o: ([], {"qubit q": {str(o[0]): 1}})))
        out.append(("cond:" + pn, 'function main() -> void { @tracked qubit q; %s if (measure q) { echo("one"); } else { echo("zero"); } }' % P,
                    lambda o: (["one" if o[0] else "zero"], {"qubit q": {str(o[0]): 1}})))
        out.append(("assign:" + pn, "function main() -> void { @tracked qubit q; bit b = 0b; %s b = measure q; echo(b); }" % P,
                    lambda o: ([str(o[0])], {"qubit q": {str(o[0]): 1}})))
        out.append(("fn-local:" + pn, "@quantum function m(qubit a) -> bit { bit b = measure a; return b; }\nfunction main() -> void { @tracked qubit q; %s bit b = m(q); echo(b); }" % P,
                    lambda o: ([str(o[0])], {"qubit q": {str(o[0]): 1}})))
        out.append(("fn-return:" + pn, "@quantum function m(qubit a) -> bit { return measure a; }\nfunction main() -> void { @tracked qubit q; %s echo(m(q)); }" % P,
                    lambda o: ([str(o[0])], {"qubit q": {str(o[0]): 1}})))
        out.append(("method:" + pn, "class C { public qubit q; public constructor() -> C = default; public function m() -> bit { %s return measure this.q; } }\n"
                    "function main() -> void { C c = new C(); echo(c.m()); }" % prep.format(q="this.q"),
                    lambda o: ([str(o[0])], {})))
        out.append(("remeasure:" + pn, "function main() -> void { @tracked qubit q; %s bit b1 = measure q; reset q; %s bit b2 = measure q; echo(b1); echo(b2); }" % (P, P),
                    None))
        for pn2, prep2 in PREPS.items():
            if tier != "thorough" and pn2 not in ("zero", "plus"):
                continue
            out.append(("array:%s,%s" % (pn, pn2), "function main() -> void { @tracked qubit[2] r; %s %s measure r; }" % (prep.format(q="r[0]"), prep2.format(q="r[1]")),
                        lambda o: ([], {"qubit[] r": {"%d%d" % (o[0], o[1]): 1}})))
            out.append(("elems:%s,%s" % (pn, pn2), "function main() -> void { @tracked qubit[2] r; %s %s bit b1 = measure r[1]; bit b0 = measure r[0]; echo(b0); echo(b1); }" % (prep.format(q="r[0]"), prep2.format(q="r[1]")),
                        lambda o: ([str(o[1]), str(o[0])], {"qubit[] r": {"%d%d" % (o[1], o[0]): 1}})))
    out.append(("bell", "function main() -> void { @tracked qubit a; @tracked qubit b; h(a); cx(a, b); bit x = measure a; bit y = measure b; echo(x); echo(y); }",
                lambda o: ([str(o[0]), str(o[1])], {"qubit a": {str(o[0]): 1}, "qubit b": {str(o[1]): 1}})))
    out.append(("bell-rev", "function main() -> void { @tracked qubit a; @tracked qubit b; h(a); cx(a, b); bit y = measure b; bit x = measure a; echo(x); echo(y); }",
                lambda o: ([str(o[1]), str(o[0])], {"qubit a": {str(o[1]): 1}, "qubit b": {str(o[0]): 1}})))
    out.append(("ghz", "function main() -> void { @tracked qubit[3] r; h(r[0]); cx(r[0], r[1]); cx(r[1], r[2]); measure r; }",
                lambda o: ([], {"qubit[] r": {"%d%d%d" % tuple(o[:3]): 1}})))
    out.append(("partial", "function main() -> void { @tracked qubit[3] r; h(r[0]); ry(r[1], 1.0f); cx(r[0], r[2]); cx(r[1], r[2]); bit b = measure r[2]; echo(b); bit c = measure r[0]; echo(c); bit d = measure r[1]; echo(d); }",
                lambda o: ([str(o[0]), str(o[1]), str(o[2])], {"qubit[] r": {"%d%d%d" % (o[1], o[2], o[0]): 1}})))
    out.append(("anticorr", "function main() -> void { qubit a; qubit b; h(a); cx(a, b); x(b); bit x1 = measure a; bit y1 = measure b; echo(x1); echo(y1); }",
                lambda o: ([str(o[0]), str(o[1])], {})))
    # every form again with other qubits allocated first, so that array positions, declaration order and simulator
    # indices do not coincide (a register is rarely the first allocation in real programs)
    padded = []
    for name, src, expect in out:
        padded.append((name, src, expect))
        for pn, pad in (("pad1", "qubit p0; "), ("pad3", "qubit p0; qubit[2] p1; ")):
            if tier != "thorough" and pn == "pad3" and not name.startswith(("array", "elems", "ghz", "bell", "stmt:plus", "method:plus")):
                continue
            padded.append((name + "+" + pn, src.replace("function main() -> void { ", "function main() -> void { " + pad, 1), expect))
    return padded


def _one(item):
    name, src, expect = item
    runs, capped = qcheck.dfs_outcomes(src, gc="none", max_runs=40)
    bad = []
    hist = []
    for script, r in runs:
        if r.crash or r.status() != "ok":
            bad.append((script, "status %s: %s" % (r.status(), (r.rec or {}).get("msg", r["fd2"][:300]))))
            continue
        rec = r.rec
        probs = qcheck.check_final_state(rec)
        mouts = [op[4] for op in rec["ops"] if op[0] == "measure"]
        mq = [op[1] for op in rec["ops"] if op[0] == "measure"]
        hist.append(tuple(mouts))
        if rec.get("inv_violation"):
            probs.append("state invariant: " + rec["inv_violation"])
        lines = rec["stdout"].split("\n")[:-1] if rec["stdout"] else []
        if expect is not None:
            exp_lines, exp_tr = expect(mouts)
            if lines != exp_lines:
                probs.append("echoed %r but the simulator reported outcomes %r (expected echo %r)" % (lines, mouts, exp_lines))
            if exp_tr and rec["tracked"] != exp_tr:
                probs.append("tracked %r but outcomes were %r (expected %r)" % (rec["tracked"], mouts, exp_tr))
        else:  # remeasure: two echoes b1 b2 = outcomes of 1st and 2nd measure; tracked = last
            if lines != [str(mouts[0]), str(mouts[1])]:
                probs.append("echoed %r but outcomes were %r" % (lines, mouts))
            if rec["tracked"] != {"qubit q": {str(mouts[1]): 1}}:
                probs.append("tracked %r but the last outcome was %d" % (rec["tracked"], mouts[1]))
        # last-measurement slot, flags and definiteness of the final state
        last = {}
        for q, o in zip(mq, mouts):
            last[q] = o
        resets_after = set()
        seen_measure = {}
        for i, op in enumerate(rec["ops"]):
            if op[0] == "measure":
                seen_measure[op[1]] = i
            if op[0] == "reset" and op[1] in seen_measure:
                del seen_measure[op[1]]
        amps = refsim.amps_from_json(rec["amps"])
        for q in seen_measure:
            o = last[q]
            fl = rec["flags"]
            if fl["last"][q] != o:
                probs.append("last-measurement slot of q%d is %r, simulator returned %d" % (q, fl["last"][q], o))
            if not (fl["eval"][q] == 1 and fl["sim"][q] == 1):
                probs.append("measured flags of q%d not set (eval %r sim %r)" % (q, fl["eval"][q], fl["sim"][q]))
            pq = refsim.p1(amps, q)
            if abs(pq - o) > 1e-9:
                probs.append("after reporting %d for q%d the final state gives P(1)=%g for it" % (o, q, pq))
        for p in probs:
            bad.append((script, p))
    return name, src, bad, len(runs), hist, capped


def main(tier):
    ck = vcheck.Check("C02", "model_checking", tier)
    if tier == "thorough":
        runs = [["bfs", "full", 3, 10], ["bfs", "full", 4, 9]] + simlevel.HISTORY_RUNS_THOROUGH + simlevel.COMPLEX_RUNS_THOROUGH
    else:
        runs = [["bfs", "full", 3, 8]] + simlevel.HISTORY_RUNS_QUICK + simlevel.COMPLEX_RUNS_QUICK
    res = simlevel.run_all(runs)
    simlevel.report(ck, res, {"C02"})
    for d in res:
        for s in d.get("samples", [])[:2]:
            ck.sample({"pass": "bfs", "history": s})
    fs = forms(tier)
    nruns = 0
    histories = set()
    for name, src, bad, n, hist, capped in vdrv.pmap(_one, fs, chunksize=2):
        nruns += n
        for h in hist:
            histories.add((name, h))
        if capped:
            ck.cap("outcome DFS capped for form " + name)
        for script, p in bad:
            ck.violation("eval:%s:%s" % (name.split(":")[0], p.split(" ")[0]), "%s\nform %s, draw script %s\nprogram:\n%s" % (p, name, list(script), src),
                         {"tool": "vdrv", "job": {"kind": "run", "opts": {"want": "amps,ops,tracked,flags,inv", "draws": ",".join(map(str, script)), "warn": 0}, "blobs": {"src": src}}})
        if len(ck.samples) < 5:
            ck.sample({"pass": "eval", "form": name, "program": src, "outcome_histories": sorted(set(hist))})
    ck.assumptions += [
        "std::mt19937 + uniform_real_distribution is uniform on [0,1): the distribution claim is decided as 'outcome is a threshold of the uniform draw at the Born probability'",
        "with the hook off the code consumes exactly one production draw per measure/reset (hook lines are add-only after it)",
    ]
    ck.finish({
        "states": sum(d.get("states", 0) for d in res) + len(histories),
        "transitions": sum(d.get("transitions", 0) for d in res) + nruns,
        "traces_validated_against_impl": sum(d.get("transitions", 0) for d in res) + nruns,
        "measure_transitions": sum(d.get("measures", 0) for d in res),
        "eval_programs": len(fs), "eval_runs": nruns, "eval_outcome_histories": len(histories),
        "outcome_classes": sorted(set(sum((d.get("outcome_classes", []) for d in res), []))),
        "runs": [{k: d.get(k) for k in ("args", "states", "transitions", "measures", "capped", "max_p1_dev", "max_collapse_dev")} for d in res],
        "bounds": "BFS alphabet {alloc,h,x,ry(pi/3),cx,measure x 5 boundary draws,reset x 2}: %s" % [r[2:] for r in runs],
    }, exhaustive=not any(d.get("capped") for d in res))
