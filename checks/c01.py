"""C01 - gates act as their defining unitaries. model_checking: matrix pass + BFS over gate sequences on the real
QasmSimulator against an independent reference, plus the evaluator's built-in dispatch through generated programs."""
import itertools, math, sys, os
import vcheck, vdrv, refsim
from checks import simlevel

ANGLES = ["0.5f", "1.25f", "-0.75f", "3.0f"]


def programs(nmax, tier):
    """(src, expected ops) for the dispatch pass. Each program prepares a basis/superposed input with x/h, then applies
    one gate under test through one access path."""
    out = []
    paths = ["direct", "param", "qparam", "field"]
    for n in range(1, nmax + 1):
        gates = []
        for q in range(n):
            for g in "hxyz":
                gates.append((g, q, -1, None))
            for g in ("rx", "ry", "rz"):
                for a in (ANGLES if tier == "thorough" or q == 0 else ANGLES[:2]):
                    gates.append((g, q, -1, a))
        for c in range(n):
            for t in range(n):
                if c != t:
                    gates.append(("cx", c, t, None))
        preps = list(range(1 << n)) if (tier == "thorough" or n <= 2) else [0, (1 << n) - 1, 1, 1 << (n - 1), 5 % (1 << n)]
        for (g, a, b, ang), prep, path in itertools.product(gates, preps, paths):
            if tier != "thorough" and path != "direct" and prep not in (0, (1 << n) - 1, 1):
                continue
            lines, ops = [], []
            decl = "qubit[%d] r;" % n
            for i in range(n):
                if (prep >> i) & 1:
                    lines.append("x(r[%d]);" % i)
                    ops.append(("x", i, -1, 0.0))
            # a superposition on top so phases matter
            lines.append("h(r[%d]);" % (n - 1))
            ops.append(("h", n - 1, -1, 0.0))
            args = "r[%d]" % a + (", r[%d]" % b if b >= 0 else "")
            call = "%s(%s%s);" % (g, args, (", " + ang) if ang else "")
            th = refsim.f32(ang[:-1]) if ang else 0.0
            ops.append((g, a, b, th))
            pre = ""
            if path == "direct":
                lines.append(call)
            elif path in ("param", "qparam"):
                ps = "qubit a" + (", qubit b" if b >= 0 else "")
                body = "%s(%s%s);" % (g, "a" + (", b" if b >= 0 else ""), (", " + ang) if ang else "")
                pre = "%sfunction app(%s) -> void { %s }\n" % ("@quantum " if path == "qparam" else "", ps, body)
                lines.append("app(%s);" % args)
            else:
                # object holding no qubits of its own; method receives the handles
                ps = "qubit a" + (", qubit b" if b >= 0 else "")
                body = "%s(%s%s);" % (g, "a" + (", b" if b >= 0 else ""), (", " + ang) if ang else "")
                pre = "class G { public constructor() -> G = default; public function app(%s) -> void { %s } }\n" % (ps, body)
                lines.append("G o = new G(); o.app(%s);" % args)
            src = pre + "function main() -> void { " + decl + " " + " ".join(lines) + " }\n"
            out.append((src, n, ops))
    # the angle argument written as every kind of float-typed expression (variable, arithmetic, call result, cast, int division,
    # field, array element, parameter), each on a superposed input
    forms = [("float t = 0.5f;", "t", 0.5), ("", "0.25f * 2", 0.5), ("", "half()", 0.5), ("", "(float) 1", 1.0), ("", "1 / 2", 0.5), ("", "0.0f - 0.75f", -0.75),
             ("float[2] ts = {0.25f, 1.5f};", "ts[1]", 1.5), ("A ao = new A();", "ao.th", 1.25), ("", "pass(0.5f)", 0.5), ("int k = 3;", "k * 0.5f", 1.5)]
    pre = "function half() -> float { return 0.5f; }\nfunction pass(float v) -> float { return v; }\nclass A { public float th = 1.25f; public constructor() -> A = default; }\n"
    for g in ("rx", "ry", "rz"):
        for decl, expr, val in forms:
            for q in (0, 1):
                src = pre + "function main() -> void { qubit[2] r; h(r[0]); h(r[1]); %s %s(r[%d], %s); }\n" % (decl, g, q, expr)
                out.append((src, 2, [("h", 0, -1, 0.0), ("h", 1, -1, 0.0), (g, q, -1, refsim.f32(val))]))
    return out


def _one(item):
    src, n, ops = item
    r = vdrv.run_src(src, want="amps,ops", warn=0)
    st = refsim.zero_state(n)
    for g, a, b, th in ops:
        st = refsim.gate(st, g, a, b, th)
    if r.crash or r.status() != "ok":
        return ("bad", src, "status %s %s" % (r.status(), (r.rec or {}).get("msg", r["fd2"][:300])))
    rec = r.rec
    if rec["nq"] != n:
        return ("bad", src, "program with %d qubits ended with %d simulator qubits" % (n, rec["nq"]))
    d = refsim.dist_up_to_phase(refsim.amps_from_json(rec["amps"]), st)
    if not d <= 1e-10:
        return ("bad", src, "final state differs from the reference by %g (ops tapped: %s)" % (d, rec["ops"]))
    return ("ok", src, tuple(round(abs(x), 6) for x in refsim.amps_from_json(rec["amps"])))


def main(tier):
    ck = vcheck.Check("C01", "model_checking", tier)
    if tier == "thorough":
        runs = [["matrix", 8, 1], ["bfs", "unitary", 2, 7, 6000000], ["bfs", "unitary", 3, 5, 6000000], ["bfs", "unitary", 4, 4, 6000000], ["bfs", "unitary", 5, 2]]
        nmax = 3
    else:
        runs = [["matrix", 7, 1], ["bfs", "unitary", 2, 5], ["bfs", "unitary", 3, 4], ["bfs", "unitary", 4, 3]]
        nmax = 3
    res = simlevel.run_all(runs)
    simlevel.report(ck, res, {"C01"})
    states = sum(d.get("states", 0) for d in res)
    trans = sum(d.get("transitions", 0) for d in res) + sum(d.get("applications", 0) for d in res)
    tuples = sum(d.get("tuples", 0) + d.get("matrix_tuples", 0) for d in res)
    for d in res:
        for s in d.get("samples", [])[:2]:
            ck.sample({"pass": "bfs", "history": s})
    # dispatch pass
    progs = programs(nmax, tier)
    distinct = set()
    nbad = 0
    for i, (kind, src, info) in enumerate(vdrv.pmap(_one, progs, chunksize=8)):
        if kind == "bad":
            nbad += 1
            g = progs[i][2][-1][0]
            ck.violation("dispatch:" + g, info + "\nprogram:\n" + src, {"tool": "vdrv", "job": {"kind": "run", "opts": {"want": "amps,ops"}, "blobs": {"src": src}}})
        else:
            distinct.add(info)
        if i % 997 == 0:
            ck.sample({"pass": "dispatch", "program": src})
    ck.assumptions += [
        "rotation angles outside the explored grid take the same code path (cos/sin computed once per call)",
        "float literals in dispatch programs are exactly representable, so std::stof adds no rounding",
        "amplitudes are read from the private m_state via -fno-access-control; the tap/draw hooks are add-only",
    ]
    ck.finish({
        "states": states + len(distinct),
        "transitions": trans + len(progs),
        "traces_validated_against_impl": trans + len(progs),
        "matrix_tuples": tuples,
        "dispatch_programs": len(progs),
        "dispatch_distinct_final_states": len(distinct),
        "runs": [{k: d.get(k) for k in ("args", "states", "transitions", "tuples", "applications", "capped", "max_gate_dev")} for d in res],
        "bounds": "matrix: n<=%s, all targets/ordered pairs, all basis columns, angle grid; BFS: %s; dispatch: n<=%d, 4 access paths" % (runs[0][1], [r[1:] for r in runs[1:]], nmax),
    }, exhaustive=not any(d.get("capped") for d in res))
