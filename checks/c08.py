"""C08 - object model as documented. All class families of a bounded grammar (chain/fork hierarchies of up to 3 classes with
logging field initialisers, constructor bodies, explicit/implicit super(), virtual/override/inherited methods with and without
super.m(), destructors, static counters, both documented constructor styles; overload sets over primitive and reference
parameters called with every static argument type; a generic class with a static field at two instantiations) x main
programs of up to 3 statements. A Python reference model of docs/bloch_class_system.md predicts the echoed trace or the
compile-time rejection."""
import itertools
import vcheck, vdrv

LOG = "static class L { public static function log(string s) -> int { echo(s); return 1; } }\n"


# ---- hierarchy families -----------------------------------------------------------------------------------------------------------
def hierarchy_family(shape, mcfg, super_style, ctor_style, with_dtor):
    """shape: 'chain' (A<-B<-C) or 'fork' (A<-B, A<-C) or 'pair' (A<-B)
    mcfg: dict class -> one of 'decl' (A only), 'inherit', 'override', 'override-super'
    returns (source, model) where model has parents, overrides"""
    parents = {"A": None, "B": "A"}
    if shape == "chain":
        parents["C"] = "B"
    elif shape == "fork":
        parents["C"] = "A"
    elif shape == "chain4":
        parents["C"] = "B"
        parents["E"] = "C"
    elif shape == "tree":
        parents["C"] = "A"
        parents["E"] = "B"
    classes = list(parents)
    src = LOG
    for c in classes:
        p = parents[c]
        ext = " extends %s" % p if p else ""
        body = " public int f%s = L.log(\"%s.f\"); public static int made = 0;" % (c, c)
        ret = " return this;" if ctor_style == "return-this" else ""
        sup = "super(); " if (p and super_style == "explicit") else ""
        body += " public constructor() -> %s { %secho(\"%s.ctor\"); %s.made = %s.made + 1;%s }" % (c, sup, c, c, c, ret)
        cfg = mcfg.get(c, "inherit")
        # whether some subclass overrides again decides 'virtual override' vs 'override'
        has_sub_override = any(parents[d] == c and mcfg.get(d, "inherit") != "inherit" for d in classes) or any(
            parents.get(parents.get(d)) == c and mcfg.get(d, "inherit") != "inherit" and mcfg.get(parents[d], "inherit") == "inherit" for d in classes if parents.get(d))
        if c == "A":
            body += " public function sfx() -> string { return \"\"; } public virtual function m() -> string { return \"A.m\" + this.sfx(); } public function n() -> string { return \"A.n:\" + this.m(); } public function nb() -> string { return \"A.nb:\" + m(); }"
        elif cfg == "override":
            body += " public virtual override function m() -> string { return \"%s.m\"; }" % c
        elif cfg == "override-super":
            body += " public virtual override function m() -> string { return \"%s.m>\" + super.m() + this.sfx(); }" % c
        if with_dtor == "default-mid" and c == "B":
            body += " public destructor() -> void = default;"          # the documented defaulted form: runs nothing
        elif with_dtor:
            body += " public destructor() -> void { echo(\"~%s\"); }" % c
        src += "class %s%s {%s }\n" % (c, ext, body)
    return src, parents


def chain_of(parents, c):
    out = []
    while c:
        out.append(c)
        c = parents[c]
    return out   # derived first


class Model:
    def __init__(self, parents, mcfg, with_dtor):
        self.parents, self.mcfg, self.with_dtor = parents, mcfg, with_dtor
        self.made = {c: 0 for c in parents}
        self.out = []

    def construct(self, c):
        for x in reversed(chain_of(self.parents, c)):   # base first: base ctor -> own field initialisers -> own body
            self.out.append("%s.f" % x)
            self.out.append("%s.ctor" % x)
            self.made[x] += 1
        return {"cls": c}

    def m(self, c):
        """result of the virtual call on dynamic class c"""
        for x in chain_of(self.parents, c):
            cfg = "decl" if x == "A" else self.mcfg.get(x, "inherit")
            if cfg == "decl":
                return "A.m"
            if cfg == "override":
                return "%s.m" % x
            if cfg == "override-super":
                return "%s.m>" % x + self.m(self.parents[x])
        raise AssertionError

    def destroy(self, c):
        if self.with_dtor:
            for x in chain_of(self.parents, c):
                if not (self.with_dtor == "default-mid" and x == "B"):
                    self.out.append("~" + x)


def hierarchy_programs(tier):
    progs = []
    shapes = ["pair", "chain", "fork"] + (["chain4", "tree"] if tier == "thorough" else [])
    opts = ["inherit", "override", "override-super"]
    for shape in shapes:
        derived = {"pair": ["B"], "chain": ["B", "C"], "fork": ["B", "C"], "chain4": ["B", "C", "E"], "tree": ["B", "C", "E"]}[shape]
        for cfgs in itertools.product(opts, repeat=len(derived)):
            mcfg = dict(zip(derived, cfgs))
            for super_style, ctor_style, with_dtor in itertools.product(("explicit", "implicit"), ("plain", "return-this"), (True, False, "default-mid")):
                if tier != "thorough" and (super_style, ctor_style, with_dtor) not in (("explicit", "return-this", True), ("implicit", "plain", True), ("explicit", "plain", False), ("implicit", "return-this", "default-mid")):
                    continue
                src, parents = hierarchy_family(shape, mcfg, super_style, ctor_style, with_dtor)
                classes = list(parents)
                # main programs: declare S v = new D() for every S >= D, call, drop the reference in one of three ways
                for D in classes:
                    for S in reversed(chain_of(parents, D)):
                        for drop in ("null", "overwrite", "scope", "end"):
                            model = Model(parents, mcfg, with_dtor)
                            body = []
                            if drop == "scope":
                                body.append("{")
                            body.append("%s v = new %s();" % (S, D))
                            model.construct(D)
                            body.append("echo(v.m());")
                            model.out.append(model.m(D))
                            body.append("echo(v.n());")
                            model.out.append("A.n:" + model.m(D))
                            body.append("echo(v.nb());")          # a bare call inside the class is 'this.m()'
                            model.out.append("A.nb:" + model.m(D))
                            if drop == "null":
                                body.append("v = null;")
                                model.destroy(D)
                            elif drop == "overwrite":
                                body.append("v = new %s();" % S)
                                model.construct(S)
                                model.destroy(D)
                            elif drop == "scope":
                                body.append("}")
                                model.destroy(D)
                            body.append("echo(\"mid\");")
                            model.out.append("mid")
                            for x in classes:
                                body.append("echo(%s.made);" % x)
                                model.out.append(str(model.made[x]))
                            # objects still referenced at the end of main die when main's scope ends (before the run finishes)
                            if drop == "end":
                                model.destroy(D)
                            elif drop == "overwrite":
                                model.destroy(S)
                            progs.append(("hier:%s:%s:%s:%s:%s:%s>%s:%s" % (shape, "/".join(cfgs), super_style, ctor_style, ("dtor-default-mid" if with_dtor == "default-mid" else "dtor") if with_dtor else "nodtor", S, D, drop),
                                          src + "function main() -> void {\n    " + "\n    ".join(body) + "\n}\n", ("ok", model.out)))
    return progs


# ---- overloads -----------------------------------------------------------------------------------------------------------------------
PARAM_TYPES = ["int", "long", "float", "A", "B", "boolean", "int[]", "float[]"]
ARGS = {"int": "1", "long": "2L", "float": "1.5f", "A": "new A()", "B": "new B()", "C": "new C()", "A-holding-B": "ab", "B-holding-C": "bc", "null": "null",
        "boolean": "true", "int[]": "ai", "float[]": "af",
        # a B that reaches the call through a slot declared A other than a local variable: a method result, a field with an initialiser, a static
        "A-from-method": "fac.mk()", "A-from-field-init": "hd.held", "A-from-static-init": "Sg.s", "long-from-int-var": "lv"}
ARG_STATIC = {"int": "int", "long": "long", "float": "float", "A": "A", "B": "B", "C": "C", "A-holding-B": "A", "B-holding-C": "B", "null": "null",
              "boolean": "boolean", "int[]": "int[]", "float[]": "float[]", "A-from-method": "A", "A-from-field-init": "A", "A-from-static-init": "A", "long-from-int-var": "long"}
OV_SUPPORT = ("class Fac { public constructor() -> Fac = default; public function mk() -> A { return new B(); } }\n"
              "class Hd { public A held = new B(); public constructor() -> Hd = default; }\n"
              "static class Sg { public static A s = new B(); }\n")
OV_DECL = "A ab = new B(); B bc = new C(); int[] ai = {1, 2}; float[] af = {1.5f}; Fac fac = new Fac(); Hd hd = new Hd(); long lv = 7; "
DIST = {("A", "A"): 0, ("B", "B"): 0, ("C", "C"): 0, ("B", "A"): 1, ("C", "B"): 1, ("C", "A"): 2}


def cost(param, arg):
    """documented static conversion cost or None"""
    if arg == "null":
        return 3 if param in ("A", "B") else None
    if param == arg:
        return 0
    if param == "long" and arg == "int":
        return 1
    if (arg, param) in DIST:
        return DIST[(arg, param)]
    return None


def resolve(overloads, arg_static):
    best, who, amb = None, None, False
    for p in overloads:
        c = cost(p, arg_static)
        if c is None:
            continue
        if best is None or c < best:
            best, who, amb = c, p, False
        elif c == best:
            amb = True
    if best is None:
        return "none"
    return "ambiguous" if amb else who


def overload_programs(tier):
    base = "class A { public constructor() -> A = default; }\nclass B extends A { public constructor() -> B { super(); } }\nclass C extends B { public constructor() -> C { super(); } }\n" + OV_SUPPORT
    progs = []
    sizes = (1, 2, 3) if tier == "thorough" else (1, 2)
    for k in sizes:
        for ov in itertools.combinations(PARAM_TYPES, k):
            methods = " ".join("public function f(%s p) -> string { return \"f(%s)\"; }" % (p, p) for p in ov)
            cls = "class O { public constructor() -> O = default; %s }\n" % methods
            for aname, aexpr in ARGS.items():
                st = ARG_STATIC[aname]
                r = resolve(ov, st)
                decl = OV_DECL + "O o = new O();"
                body = "%s echo(o.f(%s));" % (decl, aexpr)
                # the same call after the holder variable was reassigned (the static type must still decide)
                exp = ("reject",) if r in ("none", "ambiguous") else ("ok", ["f(%s)" % r])
                progs.append(("overload:%s:%s" % ("+".join(ov), aname), base + cls + "function main() -> void { %s }\n" % body, exp))
                if aname == "A-holding-B" and r not in ("none", "ambiguous"):
                    body2 = "%s ab = new A(); ab = new B(); echo(o.f(ab));" % decl
                    progs.append(("overload-reassigned:%s:%s" % ("+".join(ov), aname), base + cls + "function main() -> void { %s }\n" % body2, exp))
                    for how, stmt in (("nulled", "ab = null; ab = new B();"), ("destroyed", "destroy ab; ab = new B();")):
                        progs.append(("overload-%s:%s:%s" % (how, "+".join(ov), aname), base + cls + "function main() -> void { %s %s echo(o.f(ab)); }\n" % (decl, stmt), exp))
                    # through a parameter of static type A
                    fn = "function via(O o, A x) -> string { return o.f(x); }\n"
                    progs.append(("overload-via-param:%s" % "+".join(ov), base + cls + fn + "function main() -> void { O o = new O(); echo(via(o, new B())); }\n", exp))
    # the overload set spread over two levels of a hierarchy (O declares some, O2 extends O declares the rest, optionally overriding one
    # of O's): resolution is static over what the receiver's STATIC class can see; only a per-overload override is dynamic
    for k in ((2, 3) if tier == "thorough" else (2,)):
        for ov in itertools.combinations(PARAM_TYPES, k):
            for mask in range(1, (1 << k) - 1):
                bp = [p for i, p in enumerate(ov) if mask >> i & 1]
                dp = [p for i, p in enumerate(ov) if not mask >> i & 1]
                for override in (None, bp[0]):
                    om = " ".join("public %sfunction f(%s p) -> string { return \"O.f(%s)\"; }" % ("virtual " if p == override else "", p, p) for p in bp)
                    dm = " ".join("public function f(%s p) -> string { return \"O2.f(%s)\"; }" % (p, p) for p in dp)
                    if override:
                        dm += " public override function f(%s p) -> string { return \"O2.f(%s)\"; }" % (override, override)
                    cls = "class O { public constructor() -> O = default; %s }\nclass O2 extends O { public constructor() -> O2 { super(); } %s }\n" % (om, dm)
                    for recv, visible in (("O2 o = new O2();", list(ov)), ("O o = new O2();", bp)):
                        for aname, aexpr in ARGS.items():
                            if tier != "thorough" and aname in ("C", "B-holding-C", "float", "int[]", "float[]", "A-from-field-init", "A-from-static-init"):
                                continue
                            r = resolve(visible, ARG_STATIC[aname])
                            if r in ("none", "ambiguous"):
                                exp = ("reject",)
                            else:
                                exp = ("ok", ["%s.f(%s)" % ("O2" if (r in dp or r == override) else "O", r)])
                            body = OV_DECL + "%s echo(o.f(%s));" % (recv, aexpr)
                            progs.append(("overload-split:%s/%s:%s:%s:%s" % ("+".join(bp), "+".join(dp), "ovr" if override else "plain", recv.split(" ")[0], aname),
                                          base + cls + "function main() -> void { %s }\n" % body, exp))
    return progs


# ---- statics and generics -----------------------------------------------------------------------------------------------------------
def generic_programs():
    box = ("class Box<T> { public static int count = 0; public T v; public constructor(T x) -> Box<T> { this.v = x; count = count + 1; } public function get() -> T { return this.v; } "
           "public function seen() -> int { return count; } }\n")
    cases = [
        ("generic:int,int,float", "Box<int> a = new Box<int>(1); Box<int> b = new Box<int>(2); Box<float> c = new Box<float>(1.5f); echo(a.get()); echo(b.get()); echo(a.seen()); echo(b.seen()); echo(c.seen());", ["1", "2", "2", "2", "1"]),
        ("generic:float-first", "Box<float> c = new Box<float>(2.5f); Box<int> a = new Box<int>(7); echo(c.seen()); echo(a.seen()); echo(a.get());", ["1", "1", "7"]),
        ("generic:string", "Box<string> s = new Box<string>(\"hi\"); Box<string> t = new Box<string>(\"yo\"); echo(s.get() + t.get()); echo(t.seen());", ["hiyo", "2"]),
        ("generic:diamond", "Box<int> a = new Box<>(3); Box<int> b = new Box<>(4); echo(a.get() + b.get()); echo(b.seen());", ["7", "2"]),
    ]
    stat = "class K { public static int n = 0; public int id; public constructor() -> K { K.n = K.n + 1; this.id = K.n; } public static function total() -> int { return K.n; } }\nclass K2 extends K { public static int n2 = 100; public constructor() -> K2 { super(); K2.n2 = K2.n2 + 1; } }\n"
    cases2 = [
        ("static:shared", "K a = new K(); K b = new K(); echo(a.id); echo(b.id); echo(K.n); echo(K.total());", ["1", "2", "2", "2"]),
        ("static:subclass", "K a = new K(); K2 b = new K2(); K2 c = new K2(); echo(K.n); echo(K2.n2); echo(b.id); echo(c.id);", ["3", "102", "2", "3"]),
    ]
    # a specialisation first created from inside another generic context whose own parameter of the same name is bound differently
    # (generic extends generic with re-ordered parameters; a generic method that builds a generic of a generic), before / after the same
    # specialisation is created from plain code
    nest = ("class Cell<T> { public T v; public constructor(T x) -> Cell<T> { this.v = x; } public function get() -> T { return this.v; } public function put(T x) -> void { this.v = x; } }\n"
            "class Tagged<T, U> extends Cell<U> { public T tag; public constructor(T t, U u) -> Tagged<T, U> { super(u); this.tag = t; } }\n"
            "class Holder<T> { public constructor() -> Holder<T> { } public function wrap(T x) -> Cell<Cell<T>> { return new Cell<Cell<T>>(new Cell<T>(x)); } }\n")
    tg = "Tagged<int, string> tg = new Tagged<int, string>(7, \"eight\"); echo(tg.get()); echo(tg.tag); tg.put(\"nine\"); echo(tg.get());"
    pl = "Cell<string> c = new Cell<string>(\"plain\"); echo(c.get()); c.put(\"again\"); echo(c.get());"
    hw = "Holder<int> h = new Holder<int>(); Cell<Cell<int>> cc = h.wrap(5); echo(cc.get().get());"
    pi = "Cell<int> ci = new Cell<int>(6); ci.put(8); echo(ci.get());"
    cases3 = [
        ("generic:rebinding:derived-first", tg + " " + pl, ["eight", "7", "nine", "plain", "again"]),
        ("generic:rebinding:plain-first", pl + " " + tg, ["plain", "again", "eight", "7", "nine"]),
        ("generic:nested:holder-first", hw + " " + pi, ["5", "8"]),
        ("generic:nested:plain-first", pi + " " + hw, ["8", "5"]),
        ("generic:rebinding-and-nested", tg + " " + hw + " " + pl + " " + pi, ["eight", "7", "nine", "5", "plain", "again", "8"]),
    ]
    # hunt C03/d9: an array-typed FIELD whose size is a name (a static final of the same class, of another class, in a generic class):
    # the field has that many default elements, for every element type (qubit elements are real qubits)
    fsz = []
    for where, decl, sz in (("own-static", "public static final int N = %d;", "N"), ("other-class", "", "Kz.N"), ("literal", "", "%d")):
        for nval in (1, 2, 3):
            kz = "static class Kz { public static final int N = %d; }\n" % nval
            szs = sz % nval if "%" in sz else sz
            own = decl % nval if "%" in decl else decl
            cls = kz + "class Rz { %s public int[%s] xs; public bit[%s] bs; public qubit[%s] qs; public constructor() -> Rz = default; }\n" % (own, szs, szs, szs)
            gcl = kz + "class Gz<T> { %s public T[%s] items; public constructor() -> Gz<T> = default; }\n" % (own, szs)
            zeros = "{" + ", ".join(["0"] * nval) + "}"
            fsz.append(("fieldsize:%s:%d:classical" % (where, nval), cls + "function main() -> void { Rz r = new Rz(); echo(r.xs); echo(r.bs); }\n", ("ok", [zeros, zeros])))
            qprobe = "x(r.qs[%d]); echo(measure r.qs[%d]);" % (nval - 1, nval - 1) + (" echo(measure r.qs[0]);" if nval > 1 else "")
            fsz.append(("fieldsize:%s:%d:qubits" % (where, nval), cls + "function main() -> void { Rz r = new Rz(); %s }\n" % qprobe, ("ok", ["1", "0"] if nval > 1 else ["1"])))
            fsz.append(("fieldsize:%s:%d:generic" % (where, nval), gcl + "function main() -> void { Gz<int> g = new Gz<int>(); echo(g.items); }\n", ("ok", [zeros])))
    progs = [(n, box + "function main() -> void { %s }\n" % b, ("ok", e)) for n, b, e in cases]
    progs += [(n, nest + "function main() -> void { %s }\n" % b, ("ok", e)) for n, b, e in cases3]
    progs += [(n, stat + "function main() -> void { %s }\n" % b, ("ok", e)) for n, b, e in cases2]
    # (second hunt, C08 d1/d4/d12, C06 d6) typed nulls as overload arguments, what 'destroy' leaves behind, base constructor visibility for
    # super(...), inherited fields through 'super.'
    an = ("class Animal { public constructor() -> Animal = default; }\nclass Dog extends Animal { public constructor() -> Dog = default; }\n"
          "class Kn { public constructor() -> Kn = default; public function f(Animal a) -> void { echo(\"f(Animal)\"); } public function f(Dog a) -> void { echo(\"f(Dog)\"); } "
          "public function g(Animal a) -> string { return \"g(Animal)\"; } public function g(Dog a) -> string { return \"g(Dog)\"; } }\n"
          "class Pn { public constructor(Animal a) -> Pn { echo(\"Pn(Animal)\"); } public constructor(Dog d) -> Pn { echo(\"Pn(Dog)\"); } }\n"
          "class Hn { public Animal fa; public Dog fd; public constructor() -> Hn { this.fa = null; this.fd = null; } }\n"
          "function pass(Animal a) -> Animal { return a; }\n"
          "class Bs { public constructor(Animal a) -> Bs { echo(\"Bs(Animal) public\"); } private constructor(Dog d) -> Bs { echo(\"Bs(Dog) private\"); } }\n"
          "class Dr extends Bs { public constructor() -> Dr { super(new Dog()); echo(\"Dr()\"); } }\n"
          "class Fb { protected int n = 7; public constructor() -> Fb = default; }\nclass Fd extends Fb { public constructor() -> Fd { super(); } public function viaSuper() -> int { return super.n + 1; } public function viaThis() -> int { return this.n + 1; } }\n"
          "class Av { public int v = 3; public constructor() -> Av = default; public function say() -> void { echo(\"say\"); } }\n")
    cases4 = [
        ("null:typed-variable-arguments", "Kn k = new Kn(); Animal n = null; Dog dn = null; k.f(n); k.f(dn); echo(k.g(n)); echo(k.g(dn));", ("ok", ["f(Animal)", "f(Dog)", "g(Animal)", "g(Dog)"])),
        ("null:typed-field-and-result-arguments", "Kn k = new Kn(); Hn h = new Hn(); k.f(h.fa); k.f(h.fd); Dog dn = null; k.f(pass(dn));", ("ok", ["f(Animal)", "f(Dog)", "f(Animal)"])),
        ("null:typed-constructor-arguments", "Animal n = null; Dog dn = null; Pn p = new Pn(n); Pn q = new Pn(dn);", ("ok", ["Pn(Animal)", "Pn(Dog)"])),
        ("null:after-assignment", "Kn k = new Kn(); Animal a = new Dog(); k.f(a); a = null; k.f(a); Dog d = new Dog(); d = null; k.f(d);", ("ok", ["f(Animal)", "f(Animal)", "f(Dog)"])),
        ("destroy:compares-equal-to-null", "Av a = new Av(); destroy a; echo(a == null); Av b = new Av(); echo(b == null);", ("ok", ["true", "false"])),
        ("destroy:method-call-is-null-reference", "Av a = new Av(); destroy a; a.say(); echo(\"still running\");", ("runtime", "null reference")),
        ("destroy:field-read-is-null-reference", "Av a = new Av(); destroy a; echo(a.v);", ("runtime", "null reference")),
        ("destroy:field-write-is-null-reference", "Av a = new Av(); destroy a; a.v = 4; echo(\"still running\");", ("runtime", "null reference")),
        ("destroy:typed-slot-after-destroy", "Kn k = new Kn(); Animal a = new Dog(); destroy a; k.f(a); a = new Dog(); k.f(a);", ("ok", ["f(Animal)", "f(Animal)"])),
        ("super:private-more-specific-base-constructor", "Dr d = new Dr(); Bs b = new Bs(new Dog());", ("ok", ["Bs(Animal) public", "Dr()", "Bs(Animal) public"])),
        ("assignment-expression-argument", "Kn k = new Kn(); Animal x = null; echo(k.g(x = new Dog())); echo(k.g(x)); Dog y = null; echo(k.g(y = new Dog()));", ("ok", ["g(Animal)", "g(Animal)", "g(Dog)"])),
        ("super:inherited-field", "Fd f = new Fd(); echo(f.viaSuper()); echo(f.viaThis());", ("ok", ["8", "8"])),
    ]
    progs += [(n, an + "function main() -> void { %s }\n" % b, e) for n, b, e in cases4]
    # (seed C08-4) inside a method DECLARED in a base class, 'this' is an expression of the base class whatever the receiver's dynamic class:
    # as an overloaded argument, as the receiver of a private / non-virtual method the subclass also has, as the receiver of a call
    # for which the subclass adds a more specific overload
    th = ("class Doc { public constructor() -> Doc = default; }\nclass Vt extends Doc { public constructor() -> Vt { super(); } }\n"
          "class Rg { public constructor() -> Rg = default; public function add(An a) -> void { echo(\"add(An)\"); } public function add(Dg d) -> void { echo(\"add(Dg)\"); } public function add(Pp p) -> void { echo(\"add(Pp)\"); } }\n"
          "class An { public constructor() -> An = default; public function enrol(Rg r) -> void { r.add(this); } private function secret() -> string { return \"an-secret\"; } "
          "public function reveal() -> string { return this.secret(); } public virtual function see(Doc d) -> string { return \"An.see(Doc)\"; } public function visit(Vt v) -> string { return this.see(v); } "
          "public function self() -> An { return this; } }\n"
          "class Dg extends An { public constructor() -> Dg { super(); } private function secret() -> string { return \"dg-secret\"; } public function see(Vt v) -> string { return \"Dg.see(Vt)\"; } public function mine(Rg r) -> void { r.add(this); } }\n"
          "class Pp extends Dg { public constructor() -> Pp { super(); } }\n")
    progs += [(n, th + "function main() -> void { Rg r = new Rg(); %s }\n" % b, ("ok", e)) for n, b, e in [
        ("this:overloaded-argument-from-inherited-method", "An a = new An(); Dg d = new Dg(); Pp p = new Pp(); a.enrol(r); d.enrol(r); p.enrol(r); d.mine(r); p.mine(r); r.add(d); r.add(p); An v = p; r.add(v);",
         ["add(An)", "add(An)", "add(An)", "add(Dg)", "add(Dg)", "add(Dg)", "add(Pp)", "add(An)"]),
        ("this:private-method-of-declaring-class", "An a = new An(); Dg d = new Dg(); Pp p = new Pp(); echo(a.reveal()); echo(d.reveal()); echo(p.reveal());", ["an-secret", "an-secret", "an-secret"]),
        ("this:overload-set-of-declaring-class", "Dg d = new Dg(); Pp p = new Pp(); echo(d.visit(new Vt())); echo(p.visit(new Vt())); echo(d.see(new Vt())); An v = d; echo(v.see(new Vt()));", ["An.see(Doc)", "An.see(Doc)", "Dg.see(Vt)", "An.see(Doc)"]),
        ("this:returned-from-inherited-method", "Dg d = new Dg(); r.add(d.self()); An s = d.self(); r.add(s);", ["add(An)", "add(An)"]),
    ]]
    # (second hunt, C12/d4, C08/d13) static initialisers inside ONE class that read or write a later static of the same class
    progs += [
        ("static:earlier-initialiser-writes-later-field", "class Sx { public static int early = Sx.bump(); public static int n = 10; public static function bump() -> int { n = n + 1; return n; } public constructor() -> Sx = default; }\n"
         "function main() -> void { echo(Sx.early); echo(Sx.n); }\n", ("oneof", [["1", "10"], ["11", "11"]])),
        ("static:constructor-in-initialiser-reads-later-field", "class Cx { public static Cx inst = new Cx(); public static int n = 5; public int seen; public int plus; public constructor() -> Cx { this.seen = n; this.plus = n + 1; } }\n"
         "function main() -> void { echo(Cx.inst.seen); echo(Cx.inst.plus); echo(Cx.n); }\n", ("oneof", [["0", "1", "5"], ["5", "6", "5"]])),
        ("static:later-field-first", "class Cy { public static int n = 5; public static Cy inst = new Cy(); public int seen; public constructor() -> Cy { this.seen = n; } }\n"
         "function main() -> void { echo(Cy.inst.seen); echo(Cy.n); }\n", ("ok", ["5", "5"])),
        ("super:inherited-field-write", an + "class Fw extends Fb { public constructor() -> Fw { super(); } public function setIt() -> int { super.n = 9; return this.n; } }\nfunction main() -> void { Fw f = new Fw(); echo(f.setIt()); }\n", ("ok", ["9"])),
    ]
    progs += fsz
    progs += shared_body_programs()
    return progs


def shared_body_programs(maxlen=3):
    """(seed C08-5) all instantiations of a generic class share ONE syntax tree: a call site inside the generic body (this.m(), a bare m(), a
    call on a parameter of the generic's own type, a T-typed overload) resolves per specialisation every time it runs, whichever
    specialisation ran it first. Every sequence of <= maxlen calls over three objects of two specialisations; reference = one counter per
    specialisation."""
    cls = ("class Counter<T> { public static int made = 0; public T v; public constructor(T x) -> Counter<T> { this.v = x; }\n"
           "  public function bump() -> int { made = made + 1; return made; }\n"
           "  public function twice() -> int { this.bump(); return this.bump(); }\n"
           "  public function bare() -> int { bump(); return made; }\n"
           "  public function id(T x) -> T { return x; }\n"
           "  public function get() -> T { return this.id(this.v); }\n"
           "  public function peer(Counter<T> o) -> int { return o.bump(); } }\n")
    decl = "Counter<int> a = new Counter<int>(1); Counter<float> b = new Counter<float>(2.5f); Counter<int> c = new Counter<int>(3);"
    spec = {"a": "int", "b": "float", "c": "int"}
    val = {"a": "1", "b": "2.5", "c": "3"}
    ops = [(o, m) for o in "abc" for m in ("bump", "twice", "bare", "get")] + [("a", "peer:c"), ("c", "peer:a"), ("b", "peer:b")]
    progs = []
    for n in range(1, maxlen + 1):
        for seq in itertools.product(ops, repeat=n):
            if n == maxlen and len(set(spec[o] for o, _ in seq)) < 2:
                continue        # the longest sequences only where both specialisations take part
            made = {"int": 0, "float": 0}
            body, exp = [], []
            for o, m in seq:
                k = spec[o]
                if m == "get":
                    body.append("echo(%s.get());" % o)
                    exp.append(val[o])
                    continue
                if m.startswith("peer:"):
                    body.append("echo(%s.peer(%s));" % (o, m[5:]))
                    made[k] += 1
                else:
                    body.append("echo(%s.%s());" % (o, m))
                    made[k] += 2 if m == "twice" else 1
                exp.append(str(made[k]))
            name = "generic:shared-body:" + ",".join("%s.%s" % x for x in seq)
            progs.append((name, cls + "function main() -> void { %s %s }\n" % (decl, " ".join(body)), ("ok", exp)))
    return progs


def destructor_programs():
    """destructor timing for the documented constructor style, objects returned from functions, passed as arguments"""
    cls = ("class P { public int id; public constructor(int i) -> P { this.id = i; return this; } public destructor() -> void { echo(\"~P\" + this.id); } }\n"
           "class Q extends P { public constructor(int i) -> Q { super(i); return this; } public destructor() -> void { echo(\"~Q\" + this.id); } }\n"
           "function mk(int i) -> P { return new P(i); }\nfunction use(P p) -> int { return p.id; }\n")
    cases = [
        ("dtor:scoped", "{ P a = new P(1); echo(\"in\"); } echo(\"out\");", ["in", "~P1", "out"]),
        ("dtor:scoped-derived", "{ P a = new Q(2); echo(\"in\"); } echo(\"out\");", ["in", "~Q2", "~P2", "out"]),
        ("dtor:null", "P a = new P(1); a = null; echo(\"after\");", ["~P1", "after"]),
        ("dtor:overwrite", "P a = new P(1); a = new P(2); echo(\"after\"); a = null; echo(\"end\");", ["~P1", "after", "~P2", "end"]),
        ("dtor:returned", "P a = mk(3); echo(\"got\"); a = null; echo(\"after\");", ["got", "~P3", "after"]),
        # a temporary dies within the statement that created it: its log precedes the next statement's output
        ("dtor:temp-arg", "int r = use(new P(4)); echo(r); echo(\"after\");", ["~P4", "4", "after"]),
        ("dtor:temp-returned", "int r = use(mk(5)); echo(r); echo(\"after\");", ["~P5", "5", "after"]),
        ("dtor:temp-discarded", "mk(9); echo(\"after\");", ["~P9", "after"]),
        ("dtor:two-refs", "P a = new P(6); P b = a; a = null; echo(\"still\"); b = null; echo(\"gone\");", ["still", "~P6", "gone"]),
        ("dtor:destroy", "P a = new P(7); destroy a; echo(\"after\");", ["~P7", "after"]),
        ("dtor:end-of-main", "P a = new P(8); echo(\"last\");", ["last", "~P8"]),
        ("dtor:loop", "for (int i = 0; i < 2; i = i + 1) { P a = new P(i); echo(\"body\"); } echo(\"after\");", ["body", "~P0", "body", "~P1", "after"]),
    ]
    out = [(n, cls + "function main() -> void { %s }\n" % b, ("ok", e)) for n, b, e in cases]
    cls3 = ("class R { public int id; public constructor(int i) -> R { this.id = i; } public function twice() -> int { return this.id * 2; } "
            "public destructor() -> void { echo(\"~R a\" + this.id); echo(\"~R b\" + this.twice()); echo(\"~R c\" + this.id); } }\n"
            "function viaif(int k) -> int { R d = new R(k); if (k > 0) { return k * 100; } return 0; }\n"
            "function viafor(int k) -> int { R d = new R(k); for (int i = 0; i < 3; i = i + 1) { if (i == 1) { return i + k; } } return 0; }\n"
            "function viawhile(int k) -> int { R d = new R(k); int j = 0; while (j < 3) { j = j + 1; if (j == 2) { return j * k; } } return 0; }\n"
            "function keepone(int k) -> R { R d = new R(k); R keep = new R(k + 1); return keep; }\n"
            "function plain(int k) -> void { R d = new R(k); echo(\"in\"); }\n")
    cases3 = [
        ("dtor:frame-end-after-return-in-if", "echo(viaif(1)); echo(\"end\");", ["~R a1", "~R b2", "~R c1", "100", "end"]),
        ("dtor:frame-end-after-return-in-for", "echo(viafor(5)); echo(\"end\");", ["~R a5", "~R b10", "~R c5", "6", "end"]),
        ("dtor:frame-end-after-return-in-while", "echo(viawhile(3)); echo(\"end\");", ["~R a3", "~R b6", "~R c3", "6", "end"]),
        ("dtor:frame-end-returning-object", "R r = keepone(5); echo(r.id); echo(\"end\");", ["~R a5", "~R b10", "~R c5", "6", "end", "~R a6", "~R b12", "~R c6"]),
        ("dtor:frame-end-void", "plain(4); echo(\"end\");", ["in", "~R a4", "~R b8", "~R c4", "end"]),
    ]
    out += [(n, cls3 + "function main() -> void { %s }\n" % b, ("ok", e)) for n, b, e in cases3]
    # a return that unwinds a nested block whose local has a destructor that itself calls a function / a method / allocates
    cls4 = ("function helper() -> int { return 5; }\n"
            "class Lc { public int id; public constructor(int id) -> Lc { this.id = id; return this; } public function me() -> int { return this.id; } "
            "public destructor() -> void { int k = helper() + this.me(); Lc2 t = new Lc2(); echo(\"~Lc\" + this.id + \":\" + (k + t.v)); } }\n"
            "class Lc2 { public int v = 1; public constructor() -> Lc2 = default; }\n"
            "function g() -> int { if (true) { Lc tmp = new Lc(1); return 42; } return 0; }\n"
            "function f() -> Lc { Lc res = new Lc(2); if (true) { Lc tmp = new Lc(3); return res; } return null; }\n"
            "function w() -> int { int i = 0; while (i < 3) { Lc tmp = new Lc(10 + i); i = i + 1; if (i == 2) { return i * 7; } } return 0; }\n")
    cases4 = [
        ("dtor:return-through-block:value", "echo(g() + 1);", ["~Lc1:7", "43"]),
        ("dtor:return-through-block:object", "Lc r = f(); echo(r.id); r = null; echo(\"end\");", ["~Lc3:9", "2", "~Lc2:8", "end"]),
        ("dtor:return-through-loop:value", "echo(w());", ["~Lc10:16", "~Lc11:17", "14"]),
    ]
    out += [(n, cls4 + "function main() -> void { %s }\n" % b, ("ok", e)) for n, b, e in cases4]
    # static initialisers that call a top-level function / run a constructor that calls one
    cls5 = ("function compute() -> int { return 42; }\n"
            "class Reg { public int v; public constructor() -> Reg { this.v = compute(); return this; } }\n"
            "class Cfg { public static int direct = compute(); public static Reg viaCtor = new Reg(); public int inst = compute(); public constructor() -> Cfg { return this; } }\n")
    # constructor overloads are chosen from the static argument types too, also through super(...)
    cls6 = ("class A { public constructor() -> A = default; }\nclass B extends A { public constructor() -> B { super(); } }\n"
            "class O { public string w; public constructor(A p) -> O { this.w = \"O(A)\"; } public constructor(B p) -> O { this.w = \"O(B)\"; } public constructor(int p) -> O { this.w = \"O(int)\"; } "
            "public constructor(long p) -> O { this.w = \"O(long)\"; } }\nclass S extends O { public constructor(A p) -> S { super(p); } }\n")
    out.append(("ctor-overload:static-types", cls6 + "function main() -> void { A ab = new B(); O o1 = new O(ab); echo(o1.w); O o2 = new O(new B()); echo(o2.w); S s = new S(new B()); echo(s.w); long l = 5; O o3 = new O(l); echo(o3.w); O o4 = new O(7); echo(o4.w); }\n",
                ("ok", ["O(A)", "O(B)", "O(A)", "O(long)", "O(int)"])))
    cls7 = ("class Base { public constructor() -> Base { return this; } }\nclass Derived extends Base { public constructor() -> Derived { super(); return this; } }\n"
            "class P { public constructor(Base b) -> P { echo(\"public constructor(Base)\"); return this; } private constructor(Derived d) -> P { echo(\"private constructor(Derived)\"); return this; } }\n")
    out.append(("ctor-overload:private-more-specific", cls7 + "function main() -> void { P p = new P(new Derived()); }\n", ("ok", ["public constructor(Base)"])))
    out.append(("static:initialiser-calls-function", cls5 + "function main() -> void { echo(Cfg.direct); echo(Cfg.viaCtor.v); Cfg c = new Cfg(); echo(c.inst); }\n", ("ok", ["42", "42", "42"])))
    return out


def _one(item):
    name, src, exp = item
    r = vdrv.run_src(src, gc="own", warn=0)
    if r.crash or r.rec is None:
        return name, src, "interpreter died: %s %s" % (r.crash, r["fd2"][:300]), None
    st = r.rec.get("status")
    if exp[0] == "reject":
        if st == "ok" or r.rec.get("stage") == "run":
            return name, src, "the documented overload rules find no unique applicable overload (compile-time rejection expected) but the program ran: %s %r %s" % (st, r.rec.get("stdout"), r.rec.get("msg", "")), None
        if st != "semantic":
            return name, src, "expected a Semantic rejection, got %s: %s" % (st, r.rec.get("msg")), None
        return name, src, None, "rejected"
    if exp[0] == "oneof":
        # the documentation leaves two readings open (textual order / on first use); both are listed, anything else is wrong
        lines = r.rec["stdout"].split("\n")[:-1] if (st == "ok" and r.rec["stdout"]) else None
        if lines not in exp[1]:
            return name, src, "the program must print one of %r (the readings the documentation leaves open) but ended with %s %r %s" % (exp[1], st, r.rec.get("stdout"), r.rec.get("msg", "")), None
        return name, src, None, tuple(lines)
    if exp[0] == "runtime":
        if st != "runtime" or exp[1] not in (r.rec.get("msg") or ""):
            return name, src, "the documented behaviour is a Runtime error (%s) but the program ended with %s: %r %s" % (exp[1], st, r.rec.get("stdout"), r.rec.get("msg", "")), None
        return name, src, None, "runtime"
    if st != "ok":
        return name, src, "the reference model runs this program (%d echoes) but the interpreter stopped with %s: %s" % (len(exp[1]), st, r.rec.get("msg")), None
    lines = r.rec["stdout"].split("\n")[:-1] if r.rec["stdout"] else []
    if lines != exp[1]:
        i = next((k for k in range(min(len(lines), len(exp[1]))) if lines[k] != exp[1][k]), min(len(lines), len(exp[1])))
        return name, src, "trace differs from the reference model at line %d: got %r, reference %r\n full got: %r\n full ref: %r" % (i, lines[i:i + 3], exp[1][i:i + 3], lines, exp[1]), None
    return name, src, None, tuple(lines)


def main(tier):
    ck = vcheck.Check("C08", "exploration", tier)
    progs = hierarchy_programs(tier) + overload_programs(tier) + generic_programs() + destructor_programs()
    n = 0
    distinct = set()
    for name, src, prob, sig in vdrv.pmap(_one, progs, chunksize=16):
        n += 1
        if prob:
            parts = name.split(":")
            key = parts[0] + ":" + (":".join(parts[3:5] + parts[6:]) if parts[0] == "hier" else ":".join(parts[1:])) if parts[0] != "overload" else "overload:" + parts[2] + ":" + prob.split(" ")[0]
            ck.violation(key + "|" + prob.split("\n")[0][:50], "%s\ncase: %s\nprogram:\n%s" % (prob, name, src), {"tool": "vdrv", "job": {"kind": "run", "opts": {"gc": "own", "warn": 0}, "blobs": {"src": src}}})
        else:
            distinct.add(sig)
        if n % 977 == 1:
            ck.sample({"case": name, "program": src[-700:]})
    ck.assumptions += ["destructor timing is taken at statement granularity; objects alive at the end of main die when main's scope ends",
                       "static initialisation order across classes and destructors of cyclic garbage are not part of the model"]
    ck.finish({"evaluations": n, "distinct_nontrivial": len(distinct), "rule": "every hierarchy family x (static type >= dynamic class) x way of dropping the reference; every overload subset x argument static type; generic/static/destructor-timing cases; distinct = distinct agreeing traces"})
