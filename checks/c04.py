"""C04 - reset is local. model_checking: every reset transition of the sim_mc BFS (all reachable product/entangled/partially
measured states x every target, both branches of the reset's draw) + evaluator paths (statement, destruction, index reuse)."""
import vcheck, vdrv, refsim, qcheck
from checks import simlevel


def reduced_probs(st, keep):
    """joint outcome distribution of the qubits in keep (list of indices)"""
    d = {}
    for i, a in enumerate(st):
        k = tuple((i >> q) & 1 for q in keep)
        d[k] = d.get(k, 0.0) + abs(a) ** 2
    return d


def reduced_rho(st, n, k):
    dim = 1 << (n - 1)

    def expand(r, b):
        low = r & ((1 << k) - 1)
        high = (r >> k) << (k + 1)
        return high | (b << k) | low
    rho = [[0j] * dim for _ in range(dim)]
    for a in range(dim):
        for b in range(dim):
            rho[a][b] = sum(st[expand(a, bit)] * st[expand(b, bit)].conjugate() for bit in (0, 1))
    return rho


PROGRAMS = [
    # (name, src): the reset under test is the LAST reset operation tapped; everything else is preparation
    ("stmt-bell", "function main() -> void { qubit a; qubit b; h(a); cx(a, b); reset a; }"),
    ("stmt-bell-partner", "function main() -> void { qubit a; qubit b; h(a); cx(a, b); reset b; }"),
    ("stmt-ghz-mid", "function main() -> void { qubit[3] r; h(r[0]); cx(r[0], r[1]); cx(r[1], r[2]); reset r[1]; }"),
    ("stmt-w", "function main() -> void { qubit[3] r; ry(r[0], 1.0f); cx(r[0], r[1]); h(r[2]); cx(r[2], r[0]); reset r[0]; }"),
    ("stmt-product", "function main() -> void { qubit a; qubit b; h(a); ry(b, 1.0f); reset a; }"),
    ("stmt-one", "function main() -> void { qubit a; qubit b; x(a); h(b); reset a; }"),
    ("stmt-after-measure", "function main() -> void { qubit a; qubit b; h(a); cx(a, b); measure a; reset a; }"),
    ("param", "function r(qubit q) -> void { reset q; }\nfunction main() -> void { qubit a; qubit b; h(a); cx(a, b); r(a); }"),
    ("destroy-field", "class H { public qubit q; public constructor() -> H = default; public function ent(qubit o) -> void { h(this.q); cx(this.q, o); } }\n"
     "function main() -> void { qubit keep; H o = new H(); o.ent(keep); destroy o; }"),
    ("scope-field", "class H { public qubit q; public constructor() -> H = default; public function ent(qubit o) -> void { h(this.q); cx(this.q, o); } }\n"
     "function f(qubit k) -> void { H o = new H(); o.ent(k); }\nfunction main() -> void { qubit keep; f(keep); }"),
    ("overwrite-field", "class H { public qubit q; public constructor() -> H = default; public function ent(qubit o) -> void { h(this.q); cx(this.q, o); } }\n"
     "function main() -> void { qubit keep; H o = new H(); o.ent(keep); o = new H(); }"),
    ("field-array", "class H { public qubit[2] q; public constructor() -> H = default; public function ent(qubit o) -> void { h(this.q[0]); cx(this.q[0], this.q[1]); cx(this.q[1], o); } }\n"
     "function main() -> void { qubit keep; H o = new H(); o.ent(keep); destroy o; }"),
    ("reuse", "class H { public qubit q; public constructor() -> H = default; public function ent(qubit o) -> void { h(this.q); cx(this.q, o); } }\n"
     "function main() -> void { qubit keep; H o = new H(); o.ent(keep); destroy o; H p = new H(); }"),
]


# programs in which a qubit index is released and re-allocated after something was done to it through a handle that
# outlived its owner; the freshly declared qubit must read 0 with certainty and be uncorrelated with everything else
HCLS = "class H { public qubit q; public constructor() -> H = default; public function get() -> qubit { return this.q; } }\n"
FRESH = [
    ("stale-x", HCLS + "function main() -> void { qubit keep; H o = new H(); qubit al = o.q; destroy o; x(al); H p = new H(); bit z = measure p.q; echo(z); }"),
    ("stale-x-scope", HCLS + "function mk() -> qubit { H o = new H(); return o.get(); }\nfunction main() -> void { qubit keep; qubit al = mk(); x(al); H p = new H(); bit z = measure p.q; echo(z); }"),
    ("stale-cx", HCLS + "function main() -> void { qubit keep; h(keep); H o = new H(); qubit al = o.get(); o = null; cx(keep, al); H p = new H(); bit z = measure p.q; echo(z); bit k = measure keep; echo(k); }"),
    ("stale-h", HCLS + "function main() -> void { H o = new H(); qubit al = o.q; destroy o; h(al); H p = new H(); H p2 = new H(); bit z = measure p.q; echo(z); }"),
    # (seed C04-3, and C04-1/C05-1 revisited) the stale handle acts on the released qubit and then goes out of scope: only now is the
    # index free again, and what the handle left behind (|1>, half of a Bell pair with a live qubit) must not reach the next declaration
    ("stale-x-out-of-scope", HCLS + "function main() -> void { qubit keep; H o = new H(); { qubit al = o.q; destroy o; x(al); } H p = new H(); bit z = measure p.q; echo(z); }"),
    ("stale-cx-out-of-scope", HCLS + "function main() -> void { qubit keep; h(keep); H o = new H(); { qubit al = o.get(); o = null; cx(keep, al); } H p = new H(); bit z = measure p.q; echo(z); bit k = measure keep; echo(k); }"),
    ("stale-h-out-of-scope", HCLS + "function poke() -> void { H o = new H(); qubit al = o.q; destroy o; h(al); }\nfunction main() -> void { qubit keep; poke(); H p = new H(); bit z = measure p.q; echo(z); }"),
    ("stale-x-out-of-scope-local-fresh", HCLS + "function poke() -> void { H o = new H(); qubit al = o.q; o = null; x(al); }\nfunction main() -> void { qubit keep; poke(); poke(); H p = new H(); H p2 = new H(); bit z = measure p2.q; echo(z); bit z1 = measure p.q; echo(z1); }"),
    ("plain-reuse", HCLS + "function main() -> void { qubit keep; H o = new H(); x(o.q); h(keep); cx(keep, o.q); destroy o; H p = new H(); bit z = measure p.q; echo(z); }"),
]


def _fresh(item):
    name, src = item
    runs, capped = qcheck.dfs_outcomes(src, gc="own", max_runs=32, want="amps,ops,flags,inv")
    bad = []
    for script, r in runs:
        if r.crash or r.status() != "ok":
            bad.append("status %s: %s" % (r.status(), (r.rec or {}).get("msg", r["fd2"][:300])))
            continue
        rec = r.rec
        ms = [d for d in rec["draws"] if d[0] == "measure"]
        first_line = rec["stdout"].split("\n")[0]
        # the first measure of the program is the one on the freshly declared qubit
        if not ms:
            bad.append("no measurement was performed")
        elif not ms[0][2] <= 1e-12:
            bad.append("a freshly declared qubit (after release and reuse of its simulator index) reads 1 with probability %g" % ms[0][2])
        elif first_line != "0":
            bad.append("a freshly declared qubit was measured as %r" % first_line)
    return name, src, bad, len(runs)


def _one(item):
    name, src = item
    runs, capped = qcheck.dfs_outcomes(src, gc="own", max_runs=64, want="amps,ops,flags,inv,states")
    bad = []
    # group runs by the history up to (not including) the last reset's draw: each group is one pre-state
    groups = {}
    nresets = 0
    for script, r in runs:
        if r.crash or r.status() != "ok":
            bad.append("status %s: %s" % (r.status(), (r.rec or {}).get("msg", r["fd2"][:300])))
            continue
        rec = r.rec
        probs = qcheck.check_final_state(rec)
        if rec.get("inv_violation"):
            probs.append("state invariant: " + rec["inv_violation"])
        bad += probs
        ops = rec["ops"]
        states = rec["states"]
        ridx = [i for i, o in enumerate(ops) if o[0] == "reset"]
        if not ridx:
            bad.append("no reset operation was performed by a program that must reach one")
            continue
        # examine EVERY reset in the run (not only the last): group by op index and pre-state
        draws = rec["draws"]
        di = 0
        for i, o in enumerate(ops):
            if o[0] in ("measure", "reset"):
                d = draws[di]
                di += 1
            if o[0] != "reset":
                continue
            nresets += 1
            pre = refsim.amps_from_json(states[i - 1]) if i > 0 else [1 + 0j]
            post = refsim.amps_from_json(states[i])
            key = (i, tuple((round(a.real, 9), round(a.imag, 9)) for a in pre))
            # which branch is this? decided from the post-state itself against the reference branches
            br = None
            for b in ((1, 0) if d[3] < d[2] else (0, 1)):
                refb, w = refsim.reset_branch(pre, o[1], b)
                if refb is not None and len(refb) == len(post) and refsim.dist_up_to_phase(post, refb) <= 1e-9:
                    br = b
                    break
            if br is None:
                bad.append("reset op#%d on q%d: post-state is neither 'measured 0' nor 'measured 1 then flipped' of the pre-state" % (i, o[1]))
                continue
            groups.setdefault(key, {"pre": pre, "q": o[1], "branches": {}})["branches"][br] = post
    for (i, _), g in groups.items():
        pre, q = g["pre"], g["q"]
        n = len(pre).bit_length() - 1
        p1 = refsim.p1(pre, q)
        weights = {1: p1, 0: 1 - p1}
        need = [b for b in (0, 1) if weights[b] > 1e-12]
        if any(b not in g["branches"] for b in need):
            if len(g["branches"]) == 1 and len(need) == 2:
                # implementation showed a single branch although both have weight: accept only if it preserves rho alone
                need = list(g["branches"].keys())
                weights = {need[0]: 1.0}
            else:
                bad.append("reset op#%d: outcome DFS did not exhibit every branch (have %s need %s)" % (i, list(g["branches"]), need))
                continue
        for b, post in g["branches"].items():
            if any(abs(a) > 1e-12 for j, a in enumerate(post) if (j >> q) & 1):
                bad.append("reset op#%d: target q%d not in |0> afterwards" % (i, q))
        if n >= 2:
            rho0 = reduced_rho(pre, n, q)
            dim = 1 << (n - 1)
            acc = [[0j] * dim for _ in range(dim)]
            for b in need:
                rb = reduced_rho(g["branches"][b], n, q)
                for x in range(dim):
                    for y in range(dim):
                        acc[x][y] += weights[b] * rb[x][y]
            dev = max(abs(acc[x][y] - rho0[x][y]) for x in range(dim) for y in range(dim))
            if not dev <= 1e-9:
                bad.append("reset op#%d on q%d changed the reduced state of the other qubits by %g (averaged over %d branch(es))" % (i, q, dev, len(need)))
    return name, src, bad, len(runs), nresets, len(groups), capped


def main(tier):
    ck = vcheck.Check("C04", "model_checking", tier)
    runs = ([["bfs", "full", 3, 10], ["bfs", "full", 4, 9]] + simlevel.HISTORY_RUNS_THOROUGH + simlevel.COMPLEX_RUNS_THOROUGH) if tier == "thorough" else ([["bfs", "full", 3, 8]] + simlevel.HISTORY_RUNS_QUICK + simlevel.COMPLEX_RUNS_QUICK)
    res = simlevel.run_all(runs)
    simlevel.report(ck, res, {"C04"})
    for d in res:
        for s in d.get("samples", [])[:2]:
            ck.sample({"pass": "bfs", "history": s})
    nruns = nres = ngroups = 0
    for name, src, bad, n, nr, ng, capped in vdrv.pmap(_one, PROGRAMS):
        nruns += n
        nres += nr
        ngroups += ng
        if capped:
            ck.cap("outcome DFS capped for " + name)
        for p in bad:
            ck.violation("eval:%s:%s" % (name, " ".join(p.split(" ")[:2])), "%s\nprogram (%s):\n%s" % (p, name, src),
                         {"tool": "vdrv", "dfs": True, "job": {"kind": "run", "opts": {"want": "amps,ops,flags,inv,states", "gc": "own", "warn": 0}, "blobs": {"src": src}}})
        ck.sample({"pass": "eval", "path": name, "program": src, "reset_pre_states": ng})
    for name, src, bad, n in vdrv.pmap(_fresh, FRESH):
        nruns += n
        for p in bad:
            ck.violation("fresh:%s:%s" % (name, " ".join(p.split(" ")[:4])), "%s\nprogram (%s):\n%s" % (p, name, src),
                         {"tool": "vdrv", "dfs": True, "job": {"kind": "run", "opts": {"want": "amps,ops,flags,inv", "gc": "own", "warn": 0}, "blobs": {"src": src}}})
        ck.sample({"pass": "fresh", "path": name, "program": src})
    ck.assumptions += ["the reduced state is compared as a density matrix (1e-9); branch weights are the reference Born weights of the pre-state",
                       "uniformity of the standard generator is trusted (no frequency test)"]
    ck.finish({
        "states": sum(d.get("states", 0) for d in res) + ngroups,
        "transitions": sum(d.get("resets", 0) for d in res) + nres,
        "traces_validated_against_impl": sum(d.get("transitions", 0) for d in res) + nruns,
        "reset_transitions_sim": sum(d.get("resets", 0) for d in res),
        "entangled_reset_transitions_sim": sum(d.get("entangled_resets", 0) for d in res),
        "eval_programs": len(PROGRAMS) + len(FRESH), "eval_runs": nruns, "eval_resets_checked": nres,
        "runs": [{k: d.get(k) for k in ("args", "states", "transitions", "resets", "entangled_resets", "reset_draws", "capped", "max_reset_dev")} for d in res],
    }, exhaustive=not any(d.get("capped") for d in res))
