"""C11 (b): the real execute()/destructor with the real std::thread under the cooperative scheduler (harness/sched.cpp),
stateless DFS over schedules with iterated preemption / time-out bounds (harness/gcthread_mc.cpp)."""
import json, os, subprocess
from concurrent.futures import ThreadPoolExecutor
import vbuild, vcheck

PROGS = ["short.bloch", "sched_alloc_print.bloch", "sched_error.bloch", "sched_destroy.bloch", "no_classes.bloch"]


def run(ck, tier):
    exe = vbuild.ensure("plain", ["gcthread_mc"])["gcthread_mc"]
    P, T, cap = (3, 2, 150000) if tier == "thorough" else (2, 2, 30000)
    d = os.path.join(vcheck.VERIF, "harness", "thread_progs")

    def one(name):
        p = subprocess.run([exe, "explore", os.path.join(d, name), str(P), str(T), str(cap)], stdout=subprocess.PIPE, stderr=subprocess.PIPE, timeout=3000)
        if p.returncode != 0:
            return name, None, p.stderr.decode(errors="replace")[-1500:]
        return name, json.loads(p.stdout.decode().strip().split("\n")[-1]), ""
    with ThreadPoolExecutor(max_workers=len(PROGS)) as ex:
        res = list(ex.map(one, PROGS))
    tot_s = tot_p = 0
    per = {}
    for name, r, err in res:
        if r is None:
            ck.violation("sched:%s:explorer-died" % name, "gcthread_mc died on %s: %s" % (name, err), {"tool": "cmd", "argv": [exe, "explore", os.path.join(d, name), str(P), str(T)]})
            continue
        tot_s += r["schedules"]
        tot_p += r["points"]
        per[name] = {"schedules": r["schedules"], "max_points": r["max_points"], "threads": r["threads"], "distinct_outcomes": r["distinct_outcomes"]}
        if not r["deterministic"]:
            ck.harness_error("replaying the default schedule of %s twice gave different traces" % name)
        if r["capped"]:
            ck.cap("scheduler exploration of %s stopped at %d schedules (P=%d,T=%d)" % (name, cap, P, T))
        for v in r["violations"]:
            if v["key"].startswith("harness:"):
                ck.harness_error("%s on %s (choices %s)" % (v["key"], name, v["choices"]))
            ck.violation("sched:%s:%s" % (name, v["key"]), "%s: %s (x%d)\nschedule (choice at each scheduling point): %s\nsequential reference: %s" % (name, v["key"], v["count"], v["choices"], r["ref"]),
                         {"tool": "cmd", "argv": [exe, "replay", os.path.join(d, name), v["choices"]]})
        if r.get("sample"):
            ck.sample({"program": name, "schedule": r["sample"]}, limit=8)
    ck.assumptions.append("scheduler pass: sequentially consistent interleavings at the hooked points (pthread create/join/mutex/cond calls, BLOCH_VERIF_POINT before each access to the two atomics); a condition wait may also end by time-out (fake monotonic clock)")
    return {"scheduler_schedules": tot_s, "scheduler_points": tot_p, "scheduler_bounds": {"preemptions": P, "timeouts": T}, "scheduler_programs": per}
