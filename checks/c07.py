"""C07 - classical evaluation vs the documented semantics. All programs of two grammars (expressions: every operator x
operand-type pair x separating values, casts, concatenation, two-level nestings; statements: all statement trees up to a size
bound over two ints, an int[3], helper functions with by-value arrays, early returns, recursion) are run by the real
interpreter and by a reference interpreter written from the documentation (lib/refinterp.py)."""
import itertools
import vcheck, vdrv
from refinterp import *

VALS = {
    "int": [-7, -1, 0, 1, 2, 5],
    "long": [-3, 0, 2, 5000000000],
    "float": [-1.5, 0.0, 0.5, 2.0],
    "bit": [0, 1],
    "boolean": [True, False],
    "string": ["ab", "", "x y"],
    "char": ["c", "d"],
}
ARITH = ["+", "-", "*", "/", "%"]
CMP = ["<", "<=", ">", ">=", "==", "!="]


def L(t, v):
    return ("lit", t, v)


def expression_cases(tier):
    cases = []   # list of expression ASTs to echo
    for lt in NUM:
        for rt in NUM:
            for op in ARITH + CMP:
                for a in VALS[lt]:
                    for b in VALS[rt]:
                        cases.append(("bin", op, L(lt, a), L(rt, b)))
    for t in ("boolean", "bit", "string", "char"):
        for op in ("==", "!="):
            for a in VALS[t]:
                for b in VALS[t]:
                    cases.append(("bin", op, L(t, a), L(t, b)))
    for op in ("&&", "||"):
        for a in VALS["boolean"]:
            for b in VALS["boolean"]:
                cases.append(("bin", op, L("boolean", a), L("boolean", b)))
                cases.append(("bin", op, ("bin", "<", L("int", 1), L("int", 2 if a else 0)), L("boolean", b)))
    for a in VALS["boolean"]:
        cases.append(("un", "!", L("boolean", a)))
        cases.append(("un", "!", ("un", "!", L("boolean", a))))
    for op in ("&", "|", "^"):
        for a in (0, 1):
            for b in (0, 1):
                cases.append(("bin", op, L("bit", a), L("bit", b)))
    for a in (0, 1):
        cases.append(("un", "~", L("bit", a)))
    for t in NUM:
        for v in VALS[t]:
            cases.append(("un", "-", L(t, v)))
    # casts
    for v in (-2.7, -1.5, -0.4, 0.0, 0.4, 1.5, 2.7, 1e3):
        cases.append(("cast", "int", L("float", v)))
        cases.append(("cast", "long", L("float", v)))
        cases.append(("cast", "bit", L("float", v)))
        cases.append(("cast", "float", L("float", v)))
    for v in VALS["int"] + [1000000]:
        for tt in ("int", "long", "float", "bit"):
            cases.append(("cast", tt, L("int", v)))
    for v in (-3, 0, 2, 70000):
        for tt in ("int", "long", "float", "bit"):
            cases.append(("cast", tt, L("long", v)))
    for v in (0, 1):
        for tt in ("int", "long", "float", "bit"):
            cases.append(("cast", tt, L("bit", v)))
    # a cast binds tighter than a binary operator (docs/casting.md)
    cases.append(("bin", "/", ("cast", "float", L("int", 3)), L("int", 2)))
    cases.append(("bin", "+", ("cast", "int", L("float", 2.7)), L("int", 1)))
    # concatenation
    for s in VALS["string"]:
        for t in ("int", "long", "bit", "boolean", "string"):
            for v in VALS[t][:4]:
                cases.append(("bin", "+", L("string", s), L(t, v)))
                cases.append(("bin", "+", L(t, v), L("string", s)))
        cases.append(("bin", "+", L("string", s), ("bin", "+", L("int", 1), L("int", 2))))
        cases.append(("bin", "+", ("bin", "+", L("string", s), L("int", 1)), L("int", 2)))
    # result-TYPE witnesses: a long result that itself fits 32 bits is multiplied/added so that the true value only fits 64 bits
    for op in ("+", "-", "*", "%"):
        for a, b in ((7, 3), (5, 2), (1999999999, 3000000000) if op in ("%", "-") else (6, 5)):
            for lt, rt in (("int", "long"), ("long", "int"), ("long", "long")):
                if (lt == "int" and abs(a) > 2**31 - 1) or (rt == "int" and abs(b) > 2**31 - 1):
                    continue
                inner = ("bin", op, L(lt, a), L(rt, b))
                cases.append(("bin", "*", inner, L("int", 2000000000)))
                cases.append(("bin", "+", ("bin", "*", inner, L("int", 1000000000)), L("int", 2000000000)))
                cases.append(("bin", "*", inner, inner if op != "-" else L("int", 2000000011)))
    for v in (3, 70000):
        cases.append(("bin", "*", ("cast", "long", L("int", v)), L("int", 2000000000)))
        cases.append(("bin", "*", ("un", "-", L("long", v)), L("int", 2000000000)))
    # comparison results in concatenation
    for s0 in VALS["string"][:2]:
        cases.append(("bin", "+", L("string", s0), ("bin", "<", L("int", 1), L("int", 2))))
        cases.append(("bin", "+", ("bin", "==", L("int", 1), L("int", 2)), L("string", s0)))
    # two-level nestings over a reduced value set
    small = {"int": [-1, 2, 5], "long": [2, 5000000000], "float": [0.5, 2.0]}
    ops2 = ARITH + (CMP if tier == "thorough" else ["<", "=="])
    types3 = list(itertools.product(NUM, repeat=3)) if tier == "thorough" else [("int", "int", "int"), ("int", "long", "int"), ("int", "int", "float"), ("float", "int", "long"), ("long", "float", "int")]
    for o1 in ARITH:
        for o2 in ops2:
            for (t1, t2, t3) in types3:
                for a, b, c in itertools.product(small[t1][:2], small[t2][:2], small[t3][:2]):
                    cases.append(("bin", o2, ("bin", o1, L(t1, a), L(t2, b)), L(t3, c)))
                    if o2 in ARITH:
                        cases.append(("bin", o2, L(t3, c), ("bin", o1, L(t1, a), L(t2, b))))
    return cases


def classify(expr):
    """run one expression on the reference: -> ('ok', (type,text)) | ('err',) | None (unspecified)"""
    it = Interp([("main", [], "void", [("echo", expr)])])
    try:
        out = it.run()
        return ("ok", out[0])
    except RuntimeErr:
        return ("err",)
    except (Unspecified, StepLimit):
        return None


def expr_programs(tier):
    oks, errs = [], []
    dropped = 0
    for e in expression_cases(tier):
        try:
            ex_src(e)
        except Unspecified:
            dropped += 1
            continue
        c = classify(e)
        if c is None:
            dropped += 1
        elif c[0] == "ok":
            oks.append((e, c[1]))
        else:
            errs.append(e)
    progs = []
    B = 40
    for i in range(0, len(oks), B):
        chunk = oks[i:i + B]
        fns = [("main", [], "void", [("echo", e) for e, _ in chunk])]
        progs.append(("expr", fns, ("ok", [o for _, o in chunk])))
    for e in errs:
        fns = [("main", [], "void", [("echo", L("int", 1)), ("echo", e)])]
        progs.append(("expr-error", fns, ("err",)))
    return progs, dropped


# ---- statement programs ---------------------------------------------------------------------------------------------------------
X, Y, I = ("var", "x"), ("var", "y"), ("var", "i")
HELPERS = [
    # early return out of a while inside a for
    ("find", [("int", "n")], "int", [("for", ("decl", "int", "i", L("int", 0)), ("bin", "<", I, L("int", 5)), ("assignx", "i", ("bin", "+", I, L("int", 1))),
                                          [("decl", "int", "j", L("int", 0)), ("while", ("bin", "<", ("var", "j"), L("int", 3)),
                                                                               [("if", ("bin", "==", ("bin", "+", ("bin", "*", I, L("int", 3)), ("var", "j")), ("var", "n")), [("ret", ("bin", "*", I, L("int", 10)))], None),
                                                                                ("assign", "j", ("bin", "+", ("var", "j"), L("int", 1)))])]),
                                  ("ret", ("un", "-", L("int", 1)))]),
    # by-value array parameter: the callee's writes must not reach the caller
    ("sum", [("int[]", "v")], "int", [("aassign", "v", L("int", 0), ("bin", "+", ("idx", "v", L("int", 0)), L("int", 100))),
                                      ("ret", ("bin", "+", ("bin", "+", ("idx", "v", L("int", 0)), ("idx", "v", L("int", 1))), ("idx", "v", L("int", 2))))]),
    ("fact", [("int", "n")], "int", [("if", ("bin", "<=", ("var", "n"), L("int", 1)), [("ret", L("int", 1))], None), ("ret", ("bin", "*", ("var", "n"), ("call", "fact", [("bin", "-", ("var", "n"), L("int", 1))])))]),
    ("fib", [("int", "n")], "int", [("if", ("bin", "<", ("var", "n"), L("int", 2)), [("ret", ("var", "n"))], None),
                                    ("ret", ("bin", "+", ("call", "fib", [("bin", "-", ("var", "n"), L("int", 1))]), ("call", "fib", [("bin", "-", ("var", "n"), L("int", 2))])))]),
    # a return inside a loop body must stop the loop at once: every later iteration would echo again
    ("trace", [("int", "n")], "int", [("for", ("decl", "int", "i", L("int", 0)), ("bin", "<", I, L("int", 4)), ("assignx", "i", ("bin", "+", I, L("int", 1))),
                                           [("echo", ("bin", "+", L("string", "t"), I)), ("if", ("bin", "==", I, ("var", "n")), [("ret", ("bin", "*", I, L("int", 7)))], None)]),
                                      ("echo", L("string", "end")), ("ret", L("int", 9))]),
    ("wtrace", [("int", "n")], "int", [("decl", "int", "k", L("int", 0)),
                                       ("while", ("bin", "<", ("var", "k"), L("int", 4)),
                                        [("echo", ("bin", "+", L("string", "w"), ("var", "k"))), ("assign", "k", ("bin", "+", ("var", "k"), L("int", 1))),
                                         ("if", ("bin", ">", ("var", "k"), ("var", "n")), [("block", [("ret", ("var", "k"))])], None)]),
                                       ("ret", ("un", "-", L("int", 1)))]),
    # a return inside a for body ends the loop there and then: neither the increment nor the condition is evaluated again (headers with
    # a call in the increment, a call in the condition, a condition that would fail for the next index)
    ("step", [("int", "v")], "int", [("ret", ("bin", "+", ("var", "v"), L("int", 1)))]),
    ("lt", [("int", "p"), ("int", "q")], "boolean", [("ret", ("bin", "<", ("var", "p"), ("var", "q")))]),
    ("ffind", [("int", "n")], "int", [("for", ("decl", "int", "i", L("int", 0)), ("bin", "<", I, L("int", 5)), ("assignx", "i", ("call", "step", [I])),
                                           [("if", ("bin", "==", I, ("var", "n")), [("ret", ("bin", "*", I, L("int", 10)))], None)]),
                                      ("ret", ("un", "-", L("int", 1)))]),
    ("cfind", [("int", "n")], "int", [("for", ("decl", "int", "i", L("int", 0)), ("call", "lt", [I, L("int", 5)]), ("assignx", "i", ("bin", "+", I, L("int", 1))),
                                           [("if", ("bin", "==", I, ("var", "n")), [("ret", ("bin", "+", ("bin", "*", I, L("int", 10)), L("int", 1)))], None)]),
                                      ("ret", ("un", "-", L("int", 2)))]),
    ("lastidx", [("int[]", "v")], "int", [("for", ("decl", "int", "i", L("int", 0)), ("bin", ">=", ("idx", "v", I), ("un", "-", L("int", 50))), ("assignx", "i", ("bin", "+", I, L("int", 1))),
                                               [("if", ("bin", "==", I, L("int", 2)), [("ret", ("bin", "+", ("idx", "v", I), L("int", 2)))], None)]),
                                          ("ret", ("un", "-", L("int", 3)))]),
    ("wfind", [("int", "n")], "int", [("decl", "int", "k", L("int", 0)),
                                      ("while", ("call", "lt", [("var", "k"), L("int", 5)]),
                                       [("if", ("bin", "==", ("var", "k"), ("var", "n")), [("ret", ("bin", "+", ("bin", "*", ("var", "k"), L("int", 10)), L("int", 3)))], None),
                                        ("assign", "k", ("call", "step", [("var", "k")]))]),
                                      ("ret", ("un", "-", L("int", 4)))]),
    # nested loops: a return from the inner for must also skip the OUTER loop's increment and condition (both calls)
    ("nfind", [("int", "n")], "int", [("for", ("decl", "int", "i", L("int", 0)), ("call", "lt", [I, L("int", 3)]), ("assignx", "i", ("call", "step", [I])),
                                           [("for", ("decl", "int", "j", L("int", 0)), ("bin", "<", ("var", "j"), L("int", 3)), ("assignx", "j", ("call", "step", [("var", "j")])),
                                             [("if", ("bin", "==", ("bin", "+", ("bin", "*", I, L("int", 3)), ("var", "j")), ("var", "n")), [("ret", ("bin", "+", ("bin", "*", I, L("int", 100)), ("var", "j")))], None)])]),
                                      ("ret", ("un", "-", L("int", 5)))]),
    # an int entering a slot declared long (parameter, result, local) is a long from then on: squares of 100000 need 64 bits
    ("sq", [("long", "n")], "long", [("ret", ("bin", "*", ("var", "n"), ("var", "n")))]),
    ("big", [], "long", [("ret", L("int", 100000))]),
    ("lsq", [("int", "n")], "long", [("decl", "long", "w", ("bin", "+", ("var", "n"), L("int", 99990))), ("assign", "w", ("bin", "*", ("var", "w"), ("var", "w"))),
                                     ("decl", "long", "u", L("int", 5)), ("assign", "u", ("bin", "+", ("var", "n"), L("int", 70000))), ("ret", ("bin", "+", ("var", "w"), ("bin", "*", ("var", "u"), ("var", "u"))))]),
    # ... and so is the VALUE of an assignment into a long slot (variable or element), found by a round-9 seeding agent on the unchanged tree
    ("lasg", [("int", "n")], "long", [("decl", "long", "w", L("int", 0)), ("ret", ("bin", "*", ("assignx", "w", ("bin", "+", ("var", "n"), L("int", 99990))), ("var", "w")))]),
    ("laasg", [("int", "n")], "long", [("decl", "long[]", "v", ("arrlit", "long[]", [L("long", 0), L("long", 0)])),
                                       ("ret", ("bin", "*", ("aassignx", "v", L("int", 1), ("bin", "+", ("var", "n"), L("int", 99990)), True), L("int", 100000)))]),
    ("half", [("int", "n")], "float", [("ret", ("bin", "/", ("var", "n"), L("int", 2)))]),
    ("wide", [("long", "n")], "long", [("ret", ("bin", "*", ("var", "n"), L("long", 3)))]),
]
ATOMS = [
    ("assign", "x", ("bin", "+", X, L("int", 1))),
    ("assign", "x", ("bin", "*", X, L("int", 2))),
    ("assign", "y", ("bin", "+", Y, X)),
    ("assign", "y", ("bin", "-", Y, L("int", 1))),
    ("expr", ("post", "++", "x")),
    ("expr", ("post", "--", "y")),
    ("assign", "y", ("post", "++", "x")),
    ("aassign", "a", L("int", 1), X),
    ("aassign", "a", X, Y),
    ("assign", "x", ("idx", "a", Y)),
    ("echo", X),
    ("echo", ("var", "a")),
    ("assign", "x", ("call", "find", [Y])),
    ("assign", "y", ("call", "sum", [("var", "a")])),
    ("assign", "x", ("call", "fact", [Y])),
    ("assign", "y", ("call", "fib", [X])),
    ("assign", "x", ("bin", "%", Y, L("int", 3))),
    ("assign", "y", ("cast", "int", ("bin", "/", X, L("int", 2)))),
    ("echo", ("call", "half", [X])),
    ("echo", ("call", "wide", [X])),
    ("assign", "x", ("bin", "%", X, Y)),
    ("assign", "x", ("call", "trace", [Y])),
    ("assign", "y", ("call", "wtrace", [X])),
    ("assign", "x", ("call", "ffind", [Y])),
    ("assign", "y", ("call", "cfind", [X])),
    ("assign", "x", ("call", "lastidx", [("var", "a")])),
    ("assign", "y", ("call", "wfind", [X])),
    ("echo", ("call", "sq", [("bin", "+", X, L("int", 100000))])),
    ("echo", ("bin", "*", ("call", "big", []), ("call", "big", []))),
    ("echo", ("call", "lsq", [X])),
    # an index that only fits 64 bits is out of bounds, not position 0
    ("assign", "x", ("idx", "a", ("bin", "+", L("long", 4294967296), Y))),
    ("aassign", "a", ("bin", "+", L("long", 4294967296), L("long", 1)), X),
    ("assign", "x", ("call", "nfind", [Y])),
    # grouping parentheses around a callee, a collection, an assignment target (hunt C14/d12)
    ("assign", "x", ("pcall", "find", [Y])),
    ("assign", "y", ("pidx", "a", X)),
    ("passign", "x", ("bin", "+", Y, L("int", 3))),
    ("paassign", "a", L("int", 1), ("bin", "+", X, Y)),
    # assignments as values (hunt C07/d7): 'x = a[1] = 9', 'a[0] = a[2] = 7', '(x = 4) + 1'
    ("assign", "x", ("aassignx", "a", L("int", 1), L("int", 9), False)),
    ("aassign", "a", L("int", 0), ("aassignx", "a", L("int", 2), ("bin", "+", Y, L("int", 7)), False)),
    ("aassign", "a", L("int", 0), ("bin", "+", ("assignx", "x", L("int", 4)), L("int", 1))),
    ("assign", "y", ("bin", "*", ("aassignx", "a", X, Y, True), L("int", 2))),
    ("echo", ("assignx", "y", ("bin", "+", X, L("int", 1)))),
    # ... whose value has the slot's type, and whose element writes survive an enclosing element assignment (round 9)
    ("echo", ("call", "lasg", [X])),
    ("echo", ("call", "laasg", [Y])),
    ("aassign", "a", ("aassignx", "a", L("int", 0), L("int", 1), True), ("bin", "+", Y, L("int", 5))),
    ("aassign", "a", L("int", 1), ("bin", "+", ("aassignx", "a", L("int", 2), X, True), ("aassignx", "a", L("int", 0), Y, True))),
]


def compounds(bodies):
    out = []
    for b in bodies:
        out.append(("if", ("bin", "<", X, Y), [b], None))
        out.append(("while", ("bin", "<", X, L("int", 3)), [b, ("assign", "x", ("bin", "+", X, L("int", 1)))]))
        out.append(("for", ("decl", "int", "i", L("int", 0)), ("bin", "<", I, L("int", 2)), ("assignx", "i", ("bin", "+", I, L("int", 1))), [b]))
        out.append(("for", ("decl", "int", "i", L("int", 0)), ("bin", "<", I, L("int", 3)), ("post", "++", "i"), [b, ("aassign", "a", I, ("bin", "+", X, I))]))
    for b1, b2 in itertools.product(bodies[:6], bodies[:6]):
        out.append(("if", ("bin", "==", X, L("int", 2)), [b1], [b2]))
        out.append(("tern", ("bin", ">", X, L("int", 1)), b1, b2))
        out.append(("if", ("bin", "&&", ("bin", "<", X, Y), ("un", "!", ("bin", "==", Y, L("int", 2)))), [b1, b2], None))
    return out


def stmt_programs(tier):
    atoms = ATOMS
    comp = compounds(atoms)
    level1 = atoms + comp
    nested = []
    for c in comp[:: (3 if tier != "thorough" else 1)]:
        nested.append(("if", ("bin", ">=", Y, L("int", 0)), [c], [("echo", L("int", 99))]))
        nested.append(("while", ("bin", "<", Y, L("int", 2)), [c, ("assign", "y", ("bin", "+", Y, L("int", 1)))]))
    alls = level1 + nested
    inits = [(1, 2), (0, 0), (2, 1)] if tier == "thorough" else [(1, 2), (2, 0)]
    seqs = []
    for s in alls:
        seqs.append([s])
    pool2 = level1 if tier == "thorough" else atoms + comp[::4]
    for s1, s2 in itertools.product(pool2, pool2):
        seqs.append([s1, s2])
    if tier == "thorough":
        for s1, s2, s3 in itertools.product(atoms[:12], atoms + comp[::6], atoms[:12]):
            seqs.append([s1, s2, s3])
    progs = []
    dropped = 0
    tail = [("echo", X), ("echo", Y), ("echo", ("var", "a"))]
    for seq in seqs:
        for (x0, y0) in inits:
            main = ("main", [], "void", [("decl", "int", "x", L("int", x0)), ("decl", "int", "y", L("int", y0)), ("decl", "int[3]", "a", None)] + seq + tail)
            fns = HELPERS + [main]
            it = Interp(fns, step_limit=4000)
            try:
                out = it.run()
                progs.append(("stmt", fns, ("ok", out)))
            except RuntimeErr:
                progs.append(("stmt-error", fns, ("err",)))
            except (Unspecified, StepLimit, RecursionError):
                dropped += 1
    return progs, dropped


def _one(item):
    kind, fns, exp = item
    src = program_src(fns)
    r = vdrv.run_src(src, gc="own", warn=0)
    if r.crash:
        return kind, src, "interpreter died: %s %s" % (r.crash, r["fd2"][:300]), None
    rec = r.rec
    st = rec.get("status")
    if exp[0] == "err":
        if st != "runtime":
            return kind, src, "the reference raises a documented runtime error, the interpreter ended with status %s and output %r %s" % (st, rec.get("stdout"), rec.get("msg", "")), None
        return kind, src, None, "runtime-error"
    if st != "ok":
        return kind, src, "the reference runs to completion (%d echoes) but the interpreter stopped with %s at line %s: %s" % (len(exp[1]), st, rec.get("line"), rec.get("msg")), None
    prob = compare_output(exp[1], rec["stdout"])
    return kind, src, prob, rec["stdout"][:60]


def main(tier):
    ck = vcheck.Check("C07", "exploration", tier)
    ep, d1 = expr_programs(tier)
    sp, d2 = stmt_programs(tier)
    progs = ep + sp
    ck.set_deadline(1700 if tier == "thorough" else 170)
    distinct = set()
    n = 0
    nexpr = sum(len(p[2][1]) if p[2][0] == "ok" else 1 for p in ep)
    B = 4000
    for start in range(0, len(progs), B):
        if ck.out_of_time():
            ck.cap("deadline after %d of %d programs" % (n, len(progs)))
            break
        for kind, src, prob, sig in vdrv.pmap(_one, progs[start:start + B], chunksize=16):
            n += 1
            if prob:
                ck.violation("%s:%s" % (kind, " ".join(prob.split(" ")[:7])), "%s\nprogram:\n%s" % (prob, src), {"tool": "vdrv", "job": {"kind": "run", "opts": {"gc": "own", "warn": 0}, "blobs": {"src": src}}})
            else:
                distinct.add(sig)
            if n % 2503 == 1:
                ck.sample({"kind": kind, "program": src[-600:]})
    ck.assumptions += ["floats are compared numerically to the six significant digits echo prints (1e-5 relative); array echoes ignoring spaces; on a runtime error only the category is compared",
                       "outside the alphabet because the documentation does not fix them: int/long overflow, % with negative operands, float division by zero, char text, floats inside concatenation, short-circuiting"]
    ck.finish({"evaluations": n, "distinct_nontrivial": len(distinct), "rule": "every expression case and statement program of the generators; distinct = distinct observed outputs (first 60 chars) among agreeing programs",
               "expression_cases": nexpr, "expression_programs": len(ep), "statement_programs": len(sp), "dropped_unspecified": d1 + d2})
