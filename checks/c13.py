"""C13 - the front end is total. Exhaustive enumeration through the real lexer/parser/analyser (reused analyser instance)
in-process under ASan+UBSan: all token strings up to length k over several alphabets x syntactic contexts, all byte strings
up to length b, every truncation / single-token deletion / duplication / swap / replacement / insertion of seed programs,
bracket and recursive-construct nesting to depth 200; import loading through the real CLI on module trees."""
import glob, json, os, re, subprocess, time
from concurrent.futures import ThreadPoolExecutor
import vcheck, vbuild, vdrv

NPARTS = 16
SHM = "/dev/shm"


def run_partitioned(exe, args_before, nparts, deadline, tag):
    """runs one enumeration split into nparts processes; restarts a partition after a crash/hang, attributing the input.
    returns (summaries, crashes) ; crashes = list of (kind, n, input_bytes, stderr)"""
    def one(part):
        start = 0
        sums, crashes = [], []
        prog = "%s/verif_c13_%d_%s_%d" % (SHM, os.getpid(), tag, part)
        t0 = time.time()
        while True:
            left = max(1.0, deadline - (time.time() - t0))
            p = subprocess.run([exe] + args_before + [str(part), str(nparts), str(start), prog, str(left)], stdout=subprocess.PIPE, stderr=subprocess.PIPE)
            if p.returncode == 0:
                try:
                    sums.append(json.loads(p.stdout.decode(errors="replace").strip().split("\n")[-1]))
                except Exception as e:
                    crashes.append(("bad-summary", -1, b"", p.stdout.decode(errors="replace")[-500:] + p.stderr.decode(errors="replace")[-500:]))
                break
            # abnormal end: read the progress file
            try:
                raw = open(prog, "rb").read()
                hdr, rest = raw.split(b"\n", 1)
                n, ln = hdr.split()
                n, ln = int(n), int(ln)
                inp = rest[:ln]
            except Exception:
                crashes.append(("lost", -1, b"", p.stderr.decode(errors="replace")[-1500:]))
                break
            kind = "hang" if p.returncode == -14 else ("signal:%d" % -p.returncode if p.returncode < 0 else "exit:%d" % p.returncode)
            crashes.append((kind, n, inp, p.stderr.decode(errors="replace")[-2500:]))
            start = n + 1
            if len(crashes) > 5:
                break
        try:
            os.remove(prog)
        except OSError:
            pass
        return sums, crashes
    with ThreadPoolExecutor(max_workers=nparts) as ex:
        res = list(ex.map(one, range(nparts)))
    sums = [s for r in res for s in r[0]]
    crashes = [c for r in res for c in r[1]]
    return sums, crashes


def seeds(tier):
    out = []
    for f in sorted(glob.glob("/repo/examples/*.bloch")) + sorted(glob.glob("/repo/examples/multifile/**/*.bloch", recursive=True)) + sorted(glob.glob("/repo/library/**/*.bloch", recursive=True)):
        out.append((os.path.relpath(f, "/repo"), open(f).read()))
    # fenced code blocks of the documentation that look like programs
    for f in sorted(glob.glob("/repo/docs/**/*.md", recursive=True)):
        txt = open(f).read()
        for i, m in enumerate(re.finditer(r"```[a-z]*\n(.*?)```", txt, re.S)):
            body = m.group(1)
            if "function" in body or "class" in body:
                out.append(("%s#%d" % (os.path.relpath(f, "/repo"), i), body))
    gen = [
        ("gen/quantum", "@quantum function flip(qubit a) -> bit { h(a); bit b = measure a; return b; }\nfunction main() -> void { @tracked qubit q; qubit[2] r; h(r[0]); cx(r[0], r[1]); rx(q, 0.5f); bit b = flip(q); reset q; measure r; if (b) { echo(\"one\"); } else { echo(\"zero\"); } }\n"),
        ("gen/classes", "class A { public int v = 1; protected static int n = 0; public constructor(int x) -> A { this.v = x; A.n = A.n + 1; return this; } public virtual function m() -> int { return this.v; } public destructor() -> void { echo(\"~A\"); } }\nclass B extends A { private final float f; public constructor() -> B { super(2); this.f = 1.5f; return this; } public override function m() -> int { return super.m() + 1; } }\nfunction main() -> void { A a = new B(); echo(a.m()); a = null; B b = new B(); destroy b; }\n"),
        ("gen/generic", "class Box<T> { public T v; public static int count = 0; public constructor(T x) -> Box<T> { this.v = x; return this; } public function get() -> T { return this.v; } }\nfunction main() -> void { Box<int> b = new Box<int>(3); Box<float> c = new Box<float>(1.5f); echo(b.get()); echo(c.get()); }\n"),
        ("gen/control", "function fib(int n) -> int { if (n < 2) { return n; } return fib(n - 1) + fib(n - 2); }\nfunction main() -> void { int[3] a = {1, 2, 3}; long s = 0L; for (int i = 0; i < 3; i++) { s = s + a[i]; } while (s > 0L) { s = s - 2L; } final int k = 4; int[k] z; z[1] = (int) 2.5f; s > 0L ? echo(\"p\") : echo(\"n\"); echo(fib(5) % 3); char c = 'x'; string t = \"a\" + 1 + c; bit q = 1b & ~0b; boolean w = !true || false; echo(t); }\n"),
        ("gen/hierarchy", "class Root { public int r; public constructor() -> Root = default; public virtual function m() -> int { return 0; } }\nclass Shape extends Root { public constructor() -> Shape = default; public override function m() -> int { return 1; } }\nclass Circle extends Shape { public constructor() -> Circle = default; }\nclass Disc extends Circle { public constructor() -> Disc = default; }\nclass Ring extends Circle { public constructor() -> Ring = default; }\nclass Dot extends Disc { public constructor() -> Dot = default; }\nclass Ball extends Root { public constructor() -> Ball = default; }\nfunction main() -> void { Root o = new Dot(); echo(o.m()); }\n"),
        ("gen/shots", "@shots(3)\nfunction main() -> void { @tracked qubit q; h(q); measure q; }\n"),
        ("gen/imports", "package app;\nimport lib.util.Helper;\nimport lib.util.*;\nfunction main() -> void { echo(1); }\n"),
    ]
    out += gen
    if tier != "thorough":
        keep = [s for s in out if s[0].startswith(("gen/", "examples/0", "library/"))]
        out = keep
    return out


def main(tier):
    ck = vcheck.Check("C13", "exploration", tier)
    exe = vbuild.ensure("asan", ["front_mc"])["front_mc"]
    thorough = tier == "thorough"
    plan = []
    if thorough:
        for alpha, ctxs, k in ((0, (0, 2), 5), (1, (1, 3, 4), 5), (2, (2,), 5), (3, (0, 1, 2), 6)):
            for c in ctxs:
                plan.append((["tokens", str(alpha), str(c), str(k)], 420, "t%d_%d" % (alpha, c)))
        plan.append((["Ltokens", "5", "5", "5"], 420, "L5"))
        plan.append((["bytes", "3"], 600, "bytes"))
        plan.append((["nest", "200"], 300, "nest"))
        plan.append((["hier", "5"], 300, "hier"))
    else:
        for alpha, ctxs, k in ((0, (0,), 4), (1, (1, 3), 4), (2, (2,), 4), (3, (1,), 5)):
            for c in ctxs:
                plan.append((["tokens", str(alpha), str(c), str(k)], 100, "t%d_%d" % (alpha, c)))
        plan.append((["Ltokens", "5", "5", "4"], 100, "L5"))
        plan.append((["bytes", "2"], 60, "bytes"))
        plan.append((["nest", "120"], 60, "nest"))
        plan.append((["hier", "4"], 60, "hier"))
    sd = seeds(tier)
    os.makedirs(os.path.join(vcheck.VERIF, "build", "tmp"), exist_ok=True)
    for i, (name, text) in enumerate(sd):
        path = os.path.join(vcheck.VERIF, "build", "tmp", "c13_seed_%d.bloch" % i)
        open(path, "w").write(text)
        mode = "Ledits" if name in ("gen/imports", "gen/shots") or name.startswith("examples/multifile") else "edits"
        plan.append(([mode, path, "4"], 240 if thorough else 60, "e%d" % i))
    tot = {"inputs": 0, "accepted": 0, "lexical": 0, "parse": 0, "semantic": 0, "reuse_probes": 0, "distinct_outcomes": 0}
    runs = []
    for args, deadline, tag in plan:
        sums, crashes = run_partitioned(exe, args, NPARTS, deadline, tag)
        for s in sums:
            for k in tot:
                tot[k] += s[k]
            if s["capped"]:
                ck.cap("%s: deadline hit" % " ".join(args[:4]))
            for v in s["violations"]:
                ck.violation(v["key"], "%s (x%d)\ninput: %r" % (v["what"], v["count"], v["input"]), {"tool": "front_mc-file", "input": v["input"]})
            for smp in s["samples"][:1]:
                ck.sample(smp, limit=8)
        for kind, n, inp, err in crashes:
            m = re.search(r"ERROR: AddressSanitizer: ([a-z-]+)", err)
            k2 = ("sanitizer:" + m.group(1)) if m else kind
            frame = re.search(r"#\d+ 0x[0-9a-f]+ in (bloch::[A-Za-z_:]+)", err)
            ck.violation("crash:%s:%s" % (k2, frame.group(1) if frame else "?"), "front end died (%s) on input #%d of `%s`:\n%r\n%s" % (k2, n, " ".join(args[:4]), inp.decode("latin-1"), err[-1200:]),
                         {"tool": "front_mc-file", "input": inp.decode("latin-1")})
        runs.append({"enum": " ".join(os.path.basename(a) for a in args), "inputs": sum(s["inputs"] for s in sums), "crashes": len(crashes)})
    # (hunt C13/d3) what the entry path names: a directory, nothing, an empty file, a file of spaces - one categorised diagnostic or a run,
    # never a raw C++ message
    import vdrv
    nentry = 0
    for label, files, mk, path in (("directory", {"d/keep.txt": "x"}, "", "d"), ("directory-named-like-source", {"p.bloch/keep.txt": "x"}, "", "p.bloch"), ("missing", {"other.bloch": "function main() -> void { }\n"}, "", "nofile.bloch"),
                                   ("empty-file", {"e.bloch": ""}, "", "e.bloch"), ("blank-file", {"b.bloch": "  \n\n"}, "", "b.bloch"), ("valid", {"v.bloch": "function main() -> void { }\n"}, "", "v.bloch"),
                                   ("directory-with-trailing-slash", {"d2/keep.txt": "x"}, "", "d2/")):
        r = vdrv.run_job({"id": "e", "kind": "cli", "opts": {"gc": "own"}, "argv": ["bloch", path], "files": files})
        nentry += 1
        if r.crash or r.rec is None:
            ck.violation("entry:%s:died" % label, "the CLI died on entry path %r: %s %s" % (path, r.crash, r["fd2"][:300]), {"tool": "text", "case": "bloch " + path})
            continue
        err = r.rec["stderr"]
        cats = re.findall(r"(Lexical|Parse|Semantic|Runtime) error", err)
        if r.rec["rc"] == 0:
            continue
        if len(cats) != 1:
            ck.violation("entry:%s:uncategorised" % label, "entry path %r (%s): exit %d with %d categorised diagnostics instead of one: %r" % (path, label, r.rec["rc"], len(cats), err[-300:]), {"tool": "text", "case": "bloch " + path})
    tot["inputs"] += nentry
    ck.assumptions += ["'never hangs' = terminates within 5 s per input (3+ orders of magnitude above the mean)",
                       "UBSan pointer-overflow reports from forming (not reading) m_tokens[m_current-1] are not counted; ASan reports and signals are"]
    ck.finish({"evaluations": tot["inputs"], "distinct_nontrivial": tot["distinct_outcomes"],
               "rule": "all token strings <= k over 4 alphabets x contexts, all byte strings <= b, every truncation/single-token edit of %d seeds, nesting to depth 120/200; distinct = (outcome category, diagnostic message class) pairs summed over partitions" % len(sd),
               "accepted": tot["accepted"], "lexical": tot["lexical"], "parse": tot["parse"], "semantic": tot["semantic"], "reuse_probes": tot["reuse_probes"], "seeds": len(sd), "runs": runs})
