// sim_mc: explicit-state exploration of the real QasmSimulator against an independent reference.
//   sim_mc matrix <N> <anglestep>          C01 matrix pass: every gate x target x angle x basis column, n <= N
//   sim_mc bfs <mode> <N> <depth> [maxstates]   BFS over op histories; mode = unitary | full
//   sim_mc replay <history>                 re-run one history, print every step
// Output: JSON on stdout.
#include <algorithm>
#include <cmath>
#include <complex>
#include <cstdio>
#include <cstring>
#include <deque>
#include <map>
#include <set>
#include <sstream>
#include <string>
#include <unordered_map>
#include <vector>

#include "bloch/runtime/qasm_simulator.hpp"
#include "bloch/support/error/bloch_error.hpp"
#include "bloch/support/verif_hooks.hpp"
#include "vutil.hpp"

using bloch::runtime::QasmSimulator;
using cd = std::complex<double>;
using Vec = std::vector<cd>;
using vutil::jnum;
using vutil::jstr;

extern "C" const char* __asan_default_options() { return "detect_leaks=0:halt_on_error=1:exitcode=77"; }

static const double PI = 3.14159265358979323846;

// ---------------------------------------------------------------------------------------------
// Reference semantics, written from the definitions (qelib1 / exp(-i t P/2)), little endian:
// qubit k is bit k of the basis index. Out-of-place, entry-wise formulas; no shared code with Bloch.
// ---------------------------------------------------------------------------------------------
struct M2 {
    cd m[2][2];
};
static M2 refMatrix(const std::string& g, double t) {
    const cd I(0, 1);
    double s = 1.0 / std::sqrt(2.0);
    M2 u{};
    if (g == "h") {
        u.m[0][0] = s; u.m[0][1] = s; u.m[1][0] = s; u.m[1][1] = -s;
    } else if (g == "x") {
        u.m[0][1] = 1; u.m[1][0] = 1;
    } else if (g == "y") {
        u.m[0][1] = -I; u.m[1][0] = I;
    } else if (g == "z") {
        u.m[0][0] = 1; u.m[1][1] = -1;
    } else if (g == "rx") {  // cos(t/2) I - i sin(t/2) X
        u.m[0][0] = std::cos(t / 2); u.m[1][1] = std::cos(t / 2);
        u.m[0][1] = -I * std::sin(t / 2); u.m[1][0] = -I * std::sin(t / 2);
    } else if (g == "ry") {  // cos(t/2) I - i sin(t/2) Y
        u.m[0][0] = std::cos(t / 2); u.m[1][1] = std::cos(t / 2);
        u.m[0][1] = -std::sin(t / 2); u.m[1][0] = std::sin(t / 2);
    } else if (g == "rz") {  // cos(t/2) I - i sin(t/2) Z
        u.m[0][0] = cd(std::cos(t / 2), -std::sin(t / 2));
        u.m[1][1] = cd(std::cos(t / 2), std::sin(t / 2));
    }
    return u;
}
static Vec refApply1(const Vec& in, int k, const M2& u) {
    Vec out(in.size());
    for (size_t j = 0; j < in.size(); ++j) {
        int bj = (j >> k) & 1;
        size_t j0 = j & ~(size_t{1} << k), j1 = j | (size_t{1} << k);
        out[j] = u.m[bj][0] * in[j0] + u.m[bj][1] * in[j1];
    }
    return out;
}
static Vec refCx(const Vec& in, int c, int t) {
    Vec out(in.size());
    for (size_t j = 0; j < in.size(); ++j) {
        size_t src = ((j >> c) & 1) ? (j ^ (size_t{1} << t)) : j;
        out[j] = in[src];
    }
    return out;
}
static double refP1(const Vec& in, int k) {
    double p = 0;
    for (size_t j = 0; j < in.size(); ++j)
        if ((j >> k) & 1) p += std::norm(in[j]);
    return p;
}
static Vec refProject(const Vec& in, int k, int outcome, double& w) {
    Vec out(in.size());
    w = 0;
    for (size_t j = 0; j < in.size(); ++j)
        if ((int)((j >> k) & 1) == outcome) {
            out[j] = in[j];
            w += std::norm(in[j]);
        }
    if (w > 0) {
        double s = 1.0 / std::sqrt(w);
        for (auto& c : out) c *= s;
    }
    return out;
}
// reduced density matrix of all qubits except k (dimension 2^(n-1)), as a flat vector
static std::vector<cd> refReduced(const Vec& psi, int k) {
    size_t dim = psi.size() / 2;
    auto expand = [&](size_t r, int b) {  // insert bit b at position k
        size_t low = r & ((size_t{1} << k) - 1);
        size_t high = (r >> k) << (k + 1);
        return high | (size_t(b) << k) | low;
    };
    std::vector<cd> rho(dim * dim);
    for (size_t a = 0; a < dim; ++a)
        for (size_t b = 0; b < dim; ++b) {
            cd s = 0;
            for (int bit = 0; bit < 2; ++bit) s += psi[expand(a, bit)] * std::conj(psi[expand(b, bit)]);
            rho[a * dim + b] = s;
        }
    return rho;
}

// ---------------------------------------------------------------------------------------------
struct Op {
    std::string g;  // alloc h x y z rx ry rz cx measure reset
    int a = -1, b = -1;
    double t = 0;
    int rmode = -1;  // for measure/reset: 0: r=0, 1: pred(p1), 2: p1, 3: succ(p1), 4: pred(1)
    std::string str() const {
        std::ostringstream o;
        o << g;
        if (a >= 0) o << " " << a;
        if (b >= 0) o << " " << b;
        if (g[0] == 'r' && g != "reset") {
            char buf[40];
            snprintf(buf, sizeof buf, " %.17g", t);
            o << buf;
        }
        if (rmode >= 0) o << " r" << rmode;
        return o.str();
    }
};
static std::string histStr(const std::vector<Op>& h) {
    std::string s;
    for (size_t i = 0; i < h.size(); ++i) s += (i ? "; " : "") + h[i].str();
    return s;
}

// hook state
static int g_rmode = 4;
struct DrawSeen {
    std::string what;
    int q;
    double p1, r;
};
static std::vector<DrawSeen> g_seen;
static double drawHook(const QasmSimulator*, const char* what, int q, double p1, double) {
    double r;
    switch (g_rmode) {
        case 0: r = 0.0; break;
        case 1: r = std::nextafter(p1, -1.0); break;
        case 2: r = p1; break;
        case 3: r = std::nextafter(p1, 2.0); break;
        default: r = std::nextafter(1.0, 0.0); break;
    }
    if (r < 0) r = 0;
    if (r >= 1) r = std::nextafter(1.0, 0.0);
    g_seen.push_back({what, q, p1, r});
    return r;
}

struct StepResult {
    bool threw = false;
    std::string msg;
    int ret = -1;
};
static StepResult applyImpl(QasmSimulator& sim, const Op& op) {
    StepResult r;
    g_rmode = op.rmode >= 0 ? op.rmode : 4;
    try {
        if (op.g == "alloc") r.ret = sim.allocateQubit();
        else if (op.g == "h") sim.h(op.a);
        else if (op.g == "x") sim.x(op.a);
        else if (op.g == "y") sim.y(op.a);
        else if (op.g == "z") sim.z(op.a);
        else if (op.g == "rx") sim.rx(op.a, op.t);
        else if (op.g == "ry") sim.ry(op.a, op.t);
        else if (op.g == "rz") sim.rz(op.a, op.t);
        else if (op.g == "cx") sim.cx(op.a, op.b);
        else if (op.g == "measure") r.ret = sim.measure(op.a);
        else if (op.g == "reset") sim.reset(op.a);
    } catch (const bloch::support::BlochError& e) {
        r.threw = true;
        r.msg = e.what();
    }
    return r;
}

static double maxDiffPhase(const Vec& impl, const Vec& ref, cd phase) {
    double d = 0;
    if (impl.size() != ref.size()) return INFINITY;
    for (size_t i = 0; i < impl.size(); ++i) {
        double x = std::abs(impl[i] - phase * ref[i]);
        if (!(x == x)) return INFINITY;  // NaN must not be swallowed by max()
        d = std::max(d, x);
    }
    return d;
}
static bool finiteVec(const Vec& v) {
    for (auto& c : v)
        if (!std::isfinite(c.real()) || !std::isfinite(c.imag())) return false;
    return true;
}
static double normOf(const Vec& v) {
    double n = 0;
    for (auto& c : v) n += std::norm(c);
    return n;
}

struct Violation {
    std::string prop, key, what, history;
};
static std::vector<Violation> g_viol;
static std::map<std::string, long> g_violCount;
static void violation(const std::string& prop, const std::string& key, const std::string& what, const std::string& history) {
    g_violCount[prop + "|" + key]++;
    if (g_violCount[prop + "|" + key] == 1) g_viol.push_back({prop, key, what, history});
}

// global phase table from the matrix pass: (gate, angle, n, target) -> phase
static std::map<std::string, cd> g_phase;
static std::string phaseKey(const std::string& g, double t, int n, int a, int b) {
    char buf[128];
    snprintf(buf, sizeof buf, "%s|%.17g|%d|%d|%d", g.c_str(), t, n, a, b);
    return buf;
}

// ---- C01 matrix pass ------------------------------------------------------------------------------
static long g_matrixApps = 0, g_matrixTuples = 0;
static void loadState(QasmSimulator& sim, int n, const Vec& st, const std::vector<bool>& meas) {
    sim.m_qubits = n;
    sim.m_state = st;
    sim.m_measured = meas;
}
static void matrixTuple(const std::string& g, double t, int n, int a, int b) {
    size_t dim = size_t{1} << n;
    std::vector<Vec> implCols(dim), refCols(dim);
    for (size_t col = 0; col < dim; ++col) {
        QasmSimulator sim(false);
        for (int i = 0; i < n; ++i) sim.allocateQubit();
        Vec basis(dim);
        basis[col] = 1;
        sim.m_state = basis;  // direct load: the column does not depend on any gate under test
        Op op{g, a, b, t, -1};
        StepResult r = applyImpl(sim, op);
        ++g_matrixApps;
        if (r.threw) {
            violation("C01", "matrix:threw:" + g, "gate threw on an active qubit: " + r.msg, op.str());
            return;
        }
        implCols[col] = sim.m_state;
        refCols[col] = (g == "cx") ? refCx(basis, a, b) : refApply1(basis, a, refMatrix(g, t));
        if (sim.m_state.size() != dim) {
            violation("C01", "matrix:size:" + g, "state size changed by a gate", op.str());
            return;
        }
    }
    // one global phase for the whole matrix
    cd phase = 1;
    double best = 0;
    for (size_t col = 0; col < dim; ++col)
        for (size_t row = 0; row < dim; ++row)
            if (std::abs(refCols[col][row]) > best + 1e-9) {
                best = std::abs(refCols[col][row]);
                phase = implCols[col][row] / refCols[col][row];
            }
    if (std::abs(std::abs(phase) - 1.0) > 1e-12) phase = 1;  // not a phase: compare raw so the error shows
    double dev = 0;
    size_t wc = 0, wr = 0;
    for (size_t col = 0; col < dim; ++col)
        for (size_t row = 0; row < dim; ++row) {
            double d = std::abs(implCols[col][row] - phase * refCols[col][row]);
            if (d > dev) { dev = d; wc = col; wr = row; }
        }
    // Linearity: the columns fix the map only if the implementation is linear. Apply the gate to superpositions whose amplitudes span many
    // orders of magnitude (geometric ladders 10^-1 ... 10^-7 per step in several index orders, with varying phases) and compare with the
    // matrix the columns define. A kernel that treats small, zero or equal amplitudes specially shows here and nowhere in the columns.
    for (int variant = 0; variant < 6 && dev <= 1e-12; ++variant) {
        Vec v(dim);
        double ratio = (variant % 3 == 0) ? 1e-1 : (variant % 3 == 1) ? 1e-3 : 3e-5;
        double nrm = 0;
        for (size_t i = 0; i < dim; ++i) {
            size_t rank = (variant < 3) ? i : (dim - 1 - i);
            rank = (rank * 5 + (size_t)variant) % dim;  // 5 is odd: a permutation of the indices
            double mag = std::pow(ratio, (double)(rank % 9));
            double ang = 0.7 * (double)i + 0.3 * variant;
            v[i] = cd(mag * std::cos(ang), mag * std::sin(ang));
            nrm += std::norm(v[i]);
        }
        for (auto& x : v) x /= std::sqrt(nrm);
        QasmSimulator sim(false);
        for (int i = 0; i < n; ++i) sim.allocateQubit();
        sim.m_state = v;
        Op op{g, a, b, t, -1};
        StepResult r = applyImpl(sim, op);
        ++g_matrixApps;
        if (r.threw || sim.m_state.size() != dim) {
            violation("C01", "matrix:threw:" + g, "gate threw (or resized the state) on a superposed input: " + r.msg, op.str());
            return;
        }
        Vec want = (g == "cx") ? refCx(v, a, b) : refApply1(v, a, refMatrix(g, t));
        for (size_t row = 0; row < dim; ++row) {
            double d = std::abs(sim.m_state[row] - phase * want[row]);
            if (d > 1e-13 + 1e-9 * std::abs(want[row]) && d > dev) {
                dev = std::max(d, 2e-12);
                wc = dim + (size_t)variant;
                wr = row;
                implCols.push_back(sim.m_state);
                refCols.push_back(want);
            }
        }
        if (dev > 1e-12) {
            std::ostringstream w;
            w << "gate " << g << " theta=" << jnum(t) << " on n=" << n << " operands (" << a << "," << b << "): not linear - on a superposition with amplitudes spanning "
              << "many orders of magnitude (ladder ratio " << jnum(ratio) << ", variant " << variant << ") amplitude " << wr << " is (" << jnum(sim.m_state[wr].real()) << "," << jnum(sim.m_state[wr].imag())
              << ") but the matrix fixed by the basis columns gives (" << jnum((phase * want[wr]).real()) << "," << jnum((phase * want[wr]).imag()) << ")";
            violation("C01", "matrix:nonlinear:" + g, w.str(), Op{g, a, b, t, -1}.str() + " on ladder input variant " + std::to_string(variant) + " of n=" + std::to_string(n));
            ++g_matrixTuples;
            g_phase[phaseKey(g, t, n, a, b)] = phase;
            return;
        }
    }
    ++g_matrixTuples;
    g_phase[phaseKey(g, t, n, a, b)] = phase;
    if (!(dev <= 1e-12)) {
        std::ostringstream w;
        w << "gate " << g << " theta=" << jnum(t) << " on n=" << n << " operands (" << a << "," << b << "): matrix differs from e^{i phi} U_ref by "
          << jnum(dev) << " at row " << wr << " col " << wc << " impl=(" << jnum(implCols[wc][wr].real()) << "," << jnum(implCols[wc][wr].imag())
          << ") ref=(" << jnum(refCols[wc][wr].real()) << "," << jnum(refCols[wc][wr].imag()) << ")";
        std::ostringstream k;
        k << "matrix:" << g;
        violation("C01", k.str(), w.str(), Op{g, a, b, t, -1}.str() + " on basis column " + std::to_string(wc) + " of n=" + std::to_string(n));
    }
}

static std::vector<double> angleGrid(int step) {
    std::vector<double> th;
    for (int k = -16; k <= 16; k += step) th.push_back(k * PI / 8);
    for (double x : {1e-7, 1.0, 2.5, 100.0, -0.3}) th.push_back(x);
    return th;
}

static void matrixPass(int N, int step) {
    auto th = angleGrid(step);
    for (int n = 1; n <= N; ++n) {
        for (int q = 0; q < n; ++q) {
            for (const char* g : {"h", "x", "y", "z"}) matrixTuple(g, 0, n, q, -1);
            for (const char* g : {"rx", "ry", "rz"})
                for (double t : th) matrixTuple(g, t, n, q, -1);
        }
        for (int c = 0; c < n; ++c)
            for (int t = 0; t < n; ++t)
                if (c != t) matrixTuple("cx", 0, n, c, t);
    }
}

// ---- BFS ---------------------------------------------------------------------------------------------
struct Snap {
    int n = 0;
    Vec st{1};
    std::vector<bool> meas;
};
static std::string canon(const Snap& s) {
    std::string k;
    k.reserve(16 + s.st.size() * 18);
    k += std::to_string(s.n) + ":";
    for (bool b : s.meas) k += b ? '1' : '0';
    k += ":";
    char buf[64];
    for (auto& c : s.st) {
        double re = std::round(c.real() * 1e9) / 1e9, im = std::round(c.imag() * 1e9) / 1e9;
        if (re == 0) re = 0;  // -0
        if (im == 0) im = 0;
        snprintf(buf, sizeof buf, "%.9f,%.9f;", re, im);
        k += buf;
    }
    return k;
}
static Snap snapOf(const QasmSimulator& sim) {
    Snap s;
    s.n = sim.m_qubits;
    s.st = sim.m_state;
    s.meas = sim.m_measured;
    s.meas.resize(s.n, false);
    return s;
}

struct Node {
    std::vector<Op> hist;
    Snap snap;
    int depth;
};

static const double RY_ANGLE = PI / 3;  // p1 = 1/4 from |0>
static std::vector<Op> alphabet(const std::string& mode, const Snap& s, int N) {
    std::vector<Op> ops;
    int n = s.n;
    if (mode == "unitary") {
        for (int q = 0; q < n; ++q) {
            for (const char* g : {"h", "x", "y", "z"}) ops.push_back({g, q, -1, 0, -1});
            ops.push_back({"rx", q, -1, PI / 3, -1});
            ops.push_back({"ry", q, -1, 2 * PI / 5, -1});
            ops.push_back({"rz", q, -1, -PI / 7, -1});
        }
        for (int c = 0; c < n; ++c)
            for (int t = 0; t < n; ++t)
                if (c != t) ops.push_back({"cx", c, t, 0, -1});
        return ops;
    }
    if (n < N) ops.push_back({"alloc", -1, -1, 0, -1});
    for (int q = 0; q < n; ++q) {
        ops.push_back({"h", q, -1, 0, -1});
        if (mode == "fullc") {
            // complex alphabet (seed C02-3): amplitudes that are purely imaginary, or complex with unequal parts, in the kept branch
            ops.push_back({"y", q, -1, 0, -1});
            ops.push_back({"rx", q, -1, PI / 2, -1});
            ops.push_back({"rz", q, -1, PI / 3, -1});
        } else {
            ops.push_back({"x", q, -1, 0, -1});
            ops.push_back({"ry", q, -1, RY_ANGLE, -1});
        }
    }
    for (int c = 0; c < n; ++c)
        for (int t = 0; t < n; ++t)
            if (c != t) ops.push_back({"cx", c, t, 0, -1});
    for (int q = 0; q < n; ++q) {
        for (int m = 0; m < 5; ++m) ops.push_back({"measure", q, -1, 0, m});
        ops.push_back({"reset", q, -1, 0, 4});
        ops.push_back({"reset", q, -1, 0, 0});
    }
    return ops;
}

struct Stats {
    long states = 0, transitions = 0, refused = 0, measures = 0, resets = 0, allocs = 0, gates = 0, replays = 0;
    long entangledResets = 0, tinyOutcomes = 0, resetDraws = 0;
    int maxDepth = 0;
    std::set<std::string> outcomesSeen;
    double maxNormDev = 0, maxGateDev = 0, maxP1Dev = 0, maxCollapseDev = 0, maxResetDev = 0;
} S;

static std::vector<std::string> g_samples;

static bool replayTo(QasmSimulator& sim, const std::vector<Op>& hist) {
    for (auto& op : hist) {
        StepResult r = applyImpl(sim, op);
        if (r.threw) return false;
    }
    ++S.replays;
    return true;
}

// checks one transition from `pre` (already validated) by op; returns true if the successor is a new valid state
static bool checkTransition(const std::string& mode, const Node& node, const Op& op, Snap& post) {
    const Snap& pre = node.snap;
    std::vector<Op> h2 = node.hist;
    h2.push_back(op);
    std::string H = histStr(h2);
    QasmSimulator sim(false);
    if (!replayTo(sim, node.hist)) {
        violation("HARNESS", "replay-threw", "replay of a recorded history threw", histStr(node.hist));
        return false;
    }
    if (canon(snapOf(sim)) != canon(pre)) {
        violation("HARNESS", "replay-diverged", "replaying a history on a fresh simulator gave a different state", histStr(node.hist));
        return false;
    }
    g_seen.clear();
    StepResult r = applyImpl(sim, op);
    ++S.transitions;
    post = snapOf(sim);
    bool targetsMeasured = false;
    if (op.g != "alloc" && op.g != "reset") {
        if (op.a >= 0 && op.a < pre.n && pre.meas[op.a]) targetsMeasured = true;
        if (op.b >= 0 && op.b < pre.n && pre.meas[op.b]) targetsMeasured = true;
    }
    if (targetsMeasured) {
        ++S.refused;
        // C06 (simulator level): refused with a runtime error and nothing changes
        if (!r.threw) violation("C06", "sim:not-refused:" + op.g, "operation on a measured qubit was performed: " + op.str(), H);
        else if (canon(post) != canon(pre)) violation("C06", "sim:refused-but-changed:" + op.g, "refused operation changed the state", H);
        return false;
    }
    if (r.threw) {
        violation(mode == "unitary" ? "C01" : "C06", "sim:spurious-refusal:" + op.g, "operation on active qubits was refused: " + r.msg, H);
        return false;
    }
    // C03 invariants after every call
    size_t expectDim = size_t{1} << (pre.n + (op.g == "alloc" ? 1 : 0));
    if (post.st.size() != expectDim || post.n != pre.n + (op.g == "alloc" ? 1 : 0)) {
        violation("C03", "sim:size:" + op.g, "state has " + std::to_string(post.st.size()) + " amplitudes, expected " + std::to_string(expectDim), H);
        return false;
    }
    bool c03ok = true;
    if (!finiteVec(post.st)) {
        violation("C03", "sim:nonfinite:" + op.g, "non-finite amplitude after " + op.str(), H);
        c03ok = false;
    } else {
        double nd = std::fabs(normOf(post.st) - 1.0);
        S.maxNormDev = std::max(S.maxNormDev, nd);
        if (!(nd <= 1e-9)) {
            violation("C03", "sim:norm:" + op.g, "norm^2 = " + jnum(normOf(post.st)) + " after " + op.str(), H);
            c03ok = false;
        }
    }
    if (!c03ok && op.g != "measure" && op.g != "reset") return false;
    if (op.g == "alloc") {
        ++S.allocs;
        bool ok = r.ret == pre.n;
        for (size_t i = 0; i < post.st.size() && ok; ++i) {
            cd want = i < pre.st.size() ? pre.st[i] : cd(0);
            if (post.st[i] != want) ok = false;
        }
        if (!ok) violation("C03", "sim:alloc-tensor", "allocation did not produce old (x) |0> on the new top bit (or returned a wrong index)", H);
        if (post.meas.size() != (size_t)post.n || post.meas[pre.n]) violation("C06", "sim:alloc-flag", "fresh qubit is flagged measured", H);
        for (int i = 0; i < pre.n; ++i)
            if (post.meas[i] != pre.meas[i]) violation("C06", "sim:alloc-flag-others", "allocation changed another qubit's measured flag", H);
        return ok;
    }
    if (op.g == "measure") {
        ++S.measures;
        if (g_seen.size() != 1 || g_seen[0].what != "measure" || g_seen[0].q != op.a) {
            violation("HARNESS", "draw-count", "measure consumed " + std::to_string(g_seen.size()) + " draws", H);
            return false;
        }
        double p1impl = g_seen[0].p1, rr = g_seen[0].r;
        double p1ref = refP1(pre.st, op.a);
        S.maxP1Dev = std::max(S.maxP1Dev, std::fabs(p1impl - p1ref));
        if (!(std::fabs(p1impl - p1ref) <= 1e-12))
            violation("C02", "sim:p1", "probability used for the draw is " + jnum(p1impl) + ", Born probability is " + jnum(p1ref), H);
        int out = r.ret;
        if (out != 0 && out != 1) {
            violation("C02", "sim:outcome-range", "measure returned " + std::to_string(out), H);
            return false;
        }
        // threshold semantics: 1 iff r < p1 (up to 1e-12 in the position of the threshold)
        if (rr < p1ref - 1e-12 && out != 1) violation("C02", "sim:threshold", "draw r=" + jnum(rr) + " < p1=" + jnum(p1ref) + " but outcome 0", H);
        if (rr > p1ref + 1e-12 && out != 0) violation("C02", "sim:threshold", "draw r=" + jnum(rr) + " > p1=" + jnum(p1ref) + " but outcome 1", H);
        double w;
        Vec proj = refProject(pre.st, op.a, out, w);
        if (w < 1e-20) ++S.tinyOutcomes;
        if (w == 0) {
            violation("C02", "sim:impossible-outcome", "reported outcome " + std::to_string(out) + " has no component in the pre-measurement state (p1=" + jnum(p1ref) + ", r=" + jnum(rr) + ")", H);
            return false;
        }
        double dev = maxDiffPhase(post.st, proj, 1);
        S.maxCollapseDev = std::max(S.maxCollapseDev, dev);
        if (!(dev <= 1e-10))  // also true for NaN
            violation("C02", "sim:collapse", "post-measurement state differs from the normalised projection onto outcome " + std::to_string(out) + " by " + jnum(dev), H);
        if (!post.meas[op.a]) violation("C06", "sim:measure-flag", "measured flag not set by measure", H);
        for (int i = 0; i < pre.n; ++i)
            if (i != op.a && post.meas[i] != pre.meas[i]) violation("C06", "sim:measure-flag-others", "measure changed another qubit's flag", H);
        S.outcomesSeen.insert(std::to_string(out) + (w < 1e-20 ? "~0" : w > 1 - 1e-12 ? "~1" : "p"));
        return c03ok && dev <= 1e-10;
    }
    if (op.g == "reset") {
        ++S.resets;
        // collect every branch the implementation exhibits for this reset
        struct Br { Vec st; double w; };
        std::vector<Br> branches;
        double p1ref = refP1(pre.st, op.a);
        bool drew = !g_seen.empty();
        if (drew) ++S.resetDraws;
        if (!drew) {
            branches.push_back({post.st, 1.0});
        } else {
            // run both extremes of the draw; weight by Born probability of the pre-state (reference)
            for (int m : {4, 0}) {
                QasmSimulator s2(false);
                replayTo(s2, node.hist);
                Op o2 = op;
                o2.rmode = m;
                g_seen.clear();
                StepResult r2 = applyImpl(s2, o2);
                if (r2.threw) { violation("C04", "sim:reset-threw", "reset threw: " + r2.msg, H); return false; }
                if (g_seen.size() != 1) { violation("HARNESS", "reset-draw-count", "reset consumed a varying number of draws", H); return false; }
                // which branch is this?  identify by the draw threshold semantics r < p -> the '1' branch
                bool one = g_seen[0].r < g_seen[0].p1;
                double w = one ? p1ref : 1 - p1ref;
                if (std::fabs(g_seen[0].p1 - p1ref) > 1e-12) violation("C04", "sim:reset-p1", "reset drew against p=" + jnum(g_seen[0].p1) + " but Born probability is " + jnum(p1ref), H);
                branches.push_back({s2.m_state, w});
            }
            // if p is 0 or 1 both runs are the same branch: renormalise weights
            if (p1ref <= 0 || p1ref >= 1) { branches.resize(1); branches[0].w = 1; }
        }
        bool ok = true;
        size_t bit = size_t{1} << op.a;
        for (auto& br : branches) {
            if (!finiteVec(br.st) || std::fabs(normOf(br.st) - 1) > 1e-9) { violation("C03", "sim:reset-norm", "reset left a non-unit or non-finite state", H); return false; }
            for (size_t i = 0; i < br.st.size(); ++i)
                if ((i & bit) && std::abs(br.st[i]) > 1e-12) ok = false;
        }
        if (!ok) violation("C04", "sim:reset-target-not-zero", "after reset the target still has amplitude on |1>", H);
        if (pre.n >= 2) {
            auto rho0 = refReduced(pre.st, op.a);
            std::vector<cd> acc(rho0.size());
            for (auto& br : branches) {
                auto rb = refReduced(br.st, op.a);
                for (size_t i = 0; i < acc.size(); ++i) acc[i] += br.w * rb[i];
            }
            double dev = 0;
            for (size_t i = 0; i < acc.size(); ++i) dev = std::max(dev, std::abs(acc[i] - rho0[i]));
            S.maxResetDev = std::max(S.maxResetDev, dev);
            // is the target entangled / correlated with the rest? (purity of the reduced state < 1)
            double purity = 0;
            size_t dim = pre.st.size() / 2;
            for (size_t a = 0; a < dim; ++a)
                for (size_t b = 0; b < dim; ++b) purity += std::norm(rho0[a * dim + b]);
            bool entangled = purity < 1 - 1e-9;
            if (entangled) ++S.entangledResets;
            if (!(dev <= 1e-9)) {
                violation("C04", std::string("sim:reset-disturbs-others:") + (entangled ? "entangled" : "product") + (drew ? ":sampled" : ":deterministic"),
                          "reduced state of the other qubits changed by " + jnum(dev) + " (averaged over " + std::to_string(branches.size()) + " branch(es)); target was " +
                              (entangled ? "entangled with them" : "in a product state"),
                          H);
            }
        }
        if (post.meas[op.a]) violation("C06", "sim:reset-flag", "measured flag still set after reset", H);
        for (int i = 0; i < pre.n; ++i)
            if (i != op.a && post.meas[i] != pre.meas[i]) violation("C06", "sim:reset-flag-others", "reset changed another qubit's flag", H);
        return ok;
    }
    // unitary gates
    ++S.gates;
    Vec ref = (op.g == "cx") ? refCx(pre.st, op.a, op.b) : refApply1(pre.st, op.a, refMatrix(op.g, op.t));
    cd phase = 1;
    auto it = g_phase.find(phaseKey(op.g, op.t, pre.n, op.a, op.b));
    if (it != g_phase.end()) phase = it->second;
    double dev = maxDiffPhase(post.st, ref, phase);
    S.maxGateDev = std::max(S.maxGateDev, dev);
    if (!(dev <= 1e-10)) {
        violation("C01", "bfs:gate:" + op.g, "state after " + op.str() + " differs from U_ref applied to the same input by " + jnum(dev), H);
        return false;
    }
    for (int i = 0; i < pre.n; ++i)
        if (post.meas[i] != pre.meas[i]) violation("C06", "sim:gate-flag", "a gate changed a measured flag", H);
    return true;
}

// Histories of at most g_histDepth operations are ALL explored as distinct nodes (keyed by the history itself); only longer ones
// are merged on the canonical state. Merging is sound only if the canonical key captures everything that influences the future -
// amplitudes and measured flags today. State a change might add to the simulator (caches, "known zero" flags) is invisible to
// the key, so short histories are never merged at all.
static int g_histDepth = 0;
static void bfs(const std::string& mode, int N, int maxDepth, long maxStates) {
    // the phase table for every gate tuple of the alphabet
    for (int n = 1; n <= N; ++n) {
        for (int q = 0; q < n; ++q) {
            for (const char* g : {"h", "x", "y", "z"}) matrixTuple(g, 0, n, q, -1);
            matrixTuple("rx", PI / 3, n, q, -1);
            matrixTuple("ry", 2 * PI / 5, n, q, -1);
            matrixTuple("ry", RY_ANGLE, n, q, -1);
            matrixTuple("rz", -PI / 7, n, q, -1);
        }
        for (int c = 0; c < n; ++c)
            for (int t = 0; t < n; ++t)
                if (c != t) matrixTuple("cx", 0, n, c, t);
    }
    std::unordered_map<std::string, int> seen;
    std::deque<Node> frontier;
    Node root;
    root.depth = 0;
    if (mode == "unitary") {
        // one BFS per register size, from |0..0>
        for (int n = 1; n <= N; ++n) {
            Node r;
            r.depth = 0;
            for (int i = 0; i < n; ++i) r.hist.push_back({"alloc", -1, -1, 0, -1});
            QasmSimulator sim(false);
            replayTo(sim, r.hist);
            r.snap = snapOf(sim);
            seen[canon(r.snap)] = 0;
            frontier.push_back(r);
        }
    } else {
        seen[canon(root.snap)] = 0;
        frontier.push_back(root);
    }
    bool capped = false;
    while (!frontier.empty()) {
        Node node = std::move(frontier.front());
        frontier.pop_front();
        S.maxDepth = std::max(S.maxDepth, node.depth);
        if (node.depth >= maxDepth) continue;
        for (auto& op : alphabet(mode, node.snap, N)) {
            Snap post;
            bool ok = checkTransition(mode, node, op, post);
            if (!ok) continue;
            std::string k = canon(post);
            if (node.depth + 1 <= g_histDepth) {
                std::vector<Op> h2 = node.hist;
                h2.push_back(op);
                k = "H:" + histStr(h2);
            }
            if (seen.count(k)) continue;
            if ((long)seen.size() >= maxStates) { capped = true; continue; }
            seen[k] = node.depth + 1;
            Node nx;
            nx.hist = node.hist;
            nx.hist.push_back(op);
            nx.snap = post;
            nx.depth = node.depth + 1;
            if (g_samples.size() < 5 && nx.depth == maxDepth && (seen.size() % 97 == 0)) g_samples.push_back(histStr(nx.hist));
            frontier.push_back(std::move(nx));
        }
    }
    S.states = (long)seen.size();
    printf("{\"mode\":%s,\"N\":%d,\"depth\":%d,\"capped\":%s,\"states\":%ld,\"transitions\":%ld,\"refused\":%ld,\"gates\":%ld,\"measures\":%ld,\"resets\":%ld,"
           "\"allocs\":%ld,\"replays\":%ld,\"entangled_resets\":%ld,\"reset_draws\":%ld,\"tiny_outcomes\":%ld,\"max_depth\":%d,\"matrix_tuples\":%ld,"
           "\"max_norm_dev\":%s,\"max_gate_dev\":%s,\"max_p1_dev\":%s,\"max_collapse_dev\":%s,\"max_reset_dev\":%s,\"outcome_classes\":[",
           jstr(mode).c_str(), N, maxDepth, capped ? "true" : "false", S.states, S.transitions, S.refused, S.gates, S.measures, S.resets, S.allocs, S.replays,
           S.entangledResets, S.resetDraws, S.tinyOutcomes, S.maxDepth, g_matrixTuples, jnum(S.maxNormDev).c_str(), jnum(S.maxGateDev).c_str(), jnum(S.maxP1Dev).c_str(),
           jnum(S.maxCollapseDev).c_str(), jnum(S.maxResetDev).c_str());
    bool first = true;
    for (auto& o : S.outcomesSeen) {
        printf("%s%s", first ? "" : ",", jstr(o).c_str());
        first = false;
    }
    printf("],\"samples\":[");
    for (size_t i = 0; i < g_samples.size(); ++i) printf("%s%s", i ? "," : "", jstr(g_samples[i]).c_str());
    printf("],");
}

static void printViolations() {
    printf("\"violations\":[");
    for (size_t i = 0; i < g_viol.size(); ++i) {
        auto& v = g_viol[i];
        printf("%s{\"prop\":%s,\"key\":%s,\"what\":%s,\"history\":%s,\"count\":%ld}", i ? "," : "", jstr(v.prop).c_str(), jstr(v.key).c_str(), jstr(v.what).c_str(),
               jstr(v.history).c_str(), g_violCount[v.prop + "|" + v.key]);
    }
    printf("]}\n");
}

static std::vector<Op> parseHistory(const std::string& s) {
    std::vector<Op> h;
    std::istringstream is(s);
    std::string part;
    while (std::getline(is, part, ';')) {
        std::istringstream ps(part);
        Op op;
        ps >> op.g;
        if (op.g.empty()) continue;
        std::string tok;
        std::vector<std::string> toks;
        while (ps >> tok) toks.push_back(tok);
        size_t i = 0;
        if (op.g != "alloc" && i < toks.size()) op.a = atoi(toks[i++].c_str());
        if (op.g == "cx" && i < toks.size()) op.b = atoi(toks[i++].c_str());
        if ((op.g == "rx" || op.g == "ry" || op.g == "rz") && i < toks.size()) op.t = strtod(toks[i++].c_str(), nullptr);
        if (i < toks.size() && toks[i][0] == 'r') op.rmode = atoi(toks[i].c_str() + 1);
        h.push_back(op);
    }
    return h;
}

int main(int argc, char** argv) {
    bloch::verif::draw = drawHook;
    std::string cmd = argc > 1 ? argv[1] : "";
    if (cmd == "matrix") {
        int N = atoi(argv[2]), step = atoi(argv[3]);
        matrixPass(N, step);
        printf("{\"mode\":\"matrix\",\"N\":%d,\"tuples\":%ld,\"applications\":%ld,\"angles\":%zu,", N, g_matrixTuples, g_matrixApps, angleGrid(step).size());
        printViolations();
        return 0;
    }
    if (cmd == "bfs") {
        std::string mode = argv[2];
        int N = atoi(argv[3]), depth = atoi(argv[4]);
        long maxStates = argc > 5 ? atol(argv[5]) : 2000000;
        g_histDepth = argc > 6 ? atoi(argv[6]) : 0;
        bfs(mode, N, depth, maxStates);
        printViolations();
        return 0;
    }
    if (cmd == "replay") {
        auto h = parseHistory(argv[2]);
        QasmSimulator sim(false);
        for (auto& op : h) {
            g_seen.clear();
            StepResult r = applyImpl(sim, op);
            printf("%s -> %s ret=%d", op.str().c_str(), r.threw ? "THREW" : "ok", r.ret);
            for (auto& d : g_seen) printf(" [draw %s q=%d p1=%.17g r=%.17g]", d.what.c_str(), d.q, d.p1, d.r);
            printf("\n  state:");
            for (auto& c : sim.m_state) printf(" (%.12g,%.12g)", c.real(), c.imag());
            printf("\n");
        }
        return 0;
    }
    fprintf(stderr, "usage: sim_mc matrix N step | bfs mode N depth [maxstates] | replay 'history'\n");
    return 2;
}
