// front_mc: in-process exhaustive enumeration of front-end inputs (lexer -> parser -> semantic analyser on a REUSED
// analyser instance) for C13.
//   front_mc tokens <alphabet> <context> <k> <part> <nparts> <start> <progress>
//   front_mc bytes <b> <part> <nparts> <start> <progress>
//   front_mc edits <seedfile> <alphabet> <part> <nparts> <start> <progress>
//   front_mc nest <maxdepth> <part> <nparts> <start> <progress>
//   front_mc file <path>                      one input, verbose
// Every input gets a linear index n; a partition handles n % nparts == part and skips n < start. Before an input is
// processed its index and bytes are written to <progress>, so a crash or hang (SIGALRM after 5 s) is attributed by the caller.
#include <fcntl.h>
#include <signal.h>
#include <unistd.h>

#include <algorithm>
#include <chrono>
#include <cstdio>
#include <cstring>
#include <filesystem>
#include <fstream>
#include <iostream>
#include <map>
#include <memory>
#include <set>
#include <sstream>
#include <string>
#include <vector>

#include "bloch/compiler/import/module_loader.hpp"
#include "bloch/compiler/lexer/lexer.hpp"
#include "bloch/compiler/parser/parser.hpp"
#include "bloch/compiler/semantics/semantic_analyser.hpp"
#include "bloch/support/error/bloch_error.hpp"
#include "vutil.hpp"

using namespace bloch::compiler;
using bloch::support::BlochError;
using bloch::support::ErrorCategory;
using vutil::jstr;

extern "C" const char* __asan_default_options() { return "detect_leaks=0:halt_on_error=1:exitcode=77:detect_stack_use_after_return=0"; }
extern "C" const char* __ubsan_default_options() { return "print_stacktrace=0:halt_on_error=0"; }

static const std::vector<std::vector<std::string>> ALPHABETS = {
    // 0: declarations / top level
    {"function", "class", "{", "}", "(", ")", "->", ";", ",", "x", "int", "void", "@", "quantum", "tracked", "shots", "1", "=", "<", ">", ".", "public", "static",
     "final", "constructor", "extends"},
    // 1: statements / expressions
    {"x", "1", "(", ")", "[", "]", "{", "}", ";", ",", "=", "+", "-", "!", "++", ".", "measure", "reset", "echo", "if", "else", "for", "return", "new", "int", "qubit"},
    // 2: class members
    {"public", "private", "static", "final", "virtual", "override", "function", "constructor", "destructor", "default", "int", "qubit", "x", "C", "(", ")", "{", "}",
     "->", ";", "=", "@", "tracked", "quantum", "this", "super"},
    // 3: compact mixed alphabet for longer strings
    {"x", "1", "(", ")", "{", "}", "[", "]", ";", "=", "int", "@", "tracked", "<", ">", "."},
    // 4: edit alphabet (replacement / insertion tokens for seed mutation)
    {"x", "1", "99999999999", "1.5f", "1b", "\"s\"", "'c'", "null", "(", ")", "{", "}", "[", "]", ";", ",", ".", "=", "==", "+", "-", "*", "!", "<", ">", "->", "@", "++", "?", ":",
     "int", "void", "qubit", "function", "class", "return", "if", "else", "for", "while", "measure", "reset", "new", "this", "super", "final", "static", "public",
     "private", "tracked", "quantum", "shots", "extends", "import", "package", "destroy", "constructor", "destructor", "default", "virtual", "override", "abstract"},
    // 5: imports / package / annotations in front of a valid main (loader mode)
    {"import", "package", "lib", ".", "Helper", "*", ";", "@", "shots", "(", ")", "1", "99999999999", "quantum"},
};
static const std::vector<std::pair<std::string, std::string>> CONTEXTS = {
    {"", ""},
    {"function main() -> void { ", " }"},
    {"class C { ", " } function main() -> void { }"},
    {"function main() -> void { int x = 0; int y = ", " ; }"},
    {"class C { public int x; public function m() -> void { ", " } } function main() -> void { }"},
    {"", " function main() -> void { }"},
};
static std::string g_loaderDir;  // non-empty: inputs go through the real ModuleLoader (file on tmpfs + sibling modules)

static int g_progressFd = -1;
static void progress(long n, const std::string& input) {
    if (g_progressFd < 0) return;
    char hdr[64];
    int h = snprintf(hdr, sizeof hdr, "%ld %zu\n", n, input.size());
    std::string buf(hdr, h);
    buf += input;
    if (pwrite(g_progressFd, buf.data(), buf.size(), 0) < 0) return;
    if (ftruncate(g_progressFd, (off_t)buf.size()) != 0) return;
}

struct Viol {
    std::string key, what, input;
    long n;
};
static std::vector<Viol> g_viol;
static std::map<std::string, long> g_count;
static void violation(const std::string& key, const std::string& what, const std::string& input, long n) {
    if (++g_count[key] == 1) g_viol.push_back({key, what, input, n});
}

static long g_total = 0, g_accept = 0, g_lex = 0, g_parse = 0, g_sem = 0, g_probes = 0;
static std::set<std::string> g_outcomes;
static std::vector<std::string> g_samples;

static const char* PROBE_OK = "function f(int a) -> int { return a + 1; } class P { public int v; public constructor() -> P = default; } function main() -> void { int z = f(2); echo(z); }";
static const char* PROBE_BAD = "function main() -> void { int z = 1; int z = 2; }";

static SemanticAnalyser* g_reused = nullptr;

// returns "ok" | "lexical" | "parse" | "semantic" ; anything else is a violation string starting with '!'
static std::string pipeline(const std::string& src, SemanticAnalyser* an, std::string* msg = nullptr) {
    std::unique_ptr<char[]> heap(new char[src.size()]);
    memcpy(heap.get(), src.data(), src.size());
    std::unique_ptr<Program> prog;
    try {
        if (!g_loaderDir.empty()) {
            {
                std::ofstream o(g_loaderDir + "/main.bloch", std::ios::binary | std::ios::trunc);
                o.write(src.data(), (std::streamsize)src.size());
            }
            ModuleLoader loader({g_loaderDir + "/search"});
            prog = loader.load(g_loaderDir + "/main.bloch");
        } else {
            Lexer lx(std::string_view(heap.get(), src.size()));
            auto toks = lx.tokenize();
            Parser ps(std::move(toks));
            prog = ps.parse();
        }
        if (an) an->analyse(*prog);
    } catch (const BlochError& e) {
        if (msg) *msg = e.what();
        switch (e.category) {
            case ErrorCategory::Lexical: return "lexical";
            case ErrorCategory::Parse: return "parse";
            case ErrorCategory::Semantic: return "semantic";
            case ErrorCategory::Runtime: return "!runtime-category";
            default: return "!generic-category";
        }
    } catch (const std::exception& e) {
        if (msg) *msg = e.what();
        return std::string("!raw-exception:") + e.what();
    } catch (...) {
        return "!non-std-exception";
    }
    return "ok";
}

static bool g_analyse = true;
static std::string msgClass(const std::string& m) {
    // strip ANSI + position, keep the first words of the message as an outcome class
    std::string o;
    for (size_t i = 0; i < m.size(); ++i) {
        if (m[i] == '\033') {
            while (i < m.size() && m[i] != 'm') ++i;
            continue;
        }
        o += m[i];
    }
    size_t c = o.find(": ");
    if (c != std::string::npos) o = o.substr(0, o.find(' ')) + ":" + o.substr(c + 2);
    std::string r;
    int words = 0;
    for (char ch : o) {
        if (ch == '\'' || ch == '\n') break;
        if (ch == ' ' && ++words >= 5) break;
        r += ch;
    }
    return r;
}

static void checkInput(const std::string& src, long n, bool verbose = false) {
    progress(n, src);
    alarm(5);
    ++g_total;
    std::string msg;
    std::string r = pipeline(src, g_analyse ? g_reused : nullptr, &msg);
    alarm(0);
    if (verbose) printf("outcome: %s %s\n", r.c_str(), msg.c_str());
    if (r == "ok") ++g_accept;
    else if (r == "lexical") ++g_lex;
    else if (r == "parse") ++g_parse;
    else if (r == "semantic") ++g_sem;
    else
        violation("outcome:" + r.substr(0, 40), "front end ended with " + r + " instead of acceptance or one Lexical/Parse/Semantic diagnostic", src, n);
    if (g_outcomes.size() < 100000) g_outcomes.insert(r + "|" + msgClass(msg));
    if (g_samples.size() < 4 && (g_total % 50021) == 7) g_samples.push_back(src);
    // differential: a fresh analyser must give the same verdict (and message) on this very input
    if (g_analyse && (r == "ok" || r == "semantic")) {
        SemanticAnalyser fresh;
        std::string msg2;
        alarm(5);
        std::string r2 = pipeline(src, &fresh, &msg2);
        alarm(0);
        if (r2 != r || msg2 != msg)
            violation("reuse:differs", "reused analyser says " + r + " (" + msg + ") but a fresh analyser says " + r2 + " (" + msg2 + ")", src, n);
    }
    // the reused analyser must still behave like a fresh one
    if (g_analyse && (r == "semantic" || (g_total & 63) == 0)) {
        ++g_probes;
        alarm(5);
        std::string a = pipeline(PROBE_OK, g_reused), b = pipeline(PROBE_BAD, g_reused);
        alarm(0);
        if (a != "ok" || b != "semantic")
            violation("reuse", "after this input the reused analyser answers (" + a + "," + b + ") on the probes, a fresh one answers (ok,semantic)", src, n);
    }
}

static long g_n = 0;
static int g_part = 0, g_nparts = 1;
static long g_start = 0;
static double g_deadline = 1e18;
static std::chrono::steady_clock::time_point g_t0;
static bool g_capped = false;
static long g_lastIndex = -1;
static inline bool mine() {
    long n = g_n++;
    return n >= g_start && (n % g_nparts) == g_part;
}
static bool timeUp() {
    if ((g_total & 0x3fff) != 0) return false;
    double el = std::chrono::duration<double>(std::chrono::steady_clock::now() - g_t0).count();
    if (el > g_deadline) g_capped = true;
    return g_capped;
}

static void summary(const std::string& mode) {
    printf("{\"mode\":%s,\"inputs\":%ld,\"accepted\":%ld,\"lexical\":%ld,\"parse\":%ld,\"semantic\":%ld,\"reuse_probes\":%ld,\"distinct_outcomes\":%zu,\"capped\":%s,\"next_index\":%ld,\"samples\":[",
           jstr(mode).c_str(), g_total, g_accept, g_lex, g_parse, g_sem, g_probes, g_outcomes.size(), g_capped ? "true" : "false", g_n);
    for (size_t i = 0; i < g_samples.size(); ++i) printf("%s%s", i ? "," : "", jstr(g_samples[i]).c_str());
    printf("],\"violations\":[");
    for (size_t i = 0; i < g_viol.size(); ++i)
        printf("%s{\"key\":%s,\"what\":%s,\"input\":%s,\"n\":%ld,\"count\":%ld}", i ? "," : "", jstr(g_viol[i].key).c_str(), jstr(g_viol[i].what).c_str(),
               jstr(g_viol[i].input).c_str(), g_viol[i].n, g_count[g_viol[i].key]);
    printf("]}\n");
}

static void enumTokens(int alpha, int ctx, int k) {
    const auto& A = ALPHABETS[alpha];
    const auto& C = CONTEXTS[ctx];
    for (int len = 0; len <= k; ++len) {
        std::vector<size_t> idx(len, 0);
        while (true) {
            if (mine()) {
                std::string s = C.first;
                for (int i = 0; i < len; ++i) {
                    s += A[idx[i]];
                    s += ' ';
                }
                s += C.second;
                checkInput(s, g_n - 1);
                if (timeUp()) return;
            }
            int p = len - 1;
            while (p >= 0 && ++idx[p] == A.size()) idx[p--] = 0;
            if (p < 0) break;
        }
    }
}

static void enumBytes(int b) {
    g_analyse = false;
    for (int len = 0; len <= b; ++len) {
        std::vector<int> idx(len, 0);
        while (true) {
            if (mine()) {
                std::string s(len, '\0');
                for (int i = 0; i < len; ++i) s[i] = (char)idx[i];
                checkInput(s, g_n - 1);
                if (timeUp()) return;
            }
            int p = len - 1;
            while (p >= 0 && ++idx[p] == 256) idx[p--] = 0;
            if (p < 0) break;
        }
    }
    // a valid prefix followed by every 2-byte tail (bytes inside a function body)
    const std::string pre = "function main() -> void { int x = 1; ";
    for (int a = 0; a < 256; ++a)
        for (int c = 0; c < 256; c += (b >= 3 ? 1 : 5)) {
            if (mine()) {
                std::string s = pre;
                s += (char)a;
                s += (char)c;
                s += " }";
                checkInput(s, g_n - 1);
            }
        }
}

static void enumEdits(const std::string& seed, int alpha) {
    const auto& A = ALPHABETS[alpha];
    // token spans from the real lexer (a seed that does not lex is only truncated)
    std::vector<std::pair<size_t, size_t>> spans;
    try {
        Lexer lx(seed);
        auto toks = lx.tokenize();
        std::vector<size_t> lineStart{0};
        for (size_t i = 0; i < seed.size(); ++i)
            if (seed[i] == '\n') lineStart.push_back(i + 1);
        for (auto& t : toks) {
            if (t.type == TokenType::Eof) continue;
            size_t off = lineStart[t.line - 1] + (size_t)(t.column - 1);
            spans.push_back({off, t.value.size()});
        }
    } catch (...) {
    }
    // identifiers of the seed itself are replacement candidates too (renaming a use to another declared name)
    std::vector<std::string> idents;
    std::vector<char> isIdent;
    try {
        Lexer lx2(seed);
        for (auto& t : lx2.tokenize()) {
            if (t.type == TokenType::Eof) continue;
            isIdent.push_back(t.type == TokenType::Identifier);
            if (t.type == TokenType::Identifier && std::find(idents.begin(), idents.end(), t.value) == idents.end() && idents.size() < 14) idents.push_back(t.value);
        }
    } catch (...) {
    }
    if (mine()) checkInput(seed, g_n - 1);
    // truncation at every byte offset
    for (size_t cut = 0; cut < seed.size(); ++cut)
        if (mine()) checkInput(seed.substr(0, cut), g_n - 1);
    for (size_t i = 0; i < spans.size(); ++i) {
        auto [off, len] = spans[i];
        // deletion
        if (mine()) checkInput(seed.substr(0, off) + seed.substr(off + len), g_n - 1);
        // duplication
        if (mine()) checkInput(seed.substr(0, off) + seed.substr(off, len) + " " + seed.substr(off), g_n - 1);
        // swap with the next token
        if (i + 1 < spans.size() && mine()) {
            auto [o2, l2] = spans[i + 1];
            checkInput(seed.substr(0, off) + seed.substr(o2, l2) + seed.substr(off + len, o2 - off - len) + seed.substr(off, len) + seed.substr(o2 + l2), g_n - 1);
        }
        if (i < isIdent.size() && isIdent[i])
            for (auto& id : idents)
                if (id != seed.substr(off, len) && mine()) checkInput(seed.substr(0, off) + id + seed.substr(off + len), g_n - 1);
        for (auto& tok : A) {
            if (mine()) checkInput(seed.substr(0, off) + tok + seed.substr(off + len), g_n - 1);        // replacement
            if (mine()) checkInput(seed.substr(0, off) + tok + " " + seed.substr(off), g_n - 1);        // insertion before
            if (timeUp()) return;
        }
    }
    for (auto& tok : A)
        if (mine()) checkInput(seed + " " + tok, g_n - 1);  // insertion at the end
}

static std::string rep(const std::string& s, int n) {
    std::string o;
    for (int i = 0; i < n; ++i) o += s;
    return o;
}

static void enumNest(int maxDepth) {
    auto F = [](const std::string& body) { return "function main() -> void { " + body + " }"; };
    for (int d = 1; d <= maxDepth; ++d) {
        std::vector<std::string> inputs = {
            F("int x = " + rep("(", d) + "1" + rep(")", d) + ";"),
            F("int x = " + rep("(", d) + "1;"),
            F("int x = 1" + rep(")", d) + ";"),
            F("int x = " + rep("-", d) + "1;"),
            F("boolean b = " + rep("!", d) + "true;"),
            F("bit b = " + rep("~", d) + "1b;"),
            F("int x = " + rep("(int)", d) + "1;"),
            F("int x = " + rep("(int", d) + "1;"),
            F(rep("{", d) + rep("}", d)),
            F(rep("{", d)),
            rep("}", d),
            F(rep("if (true) { ", d) + rep("}", d)),
            F(rep("if (true) ", d) + "echo(1);"),
            F(rep("while (false) { ", d) + rep("}", d)),
            F(rep("for (int i = 0; i < 1; i++) { ", d) + rep("}", d)),
            F("int x = " + rep("f(", d) + "1" + rep(")", d) + ";"),
            F("int[] a = " + rep("{", d) + "1" + rep("}", d) + ";"),
            F("int x = a" + rep("[0]", d) + ";"),
            F("int x = a" + rep(".b", d) + ";"),
            F("int x = a" + rep("()", d) + ";"),
            F("A" + rep("<A", d) + rep(">", d) + " v = null;"),
            F("int x = 1" + rep(" + 1", d) + ";"),
            F("int x = 1" + rep(" + (1", d) + rep(")", d) + ";"),
            F("x" + rep(" = x", d) + ";"),
            F("true ? " + rep("true ? ", d) + "echo(1);" + rep(" : echo(2);", d + 1)),
            F("echo(" + rep("measure ", d) + "q);"),
            F("int x = " + rep("new A(", d) + rep(")", d) + ";"),
            rep("@quantum ", d) + "function f() -> bit { return 0b; } function main() -> void { }",
            rep("@", d) + "function main() -> void { }",
            F(rep("@tracked ", d) + "qubit q;"),
            "class A { " + rep("public ", d) + "int x; } function main() -> void { }",
            "class A { " + rep("static ", d) + "int x; } function main() -> void { }",
            rep("class A { ", d) + rep("}", d) + " function main() -> void { }",
            rep("import a.b; ", d) + "function main() -> void { }",
            "package " + rep("a.", d) + "b; function main() -> void { }",
            "function main(" + rep("int a, ", d) + "int z) -> void { }",
            F("f(" + rep("1, ", d) + "1);"),
        };
        for (auto& s : inputs)
            if (mine()) checkInput(s, g_n - 1);
    }
}

// every inheritance graph on n <= N classes (each class extends one of the n classes, itself included, or nothing), over
// several name pools (the analyser keeps classes in hash maps, so iteration order depends on the names) and both
// declaration orders
static void enumHier(int N) {
    static const std::vector<std::vector<std::string>> POOLS = {
        {"A", "B", "C", "D", "E"}, {"Shape", "Circle", "Disc", "Ring", "Dot"}, {"Zed", "X", "Tail", "Ball", "Q"}, {"Node", "Base", "Leaf", "Mid", "Top"}};
    for (int n = 1; n <= N; ++n) {
        std::vector<int> base(n, -1);
        while (true) {
            for (auto& pool : POOLS)
                for (int rev = 0; rev < 2; ++rev) {
                    if (!mine()) continue;
                    std::string s;
                    for (int k = 0; k < n; ++k) {
                        int i = rev ? n - 1 - k : k;
                        s += "class " + pool[i];
                        if (base[i] >= 0) s += " extends " + pool[base[i]];
                        s += " { public int f" + std::to_string(i) + "; public constructor() -> " + pool[i] + " = default; public virtual function m() -> int { return " + std::to_string(i) +
                             "; } }\n";
                    }
                    s += "function main() -> void { " + pool[0] + " o = new " + pool[0] + "(); echo(o.m()); }\n";
                    checkInput(s, g_n - 1);
                }
            int p = n - 1;
            while (p >= 0 && ++base[p] == n) base[p--] = -1;
            if (p < 0) break;
        }
    }
}

int main(int argc, char** argv) {
    signal(SIGPIPE, SIG_IGN);
    std::cout.setstate(std::ios::failbit);  // nothing the front end prints may interleave with the JSON summary
    std::cerr.setstate(std::ios::failbit);
    g_t0 = std::chrono::steady_clock::now();
    SemanticAnalyser reused;
    g_reused = &reused;
    std::string cmd = argc > 1 ? argv[1] : "";
    if (cmd.rfind("L", 0) == 0) {  // Ltokens / Ledits / Lfile: loader mode
        cmd = cmd.substr(1);
        namespace fs = std::filesystem;
        g_loaderDir = "/dev/shm/verif_front_" + std::to_string(getpid());
        fs::create_directories(g_loaderDir + "/lib/util");
        fs::create_directories(g_loaderDir + "/search/lib");
        std::ofstream(g_loaderDir + "/lib/Helper.bloch") << "package lib;\nfunction helper() -> int { return 1; }\n";
        std::ofstream(g_loaderDir + "/lib/util/Helper.bloch") << "package lib.util;\nimport lib.Helper;\nfunction helper2() -> int { return helper(); }\n";
        std::ofstream(g_loaderDir + "/lib/util/Other.bloch") << "package lib.util;\nclass Other { public int v; public constructor() -> Other = default; }\n";
        std::ofstream(g_loaderDir + "/search/lib/Extra.bloch") << "package lib;\nfunction extra() -> int { return 2; }\n";
        if (chdir(g_loaderDir.c_str()) != 0) return 3;
        atexit([] { std::error_code ec; std::filesystem::remove_all(g_loaderDir, ec); });
    }
    auto common = [&](int base) {
        g_part = atoi(argv[base]);
        g_nparts = atoi(argv[base + 1]);
        g_start = atol(argv[base + 2]);
        g_progressFd = open(argv[base + 3], O_CREAT | O_RDWR, 0644);
        if (argc > base + 4) g_deadline = atof(argv[base + 4]);
    };
    if (cmd == "file") {
        std::ifstream in(argv[2], std::ios::binary);
        std::string s((std::istreambuf_iterator<char>(in)), std::istreambuf_iterator<char>());
        checkInput(s, 0, true);
        for (auto& v : g_viol) printf("VIOLATION %s: %s\n", v.key.c_str(), v.what.c_str());
        return g_viol.empty() ? 0 : 1;
    }
    if (cmd == "tokens" && argc >= 9) {
        common(5);
        enumTokens(atoi(argv[2]), atoi(argv[3]), atoi(argv[4]));
    } else if (cmd == "bytes" && argc >= 7) {
        common(3);
        enumBytes(atoi(argv[2]));
    } else if (cmd == "edits" && argc >= 8) {
        common(4);
        std::ifstream in(argv[2], std::ios::binary);
        std::string s((std::istreambuf_iterator<char>(in)), std::istreambuf_iterator<char>());
        enumEdits(s, atoi(argv[3]));
    } else if (cmd == "hier" && argc >= 7) {
        common(3);
        enumHier(atoi(argv[2]));
    } else if (cmd == "nest" && argc >= 7) {
        common(3);
        enumNest(atoi(argv[2]));
    } else {
        fprintf(stderr, "usage: see source\n");
        return 2;
    }
    summary(cmd);
    return 0;
}
