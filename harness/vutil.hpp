// Small helpers shared by harness programs: JSON writing, job reading, AST dump.
#pragma once
#include <cmath>
#include <cstdio>
#include <cstring>
#include <map>
#include <sstream>
#include <string>
#include <vector>

#include "bloch/compiler/ast/ast.hpp"
#include "bloch/compiler/lexer/token.hpp"

namespace vutil {

inline std::string jstr(const std::string& s) {
    std::string o = "\"";
    for (unsigned char c : s) {
        switch (c) {
            case '"': o += "\\\""; break;
            case '\\': o += "\\\\"; break;
            case '\n': o += "\\n"; break;
            case '\r': o += "\\r"; break;
            case '\t': o += "\\t"; break;
            default:
                if (c < 0x20 || c >= 0x7f) {
                    char b[8];
                    snprintf(b, sizeof b, "\\u%04x", c);  // bytes >= 0x7f are mapped 1:1 (latin-1 view)
                    o += b;
                } else
                    o += (char)c;
        }
    }
    o += "\"";
    return o;
}

inline std::string jnum(double d) {
    if (!std::isfinite(d)) return std::isnan(d) ? "\"nan\"" : (d > 0 ? "\"inf\"" : "\"-inf\"");
    char b[40];
    snprintf(b, sizeof b, "%.17g", d);
    return b;
}

// ---- job reader --------------------------------------------------------------------------
struct Job {
    std::string id, kind;
    std::map<std::string, std::string> opt;
    std::map<std::string, std::string> blob;
    std::vector<std::pair<std::string, std::string>> files;     // relpath -> content
    std::vector<std::pair<std::string, std::string>> symlinks;  // relpath -> target
    std::vector<std::string> argv;
    bool has(const std::string& k) const { return opt.count(k) != 0; }
    std::string get(const std::string& k, const std::string& d = "") const {
        auto it = opt.find(k);
        return it == opt.end() ? d : it->second;
    }
    long geti(const std::string& k, long d = 0) const {
        auto it = opt.find(k);
        return it == opt.end() ? d : atol(it->second.c_str());
    }
};

inline bool readLine(FILE* f, std::string& out) {
    out.clear();
    int c;
    bool any = false;
    while ((c = fgetc(f)) != EOF) {
        any = true;
        if (c == '\n') return true;
        out.push_back((char)c);
    }
    return any;
}

inline std::string readBytes(FILE* f, size_t n) {
    std::string s(n, '\0');
    size_t got = fread(s.data(), 1, n, f);
    s.resize(got);
    int c = fgetc(f);  // trailing newline
    (void)c;
    return s;
}

// returns false at EOF
inline bool readJob(FILE* f, Job& j) {
    j = Job{};
    std::string line;
    bool started = false;
    while (readLine(f, line)) {
        if (line.empty()) continue;
        std::istringstream is(line);
        std::string w;
        is >> w;
        if (w == "job") {
            is >> j.id;
            started = true;
        } else if (w == "kind") {
            is >> j.kind;
        } else if (w == "opt") {
            std::string k;
            is >> k;
            std::string rest;
            std::getline(is, rest);
            if (!rest.empty() && rest[0] == ' ') rest.erase(0, 1);
            j.opt[k] = rest;
        } else if (w == "blob") {
            std::string k;
            size_t n;
            is >> k >> n;
            j.blob[k] = readBytes(f, n);
        } else if (w == "file") {
            std::string k;
            size_t n;
            is >> k >> n;
            j.files.push_back({k, readBytes(f, n)});
        } else if (w == "symlink") {
            std::string k, t;
            is >> k >> t;
            j.symlinks.push_back({k, t});
        } else if (w == "arg") {
            size_t n;
            is >> n;
            j.argv.push_back(readBytes(f, n));
        } else if (w == "end") {
            return started;
        }
    }
    return false;
}

// ---- AST dump (S-expression) through the public visitor ----------------------------------------
using namespace bloch::compiler;

class AstDump : public ASTVisitor {
   public:
    std::string out;
    bool keepParens = false;
    bool positions = false;
    void pos(ASTNode& n) {
        if (positions) out += "@" + std::to_string(n.line) + ":" + std::to_string(n.column);
    }
    template <class T>
    void sub(T& p) {
        if (p)
            p->accept(*this);
        else
            out += "nil";
    }
    void annots(std::vector<std::unique_ptr<AnnotationNode>>& as) {
        for (auto& a : as) {
            out += " ";
            sub(a);
        }
    }
    void visit(VariableDeclaration& n) override {
        out += "(var";
        pos(n);
        out += " " + n.name + (n.isFinal ? " final" : "") + (n.isTracked ? " tracked" : "") + " ";
        sub(n.varType);
        out += " ";
        sub(n.initializer);
        annots(n.annotations);
        out += ")";
    }
    void visit(BlockStatement& n) override {
        out += "(block";
        pos(n);
        for (auto& s : n.statements) {
            out += " ";
            sub(s);
        }
        out += ")";
    }
    void visit(ExpressionStatement& n) override {
        out += "(expr";
        pos(n);
        out += " ";
        sub(n.expression);
        out += ")";
    }
    void visit(ReturnStatement& n) override {
        out += "(return";
        pos(n);
        out += " ";
        sub(n.value);
        out += ")";
    }
    void visit(IfStatement& n) override {
        out += "(if";
        pos(n);
        out += " ";
        sub(n.condition);
        out += " ";
        sub(n.thenBranch);
        out += " ";
        sub(n.elseBranch);
        out += ")";
    }
    void visit(ForStatement& n) override {
        out += "(for";
        pos(n);
        out += " ";
        sub(n.initializer);
        out += " ";
        sub(n.condition);
        out += " ";
        sub(n.increment);
        out += " ";
        sub(n.body);
        out += ")";
    }
    void visit(WhileStatement& n) override {
        out += "(while";
        pos(n);
        out += " ";
        sub(n.condition);
        out += " ";
        sub(n.body);
        out += ")";
    }
    void visit(EchoStatement& n) override {
        out += "(echo";
        pos(n);
        out += " ";
        sub(n.value);
        out += ")";
    }
    void visit(ResetStatement& n) override {
        out += "(reset";
        pos(n);
        out += " ";
        sub(n.target);
        out += ")";
    }
    void visit(MeasureStatement& n) override {
        out += "(measure";
        pos(n);
        out += " ";
        sub(n.qubit);
        out += ")";
    }
    void visit(DestroyStatement& n) override {
        out += "(destroy";
        pos(n);
        out += " ";
        sub(n.target);
        out += ")";
    }
    void visit(TernaryStatement& n) override {
        out += "(ternary";
        pos(n);
        out += " ";
        sub(n.condition);
        out += " ";
        sub(n.thenBranch);
        out += " ";
        sub(n.elseBranch);
        out += ")";
    }
    void visit(AssignmentStatement& n) override {
        out += "(assign";
        pos(n);
        out += " " + n.name + " ";
        sub(n.value);
        out += ")";
    }
    void visit(BinaryExpression& n) override {
        out += "(bin";
        pos(n);
        out += " " + n.op + " ";
        sub(n.left);
        out += " ";
        sub(n.right);
        out += ")";
    }
    void visit(UnaryExpression& n) override {
        out += "(un";
        pos(n);
        out += " " + n.op + " ";
        sub(n.right);
        out += ")";
    }
    void visit(CastExpression& n) override {
        out += "(cast";
        pos(n);
        out += " ";
        sub(n.targetType);
        out += " ";
        sub(n.expression);
        out += ")";
    }
    void visit(PostfixExpression& n) override {
        out += "(post";
        pos(n);
        out += " " + n.op + " ";
        sub(n.left);
        out += ")";
    }
    void visit(LiteralExpression& n) override {
        out += "(lit";
        pos(n);
        out += " " + n.literalType + " " + jstr(n.value) + ")";
    }
    void visit(NullLiteralExpression& n) override {
        out += "(null";
        pos(n);
        out += ")";
    }
    void visit(VariableExpression& n) override {
        out += "(v";
        pos(n);
        out += " " + n.name + ")";
    }
    void visit(CallExpression& n) override {
        out += "(call";
        pos(n);
        out += " ";
        sub(n.callee);
        for (auto& a : n.arguments) {
            out += " ";
            sub(a);
        }
        out += ")";
    }
    void visit(MemberAccessExpression& n) override {
        out += "(member";
        pos(n);
        out += " ";
        sub(n.object);
        out += " " + n.member + ")";
    }
    void visit(NewExpression& n) override {
        out += "(new";
        pos(n);
        out += " ";
        sub(n.classType);
        for (auto& a : n.arguments) {
            out += " ";
            sub(a);
        }
        out += ")";
    }
    void visit(ThisExpression& n) override {
        out += "(this";
        pos(n);
        out += ")";
    }
    void visit(SuperExpression& n) override {
        out += "(super";
        pos(n);
        out += ")";
    }
    void visit(IndexExpression& n) override {
        out += "(index";
        pos(n);
        out += " ";
        sub(n.collection);
        out += " ";
        sub(n.index);
        out += ")";
    }
    void visit(ArrayLiteralExpression& n) override {
        out += "(arr";
        pos(n);
        for (auto& a : n.elements) {
            out += " ";
            sub(a);
        }
        out += ")";
    }
    void visit(ParenthesizedExpression& n) override {
        if (keepParens) {
            out += "(paren";
            pos(n);
            out += " ";
            sub(n.expression);
            out += ")";
        } else
            sub(n.expression);
    }
    void visit(MeasureExpression& n) override {
        out += "(measurex";
        pos(n);
        out += " ";
        sub(n.qubit);
        out += ")";
    }
    void visit(AssignmentExpression& n) override {
        out += "(assignx";
        pos(n);
        out += " " + n.name + " ";
        sub(n.value);
        out += ")";
    }
    void visit(MemberAssignmentExpression& n) override {
        out += "(massign";
        pos(n);
        out += " ";
        sub(n.object);
        out += " " + n.member + " ";
        sub(n.value);
        out += ")";
    }
    void visit(ArrayAssignmentExpression& n) override {
        out += "(aassign";
        pos(n);
        out += " ";
        sub(n.collection);
        out += " ";
        sub(n.index);
        out += " ";
        sub(n.value);
        out += ")";
    }
    void visit(PrimitiveType& n) override { out += "(prim " + n.name + ")"; }
    void visit(NamedType& n) override {
        out += "(named";
        for (auto& p : n.nameParts) out += " " + p;
        if (n.hasTypeArgumentList) out += " <>";
        for (auto& a : n.typeArguments) {
            out += " ";
            sub(a);
        }
        out += ")";
    }
    void visit(ArrayType& n) override {
        out += "(arrtype ";
        sub(n.elementType);
        out += " " + std::to_string(n.size) + " ";
        sub(n.sizeExpression);
        out += ")";
    }
    void visit(VoidType&) override { out += "(void)"; }
    void visit(TypeParameter& n) override {
        out += "(tparam " + n.name + " ";
        sub(n.bound);
        out += ")";
    }
    void visit(Parameter& n) override {
        out += "(param " + n.name + " ";
        sub(n.type);
        out += ")";
    }
    void visit(AnnotationNode& n) override { out += "(annot " + n.name + " " + jstr(n.value) + ")"; }
    void visit(PackageDeclaration& n) override {
        out += "(package";
        for (auto& p : n.nameParts) out += " " + p;
        out += ")";
    }
    void visit(ImportDeclaration& n) override {
        out += "(import";
        for (auto& p : n.packageParts) out += " " + p;
        if (n.isWildcard) out += " *";
        if (n.symbol) out += " :" + *n.symbol;
        out += ")";
    }
    static const char* vis(Visibility v) {
        return v == Visibility::Public ? "public" : v == Visibility::Private ? "private" : "protected";
    }
    void visit(FieldDeclaration& n) override {
        out += "(field";
        pos(n);
        out += std::string(" ") + vis(n.visibility) + " " + n.name + (n.isFinal ? " final" : "") +
               (n.isStatic ? " static" : "") + (n.isTracked ? " tracked" : "") + " ";
        sub(n.fieldType);
        out += " ";
        sub(n.initializer);
        annots(n.annotations);
        out += ")";
    }
    void visit(MethodDeclaration& n) override {
        out += "(method";
        pos(n);
        out += std::string(" ") + vis(n.visibility) + " " + n.name + (n.isStatic ? " static" : "") +
               (n.isVirtual ? " virtual" : "") + (n.isOverride ? " override" : "") +
               (n.hasQuantumAnnotation ? " quantum" : "");
        for (auto& p : n.params) {
            out += " ";
            sub(p);
        }
        out += " -> ";
        sub(n.returnType);
        out += " ";
        sub(n.body);
        annots(n.annotations);
        out += ")";
    }
    void visit(ConstructorDeclaration& n) override {
        out += "(ctor";
        pos(n);
        out += std::string(" ") + vis(n.visibility) + (n.isDefault ? " default" : "");
        for (auto& p : n.params) {
            out += " ";
            sub(p);
        }
        out += " ";
        sub(n.body);
        out += ")";
    }
    void visit(DestructorDeclaration& n) override {
        out += "(dtor";
        pos(n);
        out += std::string(" ") + vis(n.visibility) + (n.isDefault ? " default" : "") + " ";
        sub(n.body);
        out += ")";
    }
    void visit(ClassDeclaration& n) override {
        out += "(class";
        pos(n);
        out += " " + n.name + (n.isStatic ? " static" : "") + (n.isAbstract ? " abstract" : "");
        for (auto& t : n.typeParameters) {
            out += " ";
            sub(t);
        }
        out += " base[";
        for (auto& b : n.baseName) out += b + ".";
        out += "] ";
        sub(n.baseType);
        for (auto& m : n.members) {
            out += " ";
            sub(m);
        }
        out += ")";
    }
    void visit(FunctionDeclaration& n) override {
        out += "(function";
        pos(n);
        out += " " + n.name + (n.hasQuantumAnnotation ? " quantum" : "") +
               (n.hasShotsAnnotation ? " shots" : "");
        for (auto& p : n.params) {
            out += " ";
            sub(p);
        }
        out += " -> ";
        sub(n.returnType);
        out += " ";
        sub(n.body);
        annots(n.annotations);
        out += ")";
    }
    void visit(Program& n) override {
        out += "(program ";
        sub(n.packageDecl);
        for (auto& i : n.imports) {
            out += " ";
            sub(i);
        }
        for (auto& c : n.classes) {
            out += " ";
            sub(c);
        }
        for (auto& f : n.functions) {
            out += " ";
            sub(f);
        }
        for (auto& s : n.statements) {
            out += " ";
            sub(s);
        }
        out += ")";
    }
};

}  // namespace vutil
