// vdrv: fork-per-job driver around the real Bloch front end, evaluator and CLI.
// Protocol: see vutil.hpp (readJob). For each job the parent prints ONE json line:
//   {"id":..,"sig":N,"exit":N,"timeout":bool,"fd2":"<raw stderr fd of the child: sanitizer text>","out":"<child's record lines>"}
// The child's record lines are "S <json>" (a stage/shot record), "T <n>" (teardown of shot n survived), "D" (done).
#include <fcntl.h>
#include <signal.h>
#include <sys/mman.h>
#include <sys/resource.h>
#include <sys/stat.h>
#include <sys/wait.h>
#include <unistd.h>

#include <algorithm>
#include <cmath>
#include <filesystem>
#include <fstream>
#include <iostream>
#include <set>
#include <sstream>

#include "bloch/cli/cli.hpp"
#include "bloch/compiler/import/module_loader.hpp"
#include "bloch/compiler/lexer/lexer.hpp"
#include "bloch/compiler/parser/parser.hpp"
#include "bloch/compiler/semantics/semantic_analyser.hpp"
#include "bloch/runtime/qasm_simulator.hpp"
#include "bloch/runtime/runtime_evaluator.hpp"
#include "bloch/support/error/bloch_error.hpp"
#include "bloch/support/verif_hooks.hpp"
#include "vutil.hpp"

using namespace bloch::compiler;
using namespace bloch::runtime;
using bloch::support::BlochError;
using bloch::support::ErrorCategory;
using vutil::jnum;
using vutil::jstr;
namespace fs = std::filesystem;

extern "C" const char* __asan_default_options() {
    return "detect_leaks=0:halt_on_error=1:abort_on_error=0:exitcode=77:allocator_may_return_null=1:"
           "detect_stack_use_after_return=0:handle_segv=1:symbolize=1:print_summary=1";
}
extern "C" int __lsan_do_recoverable_leak_check();
extern "C" const char* __ubsan_default_options() { return "print_stacktrace=0:halt_on_error=0:exitcode=77"; }

static int g_outfd = 1;
static void emit(const std::string& s) {
    std::string line = s + "\n";
    size_t off = 0;
    while (off < line.size()) {
        ssize_t w = write(g_outfd, line.data() + off, line.size() - off);
        if (w <= 0) break;
        off += (size_t)w;
    }
}

static const char* catName(ErrorCategory c) {
    switch (c) {
        case ErrorCategory::Lexical: return "lexical";
        case ErrorCategory::Parse: return "parse";
        case ErrorCategory::Semantic: return "semantic";
        case ErrorCategory::Runtime: return "runtime";
        default: return "generic";
    }
}

static std::string stripAnsi(const std::string& s) {
    std::string o;
    for (size_t i = 0; i < s.size(); ++i) {
        if (s[i] == '\033') {
            while (i < s.size() && s[i] != 'm') ++i;
            continue;
        }
        o += s[i];
    }
    return o;
}

// ---- hook state -------------------------------------------------------------------------------
struct DrawRec {
    std::string what;
    int q;
    double p1, r;
};
struct OpRec {
    std::string name;
    int a, b;
    double theta;
    int outcome;
};
static std::vector<int> g_script;      // wanted outcomes
static std::vector<double> g_thr;      // explicit thresholds (mode threshold)
static bool g_thrMode = false;
static size_t g_drawIdx = 0;
static std::vector<DrawRec> g_draws;
static std::vector<OpRec> g_ops;
static bool g_snap = false;
static double g_maxNormDev = 0;
static std::string g_invViolation;
static std::vector<std::string> g_states;  // per-op state dump when wanted
static bool g_wantStates = false;

static std::string ampsJson(const std::vector<std::complex<double>>& st) {
    std::string o = "[";
    for (size_t i = 0; i < st.size(); ++i) {
        if (i) o += ",";
        o += "[" + jnum(st[i].real()) + "," + jnum(st[i].imag()) + "]";
    }
    return o + "]";
}

static double drawHook(const QasmSimulator* sim, const char* what, int q, double p1, double produced) {
    (void)sim;
    (void)produced;
    double pred1 = std::nextafter(1.0, 0.0);
    double r;
    if (g_thrMode) {
        r = g_drawIdx < g_thr.size() ? g_thr[g_drawIdx] : pred1;
    } else {
        int want = g_drawIdx < g_script.size() ? g_script[g_drawIdx] : 0;
        r = want ? 0.0 : pred1;
    }
    g_drawIdx++;
    g_draws.push_back({what, q, p1, r});
    return r;
}

static void opHook(const QasmSimulator* sim, const char* name, int a, int b, double theta, int outcome) {
    g_ops.push_back({name, a, b, theta, outcome});
    if (g_snap) {
        const auto& st = sim->m_state;
        if (st.size() != (size_t{1} << sim->m_qubits) && g_invViolation.empty())
            g_invViolation = "size " + std::to_string(st.size()) + " != 2^" + std::to_string(sim->m_qubits) +
                             " after op#" + std::to_string(g_ops.size() - 1) + " " + name;
        double n = 0;
        bool fin = true;
        for (auto& c : st) {
            n += std::norm(c);
            if (!std::isfinite(c.real()) || !std::isfinite(c.imag())) fin = false;
        }
        if (!fin && g_invViolation.empty())
            g_invViolation = std::string("non-finite amplitude after op#") + std::to_string(g_ops.size() - 1) + " " + name;
        double dev = std::fabs(n - 1.0);
        if (!(dev <= 1e-9) && g_invViolation.empty())
            g_invViolation = "norm " + jnum(n) + " after op#" + std::to_string(g_ops.size() - 1) + " " + name;
        if (dev > g_maxNormDev) g_maxNormDev = dev;
    }
    if (g_wantStates) g_states.push_back(ampsJson(sim->m_state));
}

static int g_gcMode = 0;  // 0 none, 1 all, 2 own, 3 mask
static std::set<unsigned long> g_gcMask;
static int gcHook(unsigned long idx) {
    switch (g_gcMode) {
        case 0: return 0;
        case 1: return 1;
        case 2: return -1;
        default: return g_gcMask.count(idx) ? 1 : 0;
    }
}

static void parseGc(const std::string& s) {
    g_gcMask.clear();
    if (s == "none" || s.empty())
        g_gcMode = 0;
    else if (s == "all")
        g_gcMode = 1;
    else if (s == "own")
        g_gcMode = 2;
    else {
        g_gcMode = 3;  // "mask:1,4,7"
        std::string list = s.substr(s.find(':') + 1);
        std::istringstream is(list);
        std::string tok;
        while (std::getline(is, tok, ','))
            if (!tok.empty()) g_gcMask.insert(strtoul(tok.c_str(), nullptr, 10));
    }
}

static std::vector<std::string> splitList(const std::string& s, char sep = ',') {
    std::vector<std::string> out;
    std::istringstream is(s);
    std::string tok;
    while (std::getline(is, tok, sep))
        if (!tok.empty()) out.push_back(tok);
    return out;
}

struct Capture {
    std::ostringstream out, err;
    std::streambuf *oldOut, *oldErr;
    Capture() {
        oldOut = std::cout.rdbuf(out.rdbuf());
        oldErr = std::cerr.rdbuf(err.rdbuf());
    }
    ~Capture() {
        std::cout.rdbuf(oldOut);
        std::cerr.rdbuf(oldErr);
    }
};

static std::string errJson(const char* stage, const std::exception& e) {
    std::string o = "\"stage\":" + jstr(stage);
    if (auto be = dynamic_cast<const BlochError*>(&e)) {
        o += ",\"status\":" + jstr(catName(be->category)) + ",\"line\":" + std::to_string(be->line) +
             ",\"col\":" + std::to_string(be->column);
    } else {
        o += ",\"status\":\"raw_exception\"";
    }
    o += ",\"msg\":" + jstr(stripAnsi(e.what()));
    return o;
}

// ---- jobs ------------------------------------------------------------------------------------
static void jobTokens(const vutil::Job& j) {
    const std::string& src = j.blob.at("src");
    try {
        Lexer lx(src);
        auto toks = lx.tokenize();
        std::string o = "{\"status\":\"ok\",\"tokens\":[";
        for (size_t i = 0; i < toks.size(); ++i) {
            if (i) o += ",";
            o += "[" + std::to_string((int)toks[i].type) + "," + jstr(toks[i].value) + "," +
                 std::to_string(toks[i].line) + "," + std::to_string(toks[i].column) + "]";
        }
        emit("S " + o + "]}");
    } catch (const std::exception& e) {
        emit("S {" + errJson("lex", e) + "}");
    }
}

static std::unique_ptr<Program> frontEnd(const std::string& src, bool analyse, int analyseTimes, std::string& err) {
    std::unique_ptr<Program> prog;
    try {
        Lexer lx(src);
        auto toks = lx.tokenize();
        try {
            Parser ps(std::move(toks));
            prog = ps.parse();
        } catch (const std::exception& e) {
            err = errJson("parse", e);
            return nullptr;
        }
    } catch (const std::exception& e) {
        err = errJson("lex", e);
        return nullptr;
    }
    if (analyse) {
        try {
            for (int i = 0; i < analyseTimes; ++i) {
                SemanticAnalyser an;
                an.analyse(*prog);
            }
        } catch (const std::exception& e) {
            err = errJson("analyse", e);
            return nullptr;
        }
    }
    return prog;
}

static void jobParse(const vutil::Job& j) {
    std::string err;
    Capture cap;
    auto prog = frontEnd(j.blob.at("src"), j.geti("analyse", 0) != 0, 1, err);
    if (!prog) {
        emit("S {" + err + "}");
        return;
    }
    vutil::AstDump d;
    d.keepParens = j.geti("keep_parens", 0) != 0;
    d.positions = j.geti("positions", 0) != 0;
    prog->accept(d);
    emit("S {\"status\":\"ok\",\"ast\":" + jstr(d.out) + "}");
}

static std::string trackedJson(const RuntimeEvaluator& ev) {
    std::string o = "{";
    bool first = true;
    std::map<std::string, std::map<std::string, int>> sorted;
    for (auto& kv : ev.trackedCounts())
        for (auto& vv : kv.second) sorted[kv.first][vv.first] = vv.second;
    for (auto& kv : sorted) {
        if (!first) o += ",";
        first = false;
        o += jstr(kv.first) + ":{";
        bool f2 = true;
        for (auto& vv : kv.second) {
            if (!f2) o += ",";
            f2 = false;
            o += jstr(vv.first) + ":" + std::to_string(vv.second);
        }
        o += "}";
    }
    return o + "}";
}

static void jobRun(const vutil::Job& j) {
    std::string err;
    std::unique_ptr<Program> prog;
    {
        Capture cap;
        prog = frontEnd(j.blob.at("src"), true, (int)j.geti("analyse_times", 1), err);
        if (!prog) {
            emit("S {" + err + ",\"stderr\":" + jstr(stripAnsi(cap.err.str())) + "}");
            return;
        }
    }
    int shots = (int)j.geti("shots", 1);
    std::set<std::string> want;
    for (auto& w : splitList(j.get("want", ""))) want.insert(w);
    g_snap = want.count("inv") != 0;
    g_wantStates = want.count("states") != 0;
    // draw scripts: per shot separated by '/', entries separated by ','
    std::vector<std::string> perShot;
    {
        std::string d = j.get("draws", "");
        std::istringstream is(d);
        std::string tok;
        while (std::getline(is, tok, '/')) perShot.push_back(tok);
    }
    g_thrMode = j.get("draw_mode", "outcome") == "threshold";
    parseGc(j.get("gc", "none"));
    // optional per-shot collection schedules: "gcs" = specs separated by '/'
    std::vector<std::string> gcPerShot;
    {
        std::string g = j.get("gcs", "");
        std::istringstream is(g);
        std::string tok;
        while (std::getline(is, tok, '/')) gcPerShot.push_back(tok);
    }
    bloch::verif::draw = drawHook;
    bloch::verif::op = opHook;
    bloch::verif::gcAt = gcHook;
    bloch::verif::noTimer = j.geti("timer", 0) == 0;
    bool reanalyse = j.geti("reanalyse_between", 0) != 0;
    for (int s = 0; s < shots; ++s) {
        g_script.clear();
        g_thr.clear();
        if ((size_t)s < perShot.size()) {
            for (auto& t : splitList(perShot[s])) {
                if (g_thrMode)
                    g_thr.push_back(strtod(t.c_str(), nullptr));
                else
                    g_script.push_back(atoi(t.c_str()));
            }
        }
        if ((size_t)s < gcPerShot.size()) parseGc(gcPerShot[s]);
        g_drawIdx = 0;
        g_draws.clear();
        g_ops.clear();
        g_states.clear();
        g_maxNormDev = 0;
        g_invViolation.clear();
        bloch::verif::pollIndex = 0;
        if (reanalyse && s > 0) {
            SemanticAnalyser an;
            an.analyse(*prog);
        }
        {
            RuntimeEvaluator ev(j.geti("collect_qasm", 1) != 0);
            ev.setEcho(j.geti("echo", 1) != 0);
            ev.setWarnOnExit(j.geti("warn", 1) != 0);
            std::string rec = "{\"shot\":" + std::to_string(s);
            {
                Capture cap;
                try {
                    ev.execute(*prog);
                    rec += ",\"stage\":\"run\",\"status\":\"ok\"";
                } catch (const std::exception& e) {
                    rec += "," + errJson("run", e);
                }
                rec += ",\"stdout\":" + jstr(cap.out.str());
                rec += ",\"stderr\":" + jstr(stripAnsi(cap.err.str()));
            }
            rec += ",\"pending\":[";
            for (size_t i = 0; i < ev.m_echoBuffer.size(); ++i) rec += (i ? "," : "") + jstr(ev.m_echoBuffer[i]);
            rec += "]";
            rec += ",\"polls\":" + std::to_string(bloch::verif::pollIndex);
            rec += ",\"draws\":[";
            for (size_t i = 0; i < g_draws.size(); ++i)
                rec += std::string(i ? "," : "") + "[" + jstr(g_draws[i].what) + "," + std::to_string(g_draws[i].q) + "," + jnum(g_draws[i].p1) + "," +
                       jnum(g_draws[i].r) + "]";
            rec += "]";
            rec += ",\"script_len\":" + std::to_string(g_thrMode ? g_thr.size() : g_script.size());
            rec += ",\"timer_started\":" + std::string(ev.m_gcThread.joinable() ? "true" : "false");
            if (want.count("tracked")) rec += ",\"tracked\":" + trackedJson(ev);
            if (want.count("qasm")) rec += ",\"qasm\":" + jstr(ev.getQasm());
            if (want.count("ops")) {
                rec += ",\"ops\":[";
                for (size_t i = 0; i < g_ops.size(); ++i)
                    rec += std::string(i ? "," : "") + "[" + jstr(g_ops[i].name) + "," + std::to_string(g_ops[i].a) + "," +
                           std::to_string(g_ops[i].b) + "," + jnum(g_ops[i].theta) + "," + std::to_string(g_ops[i].outcome) + "]";
                rec += "]";
            }
            if (want.count("amps")) {
                rec += ",\"nq\":" + std::to_string(ev.m_sim.m_qubits);
                rec += ",\"amps\":" + ampsJson(ev.m_sim.m_state);
            }
            if (g_wantStates) {
                rec += ",\"states\":[";
                for (size_t i = 0; i < g_states.size(); ++i) rec += (i ? "," : "") + g_states[i];
                rec += "]";
            }
            if (g_snap) {
                rec += ",\"max_norm_dev\":" + jnum(g_maxNormDev);
                rec += ",\"inv_violation\":" + jstr(g_invViolation);
            }
            if (want.count("flags")) {
                rec += ",\"flags\":{\"eval\":[";
                for (size_t i = 0; i < ev.m_qubits.size(); ++i) rec += std::string(i ? "," : "") + (ev.m_qubits[i].measured ? "1" : "0");
                rec += "],\"names\":[";
                for (size_t i = 0; i < ev.m_qubits.size(); ++i) rec += (i ? "," : "") + jstr(ev.m_qubits[i].name);
                rec += "],\"sim\":[";
                for (size_t i = 0; i < ev.m_sim.m_measured.size(); ++i)
                    rec += std::string(i ? "," : "") + (ev.m_sim.m_measured[i] ? "1" : "0");
                rec += "],\"last\":[";
                for (size_t i = 0; i < ev.m_lastMeasurement.size(); ++i)
                    rec += std::string(i ? "," : "") + std::to_string(ev.m_lastMeasurement[i]);
                rec += "],\"free\":[";
                for (size_t i = 0; i < ev.m_freeQubitIndices.size(); ++i)
                    rec += std::string(i ? "," : "") + std::to_string(ev.m_freeQubitIndices[i]);
                rec += "]}";
            }
            if (want.count("heap")) rec += ",\"heap\":" + std::to_string(ev.heapObjectCount());
            rec += "}";
            emit("S " + rec);
            // teardown happens here, with anything it prints captured too
            Capture cap2;
            (void)cap2;
        }
        emit("T " + std::to_string(s));
    }
    if (want.count("ast_after")) {
        vutil::AstDump d;
        prog->accept(d);
        emit("S {\"ast_after\":" + jstr(d.out) + "}");
    }
}

static std::string g_scratch;

static void buildTree(const vutil::Job& j, const std::string& root) {
    for (auto& f : j.files) {
        fs::path p = fs::path(root) / f.first;
        fs::create_directories(p.parent_path());
        std::ofstream o(p, std::ios::binary);
        o << f.second;
    }
    for (auto& d : splitList(j.get("mkdirs", ""), ',')) fs::create_directories(fs::path(root) / d);
    for (auto& s : j.symlinks) {
        fs::path p = fs::path(root) / s.first;
        fs::create_directories(p.parent_path());
        std::error_code ec;
        fs::create_symlink(s.second, p, ec);
    }
}

static void scrubEnv(const std::string& home) {
    for (const char* v : {"BLOCH_STDLIB_PATH", "XDG_DATA_HOME", "XDG_CACHE_HOME", "BLOCH_NO_UPDATE_CHECK", "CI", "BLOCH_OFFLINE"})
        unsetenv(v);
    setenv("HOME", home.c_str(), 1);
}

static void jobCli(const vutil::Job& j) {
    std::string root = g_scratch;
    fs::create_directories(root);
    buildTree(j, root);
    scrubEnv(root + "/.home");
    for (auto& kv : j.opt)
        if (kv.first.rfind("env.", 0) == 0) setenv(kv.first.substr(4).c_str(), kv.second.c_str(), 1);
    std::string cwd = root + "/" + j.get("cwd", ".");
    if (chdir(cwd.c_str()) != 0) {
        emit("S {\"status\":\"harness_error\",\"msg\":\"chdir failed\"}");
        return;
    }
    std::vector<std::string> args = j.argv;
    if (args.empty() || args[0].empty()) args.insert(args.begin(), "bloch");
    std::vector<char*> argv;
    for (auto& a : args) argv.push_back(a.data());
    argv.push_back(nullptr);
    std::string draws = j.get("draws", "");
    if (!draws.empty() || j.geti("hook_draws", 0)) {
        for (auto& t : splitList(draws)) g_script.push_back(atoi(t.c_str()));
        bloch::verif::draw = drawHook;
    }
    if (j.has("gc")) {
        parseGc(j.get("gc"));
        bloch::verif::gcAt = gcHook;
    }
    bloch::verif::noTimer = j.geti("timer", 0) == 0;
    bloch::verif::op = opHook;
    int rc = -999;
    std::string so, se, extra;
    {
        Capture cap;
        try {
            rc = bloch::cli::run((int)args.size(), argv.data(), bloch::cli::Context{"1.0.0", "unknown"});
        } catch (const std::exception& e) {
            extra = std::string(",\"escaped\":") + jstr(e.what());
        } catch (...) {
            extra = ",\"escaped\":\"non-std exception\"";
        }
        so = cap.out.str();
        se = cap.err.str();
    }
    std::string rec = "{\"status\":\"cli\",\"rc\":" + std::to_string(rc) + ",\"stdout\":" + jstr(so) + ",\"stderr\":" + jstr(stripAnsi(se)) + extra;
    rec += ",\"draws_used\":" + std::to_string(g_drawIdx);
    rec += ",\"nops\":" + std::to_string(g_ops.size());
    {
        std::map<std::string, int> cnt;
        for (auto& o : g_ops) cnt[o.name]++;
        rec += ",\"opcounts\":{";
        bool f = true;
        for (auto& kv : cnt) {
            rec += std::string(f ? "" : ",") + jstr(kv.first) + ":" + std::to_string(kv.second);
            f = false;
        }
        rec += "}";
    }
    rec += ",\"files\":{";
    bool first = true;
    std::vector<fs::path> found;
    for (auto& e : fs::recursive_directory_iterator(root)) {
        if (e.is_regular_file() && e.path().extension() == ".qasm") found.push_back(e.path());
    }
    std::sort(found.begin(), found.end());
    for (auto& p : found) {
        std::ifstream in(p, std::ios::binary);
        std::string content((std::istreambuf_iterator<char>(in)), std::istreambuf_iterator<char>());
        if (!first) rec += ",";
        first = false;
        rec += jstr(fs::relative(p, root).string()) + ":" + jstr(content);
    }
    rec += "}}";
    emit("S " + rec);
}

static void jobLoad(const vutil::Job& j) {
    std::string root = g_scratch;
    fs::create_directories(root);
    buildTree(j, root);
    scrubEnv(root + "/.home");
    std::string cwd = root + "/" + j.get("cwd", ".");
    if (chdir(cwd.c_str()) != 0) {
        emit("S {\"status\":\"harness_error\",\"msg\":\"chdir failed\"}");
        return;
    }
    std::vector<std::string> search;
    for (auto& s : splitList(j.get("search", ""), ',')) search.push_back(s[0] == '/' ? s : root + "/" + s);
    std::string entry = j.get("entry");
    if (j.geti("entry_abs", 0)) entry = root + "/" + entry;
    Capture cap;
    ModuleLoader loader(search);
    std::string rec;
    std::unique_ptr<Program> prog;
    try {
        prog = loader.load(entry);
        rec = "{\"status\":\"ok\"";
    } catch (const std::exception& e) {
        rec = "{" + errJson("load", e);
    }
    auto rel = [&](const std::string& p) {
        std::string canonRoot = fs::weakly_canonical(root).string();
        if (p.rfind(canonRoot, 0) == 0) return p.substr(canonRoot.size());
        return p;
    };
    rec += ",\"load_order\":[";
    for (size_t i = 0; i < loader.m_loadOrder.size(); ++i) rec += (i ? "," : "") + jstr(rel(loader.m_loadOrder[i]));
    rec += "],\"stack\":[";
    for (size_t i = 0; i < loader.m_stack.size(); ++i) rec += (i ? "," : "") + jstr(rel(loader.m_stack[i]));
    rec += "],\"cache\":[";
    {
        std::vector<std::string> keys;
        for (auto& kv : loader.m_cache) keys.push_back(rel(kv.first));
        std::sort(keys.begin(), keys.end());
        for (size_t i = 0; i < keys.size(); ++i) rec += (i ? "," : "") + jstr(keys[i]);
    }
    rec += "]";
    if (prog) {
        rec += ",\"functions\":[";
        for (size_t i = 0; i < prog->functions.size(); ++i) rec += (i ? "," : "") + jstr(prog->functions[i]->name);
        rec += "],\"classes\":[";
        for (size_t i = 0; i < prog->classes.size(); ++i) rec += (i ? "," : "") + jstr(prog->classes[i]->name);
        rec += "],\"shots\":[" + std::string(prog->shots.first ? "true" : "false") + "," + std::to_string(prog->shots.second) + "]";
        if (j.geti("analyse", 0)) {
            try {
                SemanticAnalyser an;
                an.analyse(*prog);
                rec += ",\"analyse\":\"ok\"";
            } catch (const std::exception& e) {
                rec += ",\"analyse\":{" + errJson("analyse", e) + "}";
            }
        }
    }
    rec += "}";
    emit("S " + rec);
}

static void runJob(const vutil::Job& j) {
    if (j.kind == "tokens")
        jobTokens(j);
    else if (j.kind == "parse")
        jobParse(j);
    else if (j.kind == "run")
        jobRun(j);
    else if (j.kind == "cli")
        jobCli(j);
    else if (j.kind == "load")
        jobLoad(j);
    else
        emit("S {\"status\":\"harness_error\",\"msg\":\"unknown job kind\"}");
#if defined(__has_feature)
#if __has_feature(address_sanitizer)
    // opt leakcheck=1 (driver started with ASAN_OPTIONS=detect_leaks=1): everything the job allocated and did not free is reported by
    // LeakSanitizer on stderr ("ERROR: LeakSanitizer: detected memory leaks") and counted here
    if (j.get("leakcheck", "0") == "1")
        emit("S {\"leakcheck\":" + std::to_string(__lsan_do_recoverable_leak_check()) + "}");
#endif
#endif
    emit("D");
}

static std::string readAll(int fd) {
    std::string s;
    char buf[65536];
    ssize_t n;
    while ((n = read(fd, buf, sizeof buf)) > 0) s.append(buf, (size_t)n);
    return s;
}

int main() {
    signal(SIGPIPE, SIG_IGN);
    {
        // ASan/-O1 frames of the tree-walking evaluator are several times larger than in the release build:
        // give the main thread of every job the room a bounded recursion (<= 200 calls) needs
        struct rlimit rl;
        if (getrlimit(RLIMIT_STACK, &rl) == 0) {
            rl.rlim_cur = rl.rlim_max == RLIM_INFINITY ? (rlim_t)2048 * 1024 * 1024 : rl.rlim_max;
            setrlimit(RLIMIT_STACK, &rl);
        }
    }
    vutil::Job j;
    unsigned long seq = 0;
    pid_t me = getpid();
    while (vutil::readJob(stdin, j)) {
        ++seq;
        g_scratch = "/dev/shm/verif." + std::to_string(me) + "." + std::to_string(seq);
        int pfd[2];
        if (pipe(pfd) != 0) return 3;
        int efd = memfd_create("fd2", 0);
        long timeoutMs = j.geti("timeout_ms", 10000);
        fflush(stdout);
        pid_t pid = fork();
        if (pid == 0) {
            close(pfd[0]);
            dup2(efd, 2);
            g_outfd = pfd[1];
            alarm((unsigned)((timeoutMs + 999) / 1000));
            if (j.has("stack_kb")) {
                // run this job with a production-sized native stack (the driver's default is generous so that ASan's larger
                // frames do not turn bounded program recursion into a false crash): growth is checked against the soft limit
                struct rlimit rl;
                if (getrlimit(RLIMIT_STACK, &rl) == 0) {
                    rl.rlim_cur = (rlim_t)j.geti("stack_kb") * 1024;
                    setrlimit(RLIMIT_STACK, &rl);
                }
            }
            runJob(j);
            _exit(0);
        }
        close(pfd[1]);
        std::string out = readAll(pfd[0]);
        close(pfd[0]);
        int st = 0;
        waitpid(pid, &st, 0);
        lseek(efd, 0, SEEK_SET);
        std::string fd2 = readAll(efd);
        close(efd);
        if (fd2.size() > 6000) fd2.resize(6000);
        std::error_code ec;
        fs::remove_all(g_scratch, ec);
        int sig = WIFSIGNALED(st) ? WTERMSIG(st) : 0;
        int ex = WIFEXITED(st) ? WEXITSTATUS(st) : -1;
        std::string line = "{\"id\":" + jstr(j.id) + ",\"sig\":" + std::to_string(sig) + ",\"exit\":" + std::to_string(ex) +
                           ",\"timeout\":" + (sig == SIGALRM ? "true" : "false") + ",\"fd2\":" + jstr(fd2) + ",\"out\":" + jstr(out) + "}";
        fputs(line.c_str(), stdout);
        fputc('\n', stdout);
        fflush(stdout);
    }
    return 0;
}
