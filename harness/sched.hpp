#pragma once
#include <string>
#include <vector>
namespace sched {
    struct PointRec {
        int tid = 0;
        const char* what = "";
        int nAlts = 0;        // number of alternatives at this point
        int nThreadAlts = 0;  // the first nThreadAlts are thread choices, the rest time-outs of timed waiters
        bool curEnabled = false;
        int choice = 0;
    };
    void begin(const std::vector<int>& prefix);
    void end();
    void point(const char* what, const void* addr);
    std::vector<PointRec>& trace();
    bool deadlocked();
    bool overrun();
    int threadCount();
    bool threadFinished(int id);
    // provided by the harness: called right before the process exits because the execution cannot continue
    void onExecutionAborted();
}
