// gcthread_mc: stateless exploration of the GC timer-thread protocol of the REAL RuntimeEvaluator::execute()/destructor under
// the cooperative scheduler of sched.cpp. Iterative preemption bounding with a separate budget for time-out deviations.
//   gcthread_mc explore <program-file> <maxPreemptions> <maxTimeouts> [maxSchedules]
//   gcthread_mc replay <program-file> <c0,c1,c2,...>
// Each schedule runs in a forked child (fresh evaluator, fresh threads); the child reports its trace and observations.
#include <signal.h>
#include <sys/wait.h>
#include <unistd.h>

#include <fstream>
#include <iostream>
#include <map>
#include <set>
#include <sstream>

#include "bloch/compiler/lexer/lexer.hpp"
#include "bloch/compiler/parser/parser.hpp"
#include "bloch/compiler/semantics/semantic_analyser.hpp"
#include "bloch/runtime/runtime_evaluator.hpp"
#include "bloch/support/verif_hooks.hpp"
#include "sched.hpp"
#include "vutil.hpp"

using namespace bloch::compiler;
using namespace bloch::runtime;
using vutil::jstr;

static int g_outfd = -1;
static std::ostringstream* g_capOut = nullptr;
static std::string g_phase = "start";
static std::string g_status = "unknown";

static void writeAll(int fd, const std::string& s) {
    size_t off = 0;
    while (off < s.size()) {
        ssize_t w = write(fd, s.data() + off, s.size() - off);
        if (w <= 0) break;
        off += (size_t)w;
    }
}

static std::string traceText() {
    std::string t;
    for (auto& p : sched::trace()) {
        t += std::to_string(p.tid) + ":" + p.what + ":" + std::to_string(p.nAlts) + ":" + std::to_string(p.nThreadAlts) + ":" + (p.curEnabled ? "1" : "0") + ":" + std::to_string(p.choice) + ";";
    }
    return t;
}

static void report(const std::string& end) {
    std::string o = "END " + end + "\nPHASE " + g_phase + "\nSTATUS " + g_status + "\nTHREADS " + std::to_string(sched::threadCount()) + "\nTIMERFIN " +
                    (sched::threadCount() > 1 ? (sched::threadFinished(1) ? "1" : "0") : "-") + "\nOUT " + jstr(g_capOut ? g_capOut->str() : "") + "\nTRACE " + traceText() + "\n";
    writeAll(g_outfd, o);
}

namespace sched {
    void onExecutionAborted() { report(deadlocked() ? "deadlock" : (overrun() ? "overrun" : "aborted")); }
}

static void hookPoint(const char* what, const void* addr) { sched::point(what, addr); }

static void childRun(Program& prog, const std::vector<int>& prefix) {
    std::ostringstream cap, capErr;
    g_capOut = &cap;
    std::cout.rdbuf(cap.rdbuf());
    std::cerr.rdbuf(capErr.rdbuf());
    bloch::verif::point = hookPoint;
    bloch::verif::noTimer = false;
    bloch::verif::gcAt = nullptr;
    alarm(20);
    sched::begin(prefix);
    {
        g_phase = "construct";
        RuntimeEvaluator ev;
        g_phase = "execute";
        try {
            ev.execute(prog);
            g_status = "ok";
        } catch (const std::exception& e) {
            g_status = "runtime";
        }
        // "always stopped when a run ends, normally or by error": the run has ended here, before the evaluator is destroyed
        if (sched::threadCount() > 1 && !sched::threadFinished(1)) {
            sched::end();
            report("timer-alive-after-run");
            _exit(0);
        }
        g_phase = "destroy";
    }
    g_phase = "destroyed";
    bool timerAlive = sched::threadCount() > 1 && !sched::threadFinished(1);
    sched::end();
    report(timerAlive ? "timer-alive-after-destructor" : "done");
    _exit(0);
}

struct Result {
    std::string end, phase, status, out, trace;
    int threads = 0;
    std::string timerFin;
    bool crashed = false;
    int sig = 0;
    std::vector<sched::PointRec> points;
};

static Result runSchedule(Program& prog, const std::vector<int>& prefix) {
    int pfd[2];
    if (pipe(pfd) != 0) abort();
    pid_t pid = fork();
    if (pid == 0) {
        close(pfd[0]);
        g_outfd = pfd[1];
        childRun(prog, prefix);
        _exit(0);
    }
    close(pfd[1]);
    std::string buf;
    char b[65536];
    ssize_t n;
    while ((n = read(pfd[0], b, sizeof b)) > 0) buf.append(b, (size_t)n);
    close(pfd[0]);
    int st = 0;
    waitpid(pid, &st, 0);
    Result r;
    if (WIFSIGNALED(st)) {
        r.crashed = true;
        r.sig = WTERMSIG(st);
    } else if (WEXITSTATUS(st) != 0) {
        r.crashed = true;
        r.sig = -WEXITSTATUS(st);
    }
    std::istringstream is(buf);
    std::string line;
    while (std::getline(is, line)) {
        if (line.rfind("END ", 0) == 0) r.end = line.substr(4);
        else if (line.rfind("PHASE ", 0) == 0) r.phase = line.substr(6);
        else if (line.rfind("STATUS ", 0) == 0) r.status = line.substr(7);
        else if (line.rfind("THREADS ", 0) == 0) r.threads = atoi(line.c_str() + 8);
        else if (line.rfind("TIMERFIN ", 0) == 0) r.timerFin = line.substr(9);
        else if (line.rfind("OUT ", 0) == 0) r.out = line.substr(4);
        else if (line.rfind("TRACE ", 0) == 0) r.trace = line.substr(6);
    }
    // parse trace
    std::istringstream ts(r.trace);
    std::string item;
    while (std::getline(ts, item, ';')) {
        if (item.empty()) continue;
        std::vector<std::string> f;
        std::istringstream fs(item);
        std::string x;
        while (std::getline(fs, x, ':')) f.push_back(x);
        if (f.size() < 6) continue;
        sched::PointRec p;
        p.tid = atoi(f[0].c_str());
        p.what = strdup(f[1].c_str());
        p.nAlts = atoi(f[2].c_str());
        p.nThreadAlts = atoi(f[3].c_str());
        p.curEnabled = f[4] == "1";
        p.choice = atoi(f[5].c_str());
        r.points.push_back(p);
    }
    return r;
}

static std::string choicesStr(const std::vector<int>& c) {
    std::string s;
    for (size_t i = 0; i < c.size(); ++i) s += (i ? "," : "") + std::to_string(c[i]);
    return s;
}

int main(int argc, char** argv) {
    signal(SIGPIPE, SIG_IGN);
    if (argc < 4) {
        fprintf(stderr, "usage: gcthread_mc explore <file> <P> <T> [max] | replay <file> <choices>\n");
        return 2;
    }
    std::string cmd = argv[1];
    std::ifstream in(argv[2]);
    std::string src((std::istreambuf_iterator<char>(in)), std::istreambuf_iterator<char>());
    Lexer lx(src);
    Parser ps(lx.tokenize());
    auto prog = ps.parse();
    {
        SemanticAnalyser an;
        an.analyse(*prog);
    }
    if (cmd == "replay") {
        std::vector<int> pre;
        std::istringstream is(argv[3]);
        std::string t;
        while (std::getline(is, t, ',')) if (!t.empty()) pre.push_back(atoi(t.c_str()));
        Result r = runSchedule(*prog, pre);
        printf("end=%s phase=%s status=%s threads=%d timerFinished=%s crashed=%d sig=%d out=%s\n", r.end.c_str(), r.phase.c_str(), r.status.c_str(), r.threads, r.timerFin.c_str(), r.crashed, r.sig,
               r.out.c_str());
        for (size_t i = 0; i < r.points.size(); ++i)
            printf("  #%zu t%d %-20s alts=%d(threads %d) curEnabled=%d choice=%d\n", i, r.points[i].tid, r.points[i].what, r.points[i].nAlts, r.points[i].nThreadAlts, r.points[i].curEnabled, r.points[i].choice);
        return 0;
    }
    int P = atoi(argv[3]), T = atoi(argv[4]);
    long maxSchedules = argc > 5 ? atol(argv[5]) : 200000;
    // reference: the default schedule
    Result ref = runSchedule(*prog, {});
    // determinism check: the same prefix twice gives the same trace
    Result ref2 = runSchedule(*prog, {});
    bool deterministic = ref.trace == ref2.trace && ref.out == ref2.out;
    struct Item {
        std::vector<int> prefix;
    };
    std::vector<Item> stack{{{}}};
    long schedules = 0, points = 0;
    std::set<std::string> outcomes;
    std::map<std::string, std::pair<std::string, long>> viol;  // key -> (choices, count)
    std::map<int, long> perBound;
    bool capped = false;
    std::string sample;
    size_t maxPoints = 0;
    while (!stack.empty()) {
        Item it = std::move(stack.back());
        stack.pop_back();
        if (schedules >= maxSchedules) {
            capped = true;
            break;
        }
        Result r = it.prefix.empty() ? ref : runSchedule(*prog, it.prefix);
        ++schedules;
        points += (long)r.points.size();
        maxPoints = std::max(maxPoints, r.points.size());
        std::vector<int> choices;
        for (auto& p : r.points) choices.push_back(p.choice);
        // replayed prefix must be reproduced
        for (size_t i = 0; i < it.prefix.size() && i < choices.size(); ++i)
            if (choices[i] != it.prefix[i]) viol["harness:prefix-diverged"] = {choicesStr(it.prefix), 1};
        std::string oc = r.end + "|" + r.status + "|" + r.out;
        outcomes.insert(oc);
        auto bad = [&](const std::string& key) {
            auto& v = viol[key];
            if (v.second == 0) v.first = choicesStr(choices);
            v.second++;
        };
        if (r.crashed) bad("crash:signal " + std::to_string(r.sig) + " in phase " + r.phase);
        else if (r.end == "deadlock") bad("deadlock in phase " + r.phase);
        else if (r.end == "overrun") bad("livelock: more than 20000 scheduling points");
        else if (r.end == "timer-alive-after-destructor") bad("the timer thread is still running after the evaluator was destroyed");
        else if (r.end == "timer-alive-after-run") bad("the timer thread is still running after execute() ended (status " + r.status + "), before the evaluator is destroyed");
        else if (r.end != "done") bad("execution ended abnormally: '" + r.end + "' in phase " + r.phase);
        else {
            if (r.status != ref.status) bad("status " + r.status + " differs from the sequential run's " + ref.status);
            if (r.out != ref.out) bad("output " + r.out + " differs from the sequential run's " + ref.out);
        }
        if (sample.empty() && it.prefix.size() > 3) sample = choicesStr(choices);
        // count deviations used so far
        int preempt = 0, timeouts = 0;
        std::vector<int> preAt(r.points.size() + 1, 0), toAt(r.points.size() + 1, 0);
        for (size_t i = 0; i < r.points.size(); ++i) {
            preAt[i] = preempt;
            toAt[i] = timeouts;
            auto& p = r.points[i];
            if (p.choice >= p.nThreadAlts && p.nThreadAlts > 0) ++timeouts;     // a time-out taken although a thread could run
            else if (p.choice != 0 && p.curEnabled) ++preempt;
        }
        perBound[preempt * 10 + timeouts]++;
        for (size_t i = it.prefix.size(); i < r.points.size(); ++i) {
            auto& p = r.points[i];
            for (int alt = 1; alt < p.nAlts; ++alt) {
                int pc = preAt[i], tc = toAt[i];
                if (alt >= p.nThreadAlts) {
                    if (p.nThreadAlts > 0) ++tc;   // free when nothing else can run
                } else if (p.curEnabled) {
                    ++pc;
                }
                if (pc > P || tc > T) continue;
                Item nx;
                nx.prefix.assign(choices.begin(), choices.begin() + (long)i);
                nx.prefix.push_back(alt);
                stack.push_back(std::move(nx));
            }
        }
    }
    printf("{\"program\":%s,\"P\":%d,\"T\":%d,\"schedules\":%ld,\"points\":%ld,\"max_points\":%zu,\"capped\":%s,\"deterministic\":%s,\"distinct_outcomes\":%zu,\"ref\":%s,\"sample\":%s,\"threads\":%d,\"violations\":[",
           jstr(argv[2]).c_str(), P, T, schedules, points, maxPoints, capped ? "true" : "false", deterministic ? "true" : "false", outcomes.size(), jstr(ref.end + "|" + ref.status + "|" + ref.out).c_str(),
           jstr(sample).c_str(), ref.threads);
    bool first = true;
    for (auto& kv : viol) {
        printf("%s{\"key\":%s,\"choices\":%s,\"count\":%ld}", first ? "" : ",", jstr(kv.first).c_str(), jstr(kv.second.first).c_str(), kv.second.second);
        first = false;
    }
    printf("]}\n");
    return 0;
}
