// gcthread_free: free-running pass with the REAL timer thread (no scheduler, no hooks installed), meant for the tsan and asan
// variants: any sanitizer report makes the process exit non-zero. Runs each program given on the command line (file paths):
//   - the evaluator is created, executes, and is destroyed while the 50 ms timer is live;
//   - after destruction the process lingers 130 ms, so a timer thread that outlived its evaluator touches freed memory;
//   - prints one JSON line per program with what happened.
#include <chrono>
#include <fstream>
#include <iostream>
#include <sstream>
#include <thread>

#include "bloch/compiler/lexer/lexer.hpp"
#include "bloch/compiler/parser/parser.hpp"
#include "bloch/compiler/semantics/semantic_analyser.hpp"
#include "bloch/runtime/runtime_evaluator.hpp"
#include "vutil.hpp"

using namespace bloch::compiler;
using namespace bloch::runtime;

extern "C" const char* __tsan_default_options() { return "halt_on_error=1:exitcode=66:second_deadlock_stack=1:report_signal_unsafe=0"; }
extern "C" const char* __asan_default_options() { return "detect_leaks=0:halt_on_error=1:exitcode=77"; }

int main(int argc, char** argv) {
    for (int i = 1; i < argc; ++i) {
        std::ifstream in(argv[i]);
        std::string src((std::istreambuf_iterator<char>(in)), std::istreambuf_iterator<char>());
        std::ostringstream out;
        auto* oldOut = std::cout.rdbuf(out.rdbuf());
        std::ostringstream err;
        auto* oldErr = std::cerr.rdbuf(err.rdbuf());
        std::string status = "ok", msg;
        bool started = false, joinableAfter = false;
        auto t0 = std::chrono::steady_clock::now();
        try {
            Lexer lx(src);
            Parser ps(lx.tokenize());
            auto prog = ps.parse();
            SemanticAnalyser an;
            an.analyse(*prog);
            {
                RuntimeEvaluator ev;
                try {
                    ev.execute(*prog);
                } catch (const std::exception& e) {
                    status = "runtime";
                    msg = e.what();
                }
                started = ev.gcThreadStartedForTest();
                joinableAfter = ev.m_gcThread.joinable();
            }
        } catch (const std::exception& e) {
            status = "frontend";
            msg = e.what();
        }
        double ms = std::chrono::duration<double, std::milli>(std::chrono::steady_clock::now() - t0).count();
        std::this_thread::sleep_for(std::chrono::milliseconds(130));
        std::cout.rdbuf(oldOut);
        std::cerr.rdbuf(oldErr);
        printf("{\"file\":%s,\"status\":%s,\"stdout\":%s,\"timer_started\":%s,\"joinable_after_execute\":%s,\"ms\":%.1f}\n", vutil::jstr(argv[i]).c_str(), vutil::jstr(status).c_str(),
               vutil::jstr(out.str()).c_str(), started ? "true" : "false", joinableAfter ? "true" : "false", ms);
        fflush(stdout);
    }
    return 0;
}
