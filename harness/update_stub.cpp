// Two-function stand-in for bloch::update so that cli.cpp links without httplib/OpenSSL.
#include <string>
namespace bloch::update {
    void checkForUpdatesIfDue(const std::string&) {}
    bool performSelfUpdate(const std::string&, const std::string&) { return false; }
}
