// upd_mc: the real update_manager.cpp compiled into this TU (scripted HTTP stub, fake wall clock, scratch cache dir).
//   upd_mc pairs            every ordered pair of the version alphabet through parse/compare/notice/self-update
//   upd_mc checksum         every small checksums.txt through parseChecksum and through performSelfUpdate's gate
//   upd_mc history <D>      BFS over invocation histories of checkForUpdatesIfDue (state = cache file + clock)
#include <fcntl.h>
#include <linux/fs.h>
#include <sys/ioctl.h>
#include <sys/stat.h>
#include <unistd.h>

#include <chrono>
#include <cstdint>

static int64_t g_fakeNowSec = 1700000000;  // seconds since epoch reported by system_clock::now()
namespace std::chrono {
    inline namespace _V2 {
        system_clock::time_point system_clock::now() noexcept {
            return time_point(duration_cast<duration>(seconds(g_fakeNowSec)));
        }
    }
}

#include "bloch/update/update_manager.cpp"  // NOLINT: file-local helpers become callable here

#include <algorithm>
#include <deque>
#include <map>
#include <set>

#include "vutil.hpp"

using namespace bloch::update;
using vutil::jstr;

extern "C" const char* __asan_default_options() { return "detect_leaks=0:halt_on_error=1:exitcode=77"; }

struct Cap {
    std::ostringstream out, err;
    std::istringstream in;
    std::streambuf *o, *e, *i;
    explicit Cap(const std::string& input = "y\n") : in(input) {
        o = std::cout.rdbuf(out.rdbuf());
        e = std::cerr.rdbuf(err.rdbuf());
        i = std::cin.rdbuf(in.rdbuf());
    }
    ~Cap() {
        std::cout.rdbuf(o);
        std::cerr.rdbuf(e);
        std::cin.rdbuf(i);
        std::cin.clear();
    }
};

struct Viol {
    std::string key, what, caseStr;
};
static std::vector<Viol> g_viol;
static std::map<std::string, long> g_count;
static void violation(const std::string& key, const std::string& what, const std::string& c) {
    if (++g_count[key] == 1) g_viol.push_back({key, what, c});
}
static void printViolations() {
    printf("\"violations\":[");
    for (size_t i = 0; i < g_viol.size(); ++i)
        printf("%s{\"key\":%s,\"what\":%s,\"case\":%s,\"count\":%ld}", i ? "," : "", jstr(g_viol[i].key).c_str(), jstr(g_viol[i].what).c_str(), jstr(g_viol[i].caseStr).c_str(),
               g_count[g_viol[i].key]);
    printf("]}\n");
}

// ---- reference version semantics: optional 'v', digits, up to two more ".digits" groups, rest ignored; arbitrary precision --
struct RefVer {
    bool valid = false;
    std::string c[3] = {"0", "0", "0"};  // decimal strings without leading zeros
    bool fitsInt = true;
};
static std::string stripZeros(const std::string& s) {
    size_t i = 0;
    while (i + 1 < s.size() && s[i] == '0') ++i;
    return s.substr(i);
}
static RefVer refParse(const std::string& v0) {
    RefVer r;
    std::string v = v0;
    if (!v.empty() && v[0] == 'v') v.erase(0, 1);
    size_t pos = 0;
    for (int k = 0; k < 3; ++k) {
        size_t st = pos;
        while (pos < v.size() && isdigit((unsigned char)v[pos])) ++pos;
        if (pos == st) break;
        r.c[k] = stripZeros(v.substr(st, pos - st));
        r.valid = true;
        if (r.c[k].size() > 10 || (r.c[k].size() == 10 && r.c[k] > "2147483647")) r.fitsInt = false;
        if (pos >= v.size() || v[pos] != '.') break;
        ++pos;
    }
    return r;
}
static int cmpNum(const std::string& a, const std::string& b) {
    if (a.size() != b.size()) return a.size() < b.size() ? -1 : 1;
    return a < b ? -1 : (a > b ? 1 : 0);
}
// -1: a older than b, 0 equal, 1 newer
static int refCompare(const RefVer& a, const RefVer& b) {
    for (int k = 0; k < 3; ++k) {
        int c = cmpNum(a.c[k], b.c[k]);
        if (c) return c;
    }
    return 0;
}

static std::vector<std::string> versionAlphabet(bool small) {
    std::set<std::string> out;
    if (small) {
        for (const char* pre : {"", "v"})
            for (const char* a : {"0", "1", "2", "10"}) {
                for (const char* s : {"", "-rc1"}) out.insert(std::string(pre) + a + s);
                for (const char* b : {"0", "1", "10"}) {
                    out.insert(std::string(pre) + a + "." + b);
                    for (const char* c : {"0", "2"}) out.insert(std::string(pre) + a + "." + b + "." + c);
                }
            }
        return std::vector<std::string>(out.begin(), out.end());
    }
    std::vector<std::string> comps = {"0", "1", "2", "9", "10", "2147483647", "2147483648", "99999999999999999999"};
    for (const char* pre : {"", "v"})
        for (auto& a : comps) {
            for (const char* s : {"", "-rc1", "+b", ".", "x"}) out.insert(std::string(pre) + a + s);
            for (const char* b : {"0", "1", "10", "2147483648"})
                for (const char* s : {"", "-rc1"}) out.insert(std::string(pre) + a + "." + b + s);
            for (const char* b : {"0", "1", "10"})
                for (const char* c : {"0", "1", "10", "2147483648"}) {
                    out.insert(std::string(pre) + a + "." + b + "." + c);
                    if (!*pre) out.insert(a + "." + b + "." + c + "-rc1");
                }
        }
    // large (but representable) minor/patch components: a comparison that packs or truncates components shows here
    for (const char* a : {"0", "1", "2", "10"})
        for (const char* b : {"0", "1", "999", "1000", "1001", "65536", "2147483647"})
            for (const char* c : {"0", "1", "999", "1000", "1001", "65536", "2147483647"}) out.insert(std::string(a) + "." + b + "." + c);
    // leading zeros and radix prefixes: components are decimal whatever they start with ("010" is ten, "08" is eight, "0x10" is 0 followed
    // by an ignored suffix); a parser that lets the C library guess the base reads them as octal / hex
    for (const char* pre : {"", "v"})
        for (const char* z : {"010", "08", "09", "0010", "00", "0x10", "0X1F", "0b1", "007"}) {
            out.insert(std::string(pre) + z);
            out.insert(std::string(pre) + z + ".1");
            out.insert(std::string(pre) + "1." + z);
            out.insert(std::string(pre) + "1." + z + ".0");
            out.insert(std::string(pre) + "1.0." + z);
            out.insert(std::string(pre) + z + "." + z + "." + z);
        }
    for (const char* g : {"", "v", "abc", ".1", "-1", "1..2", " 1", "v.", "vv1", "1.2.3.4", "01.002.0003", "dev", "unknown", "1.-2", "+1", "nightly", "latest"}) out.insert(g);
    return std::vector<std::string>(out.begin(), out.end());
}

static std::string g_scratch;
static void setupScratch() {
    g_scratch = "/dev/shm/verif_upd_" + std::to_string(getpid());
    std::filesystem::create_directories(g_scratch);
    setenv("XDG_CACHE_HOME", (g_scratch + "/cache").c_str(), 1);
    setenv("HOME", (g_scratch + "/home").c_str(), 1);
    setenv("XDG_DATA_HOME", (g_scratch + "/data").c_str(), 1);
    setenv("TMPDIR", (g_scratch + "/tmp").c_str(), 1);
    std::filesystem::create_directories(g_scratch + "/tmp");
    unsetenv("BLOCH_NO_UPDATE_CHECK");
    unsetenv("CI");
    unsetenv("BLOCH_OFFLINE");
    unsetenv("BLOCH_STDLIB_PATH");
}
static void cleanupScratch() {
    std::error_code ec;
    std::filesystem::remove_all(g_scratch, ec);
}

// ---------------------------------------------------------------------------------------------------------------------
static void runPairs() {
    auto V = versionAlphabet(false);
    long pairs = 0, announced = 0, installs = 0, already = 0, parseThrows = 0, refused = 0;
    std::set<std::string> outcomes;
    // parse totality first
    std::map<std::string, SemVer> parsed;
    std::map<std::string, bool> parseOk;
    for (auto& v : V) {
        try {
            parsed[v] = parseSemVer(v);
            parseOk[v] = true;
            RefVer r = refParse(v);
            if (parsed[v].valid && !r.valid) violation("parse:accepts-garbage", "parseSemVer accepts a string the reference cannot parse", v);
            if (r.valid && r.fitsInt && parsed[v].valid) {
                if (std::to_string(parsed[v].major) != r.c[0] || std::to_string(parsed[v].minor) != r.c[1] || std::to_string(parsed[v].patch) != r.c[2])
                    violation("parse:components", "parseSemVer gives (" + std::to_string(parsed[v].major) + "," + std::to_string(parsed[v].minor) + "," + std::to_string(parsed[v].patch) +
                                                      ") but the triple is (" + r.c[0] + "," + r.c[1] + "," + r.c[2] + ")", v);
            }
            if (r.valid && r.fitsInt && !parsed[v].valid) violation("parse:rejects-valid", "parseSemVer rejects a well-formed version", v);
        } catch (const std::exception& e) {
            parseOk[v] = false;
            ++parseThrows;
            violation("parse:throws", std::string("parseSemVer throws ") + e.what(), v);
        }
    }
    for (auto& cur : V) {
        for (auto& lat : V) {
            ++pairs;
            RefVer rc = refParse(cur), rl = refParse(lat);
            bool bothRef = rc.valid && rl.valid;
            bool newer = bothRef && refCompare(rl, rc) > 0;
            std::string cs = "current=" + jstr(cur) + " latest=" + jstr(lat);
            // (1) notice path
            {
                UpdateCache cache = emptyCache();
                bool printed = false, threw = false;
                std::string text;
                {
                    Cap cap;
                    try {
                        // decision and text are separate functions since the notice is recorded before it is printed
                        printed = noticeDue(lat, cur, Clock::now(), cache);
                        if (printed) printNotice(lat, cur);
                    } catch (const std::exception& e) {
                        threw = true;
                        text = e.what();
                    }
                    if (!threw) text = cap.out.str();
                }
                if (threw)
                    violation("notice:throws", "noticeDue/printNotice throws " + text, cs);
                else {
                    if (printed != !text.empty()) violation("notice:return-vs-output", "return value and printed text disagree", cs);
                    if (printed) ++announced;
                    if (printed && !newer)
                        violation(std::string("notice:not-newer:") + (bothRef ? (refCompare(rl, rc) == 0 ? "equal" : "older") : "unparseable"),
                                  "a notice was printed although the latest version is not a parseable, strictly newer release: " + text, cs);
                    if (!printed && newer && rc.fitsInt && rl.fitsInt) violation("notice:missed", "no notice although the latest version is strictly newer", cs);
                    outcomes.insert(std::string("notice:") + (printed ? "1" : "0") + (bothRef ? (newer ? ">" : "<=") : "?"));
                }
            }
            // (2) self update path: tag scripted, every download answers 404
            {
                httplib::stubLog.clear();
                httplib::stubScript = [&](const httplib::StubRequest& rq) {
                    if (rq.host == "api.github.com") return httplib::StubReply{true, 200, "{\"tag_name\": \"" + lat + "\", \"x\": 1}"};
                    return httplib::StubReply{true, 404, ""};
                };
                bool ret = false, threw = false;
                std::string out, err, what;
                {
                    Cap cap("y\n");
                    try {
                        ret = performSelfUpdate(cur, "bloch");
                    } catch (const std::exception& e) {
                        threw = true;
                        what = e.what();
                    }
                    out = cap.out.str();
                    err = cap.err.str();
                }
                bool tagHasQuote = lat.find('"') != std::string::npos;
                (void)tagHasQuote;
                bool downloadRequested = false;
                for (auto& rq : httplib::stubLog)
                    if (rq.host == "github.com") downloadRequested = true;
                bool saysLatest = out.find("already have the latest") != std::string::npos;
                if (threw)
                    violation("selfupdate:throws", "performSelfUpdate throws " + what, cs);
                else {
                    if (downloadRequested) ++installs;
                    if (saysLatest) ++already;
                    if (downloadRequested && !newer) {
                        // a component beyond int range may legitimately be treated as unparseable by the implementation
                        std::string cls = (!rl.valid || !rl.fitsInt) ? "latest-unparseable" : ((!rc.valid || !rc.fitsInt) ? "current-unparseable" : (refCompare(rl, rc) == 0 ? "equal" : "older"));
                        violation("selfupdate:acts:" + cls, "a download of release '" + lat + "' was requested although it is not a parseable, strictly newer release than '" + cur + "'", cs);
                    }
                    if (bothRef && !newer && rc.fitsInt && rl.fitsInt && !saysLatest)
                        violation("selfupdate:not-already-latest", "running version is not older than the release but 'already latest' was not reported: " + out + err, cs);
                    if (saysLatest && newer) violation("selfupdate:missed", "'already latest' reported although the release is strictly newer", cs);
                    if (newer && rc.fitsInt && rl.fitsInt && !downloadRequested) violation("selfupdate:no-download", "strictly newer release but no download was attempted: " + out + err, cs);
                    if (!downloadRequested && !saysLatest) ++refused;
                    outcomes.insert(std::string("update:") + (downloadRequested ? "D" : "-") + (saysLatest ? "L" : "-") + (bothRef ? (newer ? ">" : "<=") : "?"));
                }
            }
        }
    }
    // antisymmetry / transitivity of the implemented comparison on everything it accepts (reduced alphabet for triples)
    auto W = versionAlphabet(true);
    long triples = 0;
    std::vector<std::pair<std::string, SemVer>> acc;
    for (auto& v : W) {
        try {
            SemVer s = parseSemVer(v);
            if (s.valid) acc.push_back({v, s});
        } catch (...) {
        }
    }
    for (auto& a : acc)
        for (auto& b : acc) {
            int ab = compareSemVer(a.second, b.second), ba = compareSemVer(b.second, a.second);
            if (ab != -ba) violation("order:antisymmetry", "compare(a,b) != -compare(b,a)", a.first + " vs " + b.first);
            RefVer ra = refParse(a.first), rb = refParse(b.first);
            if (ra.fitsInt && rb.fitsInt) {
                int want = -refCompare(ra, rb);  // compareSemVer(current, latest) < 0 iff current older
                want = refCompare(ra, rb);
                if ((ab < 0) != (want < 0) || (ab > 0) != (want > 0)) violation("order:numeric", "compareSemVer disagrees with numeric triple order", a.first + " vs " + b.first);
            }
            for (auto& c : acc) {
                ++triples;
                int bc = compareSemVer(b.second, c.second), ac = compareSemVer(a.second, c.second);
                if (ab <= 0 && bc <= 0 && ac > 0) violation("order:transitivity", "a<=b, b<=c but a>c", a.first + ", " + b.first + ", " + c.first);
            }
        }
    printf("{\"mode\":\"pairs\",\"alphabet\":%zu,\"pairs\":%ld,\"triples\":%ld,\"announced\":%ld,\"downloads\":%ld,\"already_latest\":%ld,\"refused\":%ld,\"parse_throws\":%ld,\"outcome_classes\":%zu,"
           "\"samples\":[%s,%s,%s],",
           V.size(), pairs, triples, announced, installs, already, refused, parseThrows, outcomes.size(), jstr(V[7]).c_str(), jstr(V[V.size() / 2]).c_str(), jstr(V[V.size() - 5]).c_str());
    printViolations();
}

// ---------------------------------------------------------------------------------------------------------------------
static void runChecksum() {
    const std::string asset = "bloch-v1.2.3-Linux-X64.tar.gz";
    struct Line {
        std::string name;  // file name field; "" = comment line
        std::string hash;
    };
    std::vector<Line> pool = {
        {asset, "aaaa1111"},
        {asset + ".sig", "bbbb2222"},
        {"x" + asset, "cccc3333"},
        {"bloch-v1.2.3-Linux-ARM64.tar.gz", "dddd4444"},
        {"old/" + asset, "eeee5555"},
        {"bloch-v1.2.3-Linux-X64.tar.gz.sha256", "ffff6666"},
    };
    std::vector<std::string> seps = {"  ", " *", "\t"};
    long files = 0, found = 0, none = 0;
    std::set<std::string> outcomes;
    // every ordered selection of <= 4 distinct lines, every separator (same for all lines) and with/without trailing newline
    std::vector<int> idx;
    std::function<void()> rec = [&]() {
        for (auto& sep : seps) {
            for (int trailing = 0; trailing < 2; ++trailing) {
                std::string content;
                std::string expected;
                bool have = false;
                for (size_t k = 0; k < idx.size(); ++k) {
                    auto& ln = pool[idx[k]];
                    content += ln.hash + sep + ln.name;
                    if (k + 1 < idx.size() || trailing) content += "\n";
                    if (!have && ln.name == asset) {
                        expected = ln.hash;
                        have = true;
                    }
                }
                ++files;
                std::optional<std::string> got;
                try {
                    got = parseChecksum(content, asset);
                } catch (const std::exception& e) {
                    violation("checksum:throws", e.what(), content);
                    continue;
                }
                std::string names;
                for (int i : idx) names += std::to_string(i);
                if (have) {
                    ++found;
                    if (!got || *got != expected)
                        violation("checksum:wrong-line:" + std::string(got ? "other" : "none"), "checksum for " + asset + " should be " + expected + " but parseChecksum returned " + (got ? *got : "nothing"), content);
                } else {
                    ++none;
                    if (got) violation("checksum:phantom", "no line names " + asset + " exactly, yet parseChecksum returned " + *got, content);
                }
                outcomes.insert(std::string(have ? "H" : "N") + (got ? *got : "-"));
            }
        }
        if (idx.size() >= 4) return;
        for (int i = 0; i < (int)pool.size(); ++i) {
            if (std::find(idx.begin(), idx.end(), i) != idx.end()) continue;
            idx.push_back(i);
            rec();
            idx.pop_back();
        }
    };
    rec();
    // the gate inside performSelfUpdate: real sha256 of the downloaded bytes vs the listed line
    const std::string body = "not really a tarball";
    const std::string sha = "d0c9b3ea3cdd2f3c9d7a8bb8b6d0b0e5";  // deliberately wrong; the right one is computed below
    std::string realHash;
    {
        std::string p = g_scratch + "/probe.bin", e;
        std::ofstream(p, std::ios::binary) << body;
        realHash = sha256File(p, e);
    }
    long gates = 0;
    auto gate = [&](const std::string& checksums, bool expectMismatch, const std::string& label) {
        ++gates;
        httplib::stubLog.clear();
        httplib::stubScript = [&](const httplib::StubRequest& rq) {
            if (rq.host == "api.github.com") return httplib::StubReply{true, 200, "{\"tag_name\": \"v1.2.3\"}"};
            if (rq.path.find("checksums.txt") != std::string::npos) return httplib::StubReply{true, 200, checksums};
            return httplib::StubReply{true, 200, body};
        };
        std::string out, err;
        {
            Cap cap("y\n");
            try {
                performSelfUpdate("1.0.0", "bloch");
            } catch (const std::exception& e) {
                violation("gate:throws", e.what(), label);
            }
            out = cap.out.str();
            err = cap.err.str();
        }
        bool mismatch = err.find("Checksum mismatch") != std::string::npos;
        bool extracted = err.find("Failed to extract archive") != std::string::npos || out.find("updated to") != std::string::npos;
        if (expectMismatch && !mismatch) violation("gate:accepted-bad", "download with a wrong checksum was not rejected (" + label + "): " + err, checksums);
        if (!expectMismatch && mismatch) violation("gate:rejected-good", "download whose listed checksum matches was rejected (" + label + ")", checksums);
        if (!expectMismatch && !extracted) violation("gate:stopped", "matching checksum but the update did not proceed to extraction (" + label + "): " + err, checksums);
    };
    gate(realHash + "  " + asset + "\n", false, "exact line, right hash");
    gate(sha + "  " + asset + "\n", true, "exact line, wrong hash");
    gate(sha + "  " + asset + ".sig\n" + realHash + "  " + asset + "\n", false, ".sig line first with another hash");
    gate(realHash + "  " + asset + ".sig\n" + sha + "  " + asset + "\n", true, ".sig line carries the right hash, asset line a wrong one");
    gate(sha + "  x" + asset + "\n" + realHash + "  " + asset + "\n", false, "prefixed name first");
    gate(realHash + " *" + asset + "\n", false, "binary-mode marker");
    printf("{\"mode\":\"checksum\",\"files\":%ld,\"with_entry\":%ld,\"without_entry\":%ld,\"gate_runs\":%ld,\"outcome_classes\":%zu,\"samples\":[%s],", files, found, none, gates, outcomes.size(),
           jstr("aaaa1111  " + asset + "\\nbbbb2222  " + asset + ".sig").c_str());
    printViolations();
}

// ---------------------------------------------------------------------------------------------------------------------
struct Event {
    int64_t dt;
    int fetch;  // 0 fails, 1 same, 2 newer, 3 older, 4 garbage, 5 newer2
    int env;    // 0 none, 1 BLOCH_NO_UPDATE_CHECK, 2 CI, 3 BLOCH_OFFLINE
    int lock;   // 1: the cache file exists but cannot be written during this invocation (immutable flag; what a root-owned cache is to a user)
    std::string str() const {
        static const char* F[] = {"fetch-fails", "same", "newer", "older", "garbage", "newer2"};
        static const char* E[] = {"", " env=BLOCH_NO_UPDATE_CHECK", " env=CI", " env=BLOCH_OFFLINE"};
        return "+" + std::to_string(dt) + "s " + F[fetch] + E[env] + (lock ? " cache-read-only" : "");
    }
};
// make the cache file unwritable even for root; returns false where the file system or the sandbox does not allow it
static bool setImmutable(const std::filesystem::path& p, bool on) {
    int fd = open(p.c_str(), O_RDONLY);
    if (fd < 0) return false;
    int fl = 0;
    bool ok = ioctl(fd, FS_IOC_GETFLAGS, &fl) == 0;
    if (ok) {
        if (on) fl |= FS_IMMUTABLE_FL; else fl &= ~FS_IMMUTABLE_FL;
        ok = ioctl(fd, FS_IOC_SETFLAGS, &fl) == 0;
    }
    close(fd);
    return ok;
}
static const std::string CURRENT = "1.2.3";
static std::string tagFor(int f) {
    switch (f) {
        case 1: return "v1.2.3";
        case 2: return "v1.3.0";
        case 3: return "v1.2.2";
        case 4: return "nightly";
        case 5: return "v2.0.0";
        default: return "";
    }
}
static std::string readCacheFile() {
    std::ifstream in(cacheFilePath());
    if (!in) return "<none>";
    return std::string((std::istreambuf_iterator<char>(in)), std::istreambuf_iterator<char>());
}
static void writeCacheFile(const std::string& c) {
    std::error_code ec;
    if (c == "<none>") {
        std::filesystem::remove(cacheFilePath(), ec);
        return;
    }
    std::filesystem::create_directories(cacheFilePath().parent_path(), ec);
    std::ofstream(cacheFilePath(), std::ios::trunc) << c;
}

struct HState {
    std::string cache;
    int64_t now;
    int64_t lastNotice;  // time of the last printed notice (-1 = never)
    std::vector<Event> hist;
};

static void runHistory(int D) {
    const int64_t H = 3600;
    std::vector<int64_t> dts = {0, H, 72 * H - 1, 72 * H, 100 * H};
    std::set<std::string> seen;
    std::deque<HState> q;
    HState init{"<none>", 1700000000, -1, {}};
    q.push_back(init);
    seen.insert(init.cache + "|-1");
    long transitions = 0, notices = 0, fetches = 0, lockedRuns = 0;
    bool lockSupported = true;
    int maxDepth = 0;
    std::set<std::string> outcomes;
    while (!q.empty()) {
        HState s = q.front();
        q.pop_front();
        maxDepth = std::max(maxDepth, (int)s.hist.size());
        if ((int)s.hist.size() >= D) continue;
        for (int64_t dt : dts)
            for (int fetch = 0; fetch < 6; ++fetch)
                for (int envlock = 0; envlock < 5; ++envlock) {
                    int env = envlock < 4 ? envlock : 0, lock = envlock == 4 ? 1 : 0;
                    if (env != 0 && !(fetch == 2)) continue;  // disabling variables: only with the most tempting fetch
                    if (lock && (s.cache == "<none>" || !lockSupported)) continue;
                    Event ev{dt, fetch, env, lock};
                    ++transitions;
                    writeCacheFile(s.cache);
                    if (lock && !setImmutable(cacheFilePath(), true)) {
                        lockSupported = false;
                        --transitions;
                        continue;
                    }
                    lockedRuns += lock;
                    g_fakeNowSec = s.now + dt;
                    unsetenv("BLOCH_NO_UPDATE_CHECK");
                    unsetenv("CI");
                    unsetenv("BLOCH_OFFLINE");
                    if (env == 1) setenv("BLOCH_NO_UPDATE_CHECK", "1", 1);
                    if (env == 2) setenv("CI", "true", 1);
                    if (env == 3) setenv("BLOCH_OFFLINE", "1", 1);
                    httplib::stubLog.clear();
                    httplib::stubScript = [&](const httplib::StubRequest&) {
                        if (fetch == 0) return httplib::StubReply{false, 0, ""};
                        return httplib::StubReply{true, 200, "{\"tag_name\":\"" + tagFor(fetch) + "\"}"};
                    };
                    std::string out, what;
                    bool threw = false;
                    {
                        Cap cap;
                        try {
                            checkForUpdatesIfDue(CURRENT);
                        } catch (const std::exception& e) {
                            threw = true;
                            what = e.what();
                        }
                        out = cap.out.str();
                    }
                    if (lock) setImmutable(cacheFilePath(), false);
                    std::vector<Event> h2 = s.hist;
                    h2.push_back(ev);
                    std::string hs;
                    for (auto& e : h2) hs += e.str() + "; ";
                    if (threw) {
                        violation("history:throws", "checkForUpdatesIfDue throws " + what, hs);
                        continue;
                    }
                    fetches += (long)httplib::stubLog.size();
                    size_t nNotices = 0;
                    for (size_t p = out.find("There is a new"); p != std::string::npos; p = out.find("There is a new", p + 1)) ++nNotices;
                    notices += (long)nNotices;
                    int64_t now = s.now + dt;
                    int64_t last = s.lastNotice;
                    if (nNotices > 1) violation("history:double-notice", "one invocation printed " + std::to_string(nNotices) + " notices", hs);
                    if (nNotices >= 1) {
                        if (env != 0) violation("history:notice-when-disabled", "a notice was printed although update checks are disabled by environment", hs);
                        if (last >= 0 && now - last < 72 * H) violation("history:notice-too-soon", "two notices " + std::to_string(now - last) + " s apart (< 72 h)", hs);
                        // which version did it announce?
                        bool strictly = false;
                        for (int f : {2, 5})
                            if (out.find(tagFor(f)) != std::string::npos) strictly = true;
                        if (!strictly) violation("history:notice-not-newer", "notice announces a version that is not strictly newer: " + out, hs);
                        last = now;
                    }
                    if (env != 0 && !httplib::stubLog.empty()) violation("history:fetch-when-disabled", "network was contacted although update checks are disabled", hs);
                    std::string cacheAfter = readCacheFile();
                    if (env != 0 && cacheAfter != s.cache) violation("history:cache-when-disabled", "cache file changed although update checks are disabled", hs);
                    outcomes.insert(std::to_string(nNotices) + (httplib::stubLog.empty() ? "n" : "f") + std::to_string(env));
                    // canonical key: cache contents relative to now, and time since the last notice (capped)
                    std::string rel = cacheAfter;
                    {
                        std::istringstream is(cacheAfter);
                        std::string a, b, c;
                        if (std::getline(is, a) && std::getline(is, b)) {
                            std::getline(is, c);
                            auto relT = [&](const std::string& t) {
                                try {
                                    int64_t v = std::stoll(t);
                                    if (v == 0) return std::string("never");
                                    int64_t d = now - v;
                                    return d >= 72 * H ? std::string("old") : std::to_string(d);
                                } catch (...) {
                                    return t;
                                }
                            };
                            rel = relT(a) + "/" + b + "/" + relT(c);
                        }
                    }
                    int64_t sinceNotice = last < 0 ? -1 : std::min<int64_t>(now - last, 72 * H);
                    std::string key = rel + "|" + std::to_string(sinceNotice);
                    if (seen.insert(key).second) q.push_back(HState{cacheAfter, now, last, h2});
                }
    }
    unsetenv("BLOCH_NO_UPDATE_CHECK");
    unsetenv("CI");
    unsetenv("BLOCH_OFFLINE");
    printf("{\"mode\":\"history\",\"read_only_cache_runs\":%ld,\"read_only_cache_supported\":%s,\"depth\":%d,\"states\":%zu,\"transitions\":%ld,\"notices\":%ld,\"fetches\":%ld,\"max_depth\":%d,\"outcome_classes\":%zu,\"samples\":[%s],", lockedRuns, lockSupported ? "true" : "false", D, seen.size(), transitions,
           notices, fetches, maxDepth, outcomes.size(), jstr("+0s newer; +259199s same; +259200s newer2;").c_str());
    printViolations();
}

int main(int argc, char** argv) {
    std::string cmd = argc > 1 ? argv[1] : "";
    setupScratch();
    atexit(cleanupScratch);
    if (cmd == "pairs")
        runPairs();
    else if (cmd == "checksum")
        runChecksum();
    else if (cmd == "history")
        runHistory(argc > 2 ? atoi(argv[2]) : 3);
    else {
        fprintf(stderr, "usage: upd_mc pairs | checksum | history D\n");
        return 2;
    }
    return 0;
}
