// Cooperative, choice-driven scheduler for the C11(b) exploration. This translation unit is never instrumented.
// It defines (and thereby interposes, the executable is linked with -rdynamic) the pthread/clock functions that
// std::thread, std::mutex and std::condition_variable reach, and serialises all managed threads: exactly one holds the baton.
// Every interposed call and every BLOCH_VERIF_POINT is a scheduling point; the choice taken at point i is prefix[i] if given,
// else 0 (= keep running the current thread if it is enabled, else the lowest enabled thread id).
#include "sched.hpp"

#include <dlfcn.h>
#include <errno.h>
#include <linux/futex.h>
#include <pthread.h>
#include <string.h>
#include <sys/syscall.h>
#include <time.h>
#include <unistd.h>

#include <atomic>
#include <cstdio>
#include <cstdlib>

namespace {

enum State { RUNNABLE, BLOCKED_MUTEX, WAITING_CV, JOINING, FINISHED };

struct Thread {
    int id = 0;
    State state = RUNNABLE;
    const void* mutex = nullptr;   // for BLOCKED_MUTEX / the mutex to re-acquire after a cv wait
    const void* cv = nullptr;
    bool timed = false;
    long long deadline = 0;
    bool timedOut = false;
    int joinTarget = -1;
    std::atomic<int> go{0};
    pthread_t real{};
    void* (*fn)(void*) = nullptr;
    void* arg = nullptr;
    bool detached = false;
};

constexpr int MAXT = 8;
Thread g_threads[MAXT];
int g_nthreads = 0;
int g_current = -1;
bool g_managed = false;
long long g_now = 1000000000LL;  // fake CLOCK_MONOTONIC, ns

struct MutexRec {
    const void* addr;
    int owner;
};
MutexRec g_mutexes[64];
int g_nmutex = 0;

std::vector<int> g_prefix;
std::vector<sched::PointRec> g_trace;
bool g_deadlock = false;
bool g_overrun = false;
thread_local int t_self = -1;

void futexWait(std::atomic<int>* w) {
    while (w->load(std::memory_order_acquire) == 0) syscall(SYS_futex, (int*)w, FUTEX_WAIT, 0, nullptr, nullptr, 0);
    w->store(0, std::memory_order_release);
}
void futexWake(std::atomic<int>* w) {
    w->store(1, std::memory_order_release);
    syscall(SYS_futex, (int*)w, FUTEX_WAKE, 1, nullptr, nullptr, 0);
}

MutexRec* mutexRec(const void* m) {
    for (int i = 0; i < g_nmutex; ++i)
        if (g_mutexes[i].addr == m) return &g_mutexes[i];
    if (g_nmutex >= 64) abort();
    g_mutexes[g_nmutex] = {m, -1};
    return &g_mutexes[g_nmutex++];
}

bool enabled(const Thread& t) {
    switch (t.state) {
        case RUNNABLE: return true;
        case BLOCKED_MUTEX: return mutexRec(t.mutex)->owner < 0;
        case JOINING: return g_threads[t.joinTarget].state == FINISHED;
        default: return false;
    }
}

[[noreturn]] void finishExecution() {
    sched::onExecutionAborted();
    _exit(0);
}

// Decide who runs next and hand the baton over. 'selfContinues' = false when the caller cannot continue (finished).
void schedule(const char* what, const void* addr, bool selfFinished = false) {
    int self = g_current;
    // alternatives: threads first (current first), then time-outs of timed waiters
    int alts[2 * MAXT];
    bool isTimeout[2 * MAXT];
    int n = 0;
    bool curEnabled = !selfFinished && enabled(g_threads[self]);
    if (curEnabled) { alts[n] = self; isTimeout[n++] = false; }
    for (int i = 0; i < g_nthreads; ++i)
        if (i != self && enabled(g_threads[i])) { alts[n] = i; isTimeout[n++] = false; }
    int nThreadAlts = n;
    for (int i = 0; i < g_nthreads; ++i)
        if (g_threads[i].state == WAITING_CV && g_threads[i].timed) { alts[n] = i; isTimeout[n++] = true; }
    if (n == 0) {
        g_deadlock = true;
        finishExecution();
    }
    size_t idx = g_trace.size();
    int choice = idx < g_prefix.size() ? g_prefix[idx] : 0;
    if (choice < 0 || choice >= n) {
        fprintf(stderr, "sched: prefix choice %d out of range (%d alternatives) at point %zu\n", choice, n, idx);
        _exit(3);
    }
    sched::PointRec pr;
    pr.tid = self;
    pr.what = what;
    pr.nAlts = n;
    pr.nThreadAlts = nThreadAlts;
    pr.curEnabled = curEnabled;
    pr.choice = choice;
    g_trace.push_back(pr);
    if (g_trace.size() > 20000) {
        g_overrun = true;
        finishExecution();
    }
    (void)addr;
    int next = alts[choice];
    Thread& nt = g_threads[next];
    if (isTimeout[choice]) {
        // the timed wait of 'next' elapses: advance the fake clock past its deadline
        if (g_now <= nt.deadline) g_now = nt.deadline + 1;
        nt.timedOut = true;
        nt.state = BLOCKED_MUTEX;   // must re-acquire its mutex before returning from the wait
        nt.cv = nullptr;
        // it may not be able to run yet (mutex held): then simply re-schedule among the others
        if (!enabled(nt)) {
            schedule("after-timeout", nullptr, selfFinished);
            return;
        }
    }
    if (nt.state == BLOCKED_MUTEX) {
        mutexRec(nt.mutex)->owner = next;
        nt.state = RUNNABLE;
    } else if (nt.state == JOINING) {
        nt.state = RUNNABLE;
    }
    if (next == self) return;
    g_current = next;
    futexWake(&nt.go);
    if (selfFinished) return;
    futexWait(&g_threads[self].go);
}

struct StartArg {
    int id;
};

void* threadMain(void* p) {
    int id = ((StartArg*)p)->id;
    delete (StartArg*)p;
    t_self = id;
    Thread& t = g_threads[id];
    futexWait(&t.go);  // wait to be scheduled for the first time
    void* r = t.fn(t.arg);
    t.state = FINISHED;
    schedule("thread-exit", nullptr, true);
    return r;
}

template <class F>
F realFn(const char* name) {
    static_assert(sizeof(F) == sizeof(void*), "");
    void* p = dlsym(RTLD_NEXT, name);
    if (!p) {
        fprintf(stderr, "sched: dlsym(%s) failed\n", name);
        abort();
    }
    F f;
    memcpy(&f, &p, sizeof f);
    return f;
}

long long toNs(const struct timespec* ts) { return (long long)ts->tv_sec * 1000000000LL + ts->tv_nsec; }

bool isManagedCaller() { return g_managed && t_self >= 0 && t_self == g_current; }

int condWaitCommon(const void* cv, const void* m, bool timed, long long deadline) {
    // the caller evaluated its predicate and is about to wait: a preemption here (mutex still held) is the window in
    // which a notification can be lost
    schedule("cond-wait-enter", cv);
    Thread& t = g_threads[g_current];
    MutexRec* mr = mutexRec(m);
    mr->owner = -1;
    t.state = WAITING_CV;
    t.cv = cv;
    t.mutex = m;
    t.timed = timed;
    t.deadline = deadline;
    t.timedOut = false;
    schedule(timed ? "cond-timedwait" : "cond-wait", cv);
    // resumed: the mutex was re-acquired on our behalf
    bool to = t.timedOut;
    t.timedOut = false;
    return to ? ETIMEDOUT : 0;
}

}  // namespace

namespace sched {
    std::vector<PointRec>& trace() { return g_trace; }
    bool deadlocked() { return g_deadlock; }
    bool overrun() { return g_overrun; }
    int threadCount() { return g_nthreads; }
    bool threadFinished(int id) { return id < g_nthreads && g_threads[id].state == FINISHED; }

    void begin(const std::vector<int>& prefix) {
        g_prefix = prefix;
        g_trace.clear();
        g_nthreads = 1;
        g_threads[0].id = 0;
        g_threads[0].state = RUNNABLE;
        g_current = 0;
        t_self = 0;
        g_nmutex = 0;
        g_deadlock = g_overrun = false;
        g_managed = true;
    }
    void end() { g_managed = false; }
    void point(const char* what, const void* addr) {
        if (!isManagedCaller()) return;
        schedule(what, addr);
    }
}  // namespace sched

// ---- interposed functions ---------------------------------------------------------------------------------------------
extern "C" {

int pthread_create(pthread_t* th, const pthread_attr_t* attr, void* (*fn)(void*), void* arg) {
    static auto real = realFn<int (*)(pthread_t*, const pthread_attr_t*, void* (*)(void*), void*)>("pthread_create");
    if (!isManagedCaller()) return real(th, attr, fn, arg);
    if (g_nthreads >= MAXT) abort();
    int id = g_nthreads++;
    Thread& t = g_threads[id];
    t.id = id;
    t.state = RUNNABLE;
    t.fn = fn;
    t.arg = arg;
    t.go.store(0);
    int rc = real(&t.real, attr, threadMain, new StartArg{id});
    if (rc != 0) return rc;
    *th = t.real;
    schedule("thread-create", nullptr);
    return 0;
}

int pthread_join(pthread_t th, void** ret) {
    static auto real = realFn<int (*)(pthread_t, void**)>("pthread_join");
    if (!isManagedCaller()) return real(th, ret);
    int target = -1;
    for (int i = 1; i < g_nthreads; ++i)
        if (pthread_equal(g_threads[i].real, th)) target = i;
    if (target < 0) return real(th, ret);
    Thread& t = g_threads[g_current];
    if (g_threads[target].state != FINISHED) {
        t.state = JOINING;
        t.joinTarget = target;
    }
    schedule("thread-join", nullptr);
    return real(th, ret);  // the target has finished its body; this returns promptly
}

int pthread_mutex_lock(pthread_mutex_t* m) {
    static auto real = realFn<int (*)(pthread_mutex_t*)>("pthread_mutex_lock");
    if (!isManagedCaller()) return real(m);
    MutexRec* mr = mutexRec(m);
    Thread& t = g_threads[g_current];
    if (mr->owner >= 0 && mr->owner != g_current) {
        t.state = BLOCKED_MUTEX;
        t.mutex = m;
        schedule("mutex-lock-blocked", m);  // returns once the mutex was handed to us
        return 0;
    }
    schedule("mutex-lock", m);  // a lock is a scheduling point even when uncontended
    // somebody may have taken it while we were descheduled
    while (mutexRec(m)->owner >= 0 && mutexRec(m)->owner != g_current) {
        t.state = BLOCKED_MUTEX;
        t.mutex = m;
        schedule("mutex-lock-blocked", m);
        return 0;
    }
    mutexRec(m)->owner = g_current;
    return 0;
}

int pthread_mutex_unlock(pthread_mutex_t* m) {
    static auto real = realFn<int (*)(pthread_mutex_t*)>("pthread_mutex_unlock");
    if (!isManagedCaller()) return real(m);
    mutexRec(m)->owner = -1;
    schedule("mutex-unlock", m);
    return 0;
}

int pthread_cond_clockwait(pthread_cond_t* c, pthread_mutex_t* m, clockid_t clk, const struct timespec* ts) {
    static auto real = realFn<int (*)(pthread_cond_t*, pthread_mutex_t*, clockid_t, const struct timespec*)>("pthread_cond_clockwait");
    if (!isManagedCaller()) return real(c, m, clk, ts);
    return condWaitCommon(c, m, true, toNs(ts));
}

int pthread_cond_timedwait(pthread_cond_t* c, pthread_mutex_t* m, const struct timespec* ts) {
    static auto real = realFn<int (*)(pthread_cond_t*, pthread_mutex_t*, const struct timespec*)>("pthread_cond_timedwait");
    if (!isManagedCaller()) return real(c, m, ts);
    return condWaitCommon(c, m, true, toNs(ts));
}

int pthread_cond_wait(pthread_cond_t* c, pthread_mutex_t* m) {
    static auto real = realFn<int (*)(pthread_cond_t*, pthread_mutex_t*)>("pthread_cond_wait");
    if (!isManagedCaller()) return real(c, m);
    return condWaitCommon(c, m, false, 0);
}

static void wakeWaiters(const void* c, bool all) {
    for (int i = 0; i < g_nthreads; ++i) {
        Thread& t = g_threads[i];
        if (t.state == WAITING_CV && t.cv == c) {
            t.state = BLOCKED_MUTEX;  // needs its mutex back
            t.cv = nullptr;
            if (!all) break;
        }
    }
}

int pthread_cond_broadcast(pthread_cond_t* c) {
    static auto real = realFn<int (*)(pthread_cond_t*)>("pthread_cond_broadcast");
    if (!isManagedCaller()) return real(c);
    wakeWaiters(c, true);
    schedule("cond-broadcast", c);
    return 0;
}

int pthread_cond_signal(pthread_cond_t* c) {
    static auto real = realFn<int (*)(pthread_cond_t*)>("pthread_cond_signal");
    if (!isManagedCaller()) return real(c);
    wakeWaiters(c, false);
    schedule("cond-signal", c);
    return 0;
}

int clock_gettime(clockid_t clk, struct timespec* ts) {
    static auto real = realFn<int (*)(clockid_t, struct timespec*)>("clock_gettime");
    if (!g_managed || clk != CLOCK_MONOTONIC) return real(clk, ts);
    ts->tv_sec = g_now / 1000000000LL;
    ts->tv_nsec = g_now % 1000000000LL;
    return 0;
}

}  // extern "C"
