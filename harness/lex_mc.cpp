// lex_mc: exhaustive enumeration of source strings over a small alphabet through the real Lexer.
//   lex_mc enum <alphabet-id> <L> <part> <nparts> [deadline_s]   all strings of length 1..L (partitioned by first char index)
//   lex_mc one <hex-bytes>                            check a single string, verbose
// Oracle (C15): for every accepted string, every token's text occurs at the offset given by its reported 1-based
// (line, column); tokens are in source order and disjoint; every byte not covered by a token is whitespace or inside a
// // comment; the token list ends with one Eof positioned at the end of the source. For rejected strings: exactly one
// Lexical BlochError whose position lies inside the source (line in 1..lines+1).
#include <chrono>
#include <cstdio>
#include <cstring>
#include <map>
#include <memory>
#include <set>
#include <string>
#include <vector>

#include "bloch/compiler/lexer/lexer.hpp"
#include "bloch/support/error/bloch_error.hpp"
#include "vutil.hpp"

using namespace bloch::compiler;
using bloch::support::BlochError;
using bloch::support::ErrorCategory;
using vutil::jstr;

extern "C" const char* __asan_default_options() { return "detect_leaks=0:halt_on_error=1:exitcode=77"; }

static const char* ALPHABETS[] = {
    "a10bfL.\"'/+=-> \n",        // 0: the 16-character core alphabet
    "a10bfL.\"'/+=-> \n\t&",     // 1: + tab and ampersand
    "a1.f\"'/\n -",               // 2: compact alphabet for longer strings (strings, chars, comments, newlines)
    "ab_1 \n\r\t\"'/",           // 3: whitespace variety incl. CR and tab
    "<>=!&|+-*%^~?:;,@(){}[]x \n",  // 4: operators and punctuation
};

struct Viol {
    std::string key, what, src;
};
static std::map<std::string, long> g_count;
static std::vector<Viol> g_viol;
static void violation(const std::string& key, const std::string& what, const std::string& src) {
    if (++g_count[key] == 1) g_viol.push_back({key, what, src});
}

static long g_total = 0, g_accepted = 0, g_rejected = 0, g_tokens = 0, g_multiline = 0;
static std::set<std::string> g_shapes;  // distinct token-type sequences (bounded)

static std::string typeSeq(const std::vector<Token>& t) {
    std::string s;
    for (auto& k : t) {
        s += std::to_string((int)k.type);
        s += ',';
    }
    return s;
}

static void checkOne(const std::string& src, bool verbose = false) {
    ++g_total;
    std::vector<size_t> lineStart{0};
    for (size_t i = 0; i < src.size(); ++i)
        if (src[i] == '\n') lineStart.push_back(i + 1);
    std::vector<Token> toks;
    // exact-size heap copy so that a read past the end of the source is visible to AddressSanitizer
    std::unique_ptr<char[]> heap(new char[src.size()]);
    memcpy(heap.get(), src.data(), src.size());
    try {
        Lexer lx(std::string_view(heap.get(), src.size()));
        toks = lx.tokenize();
    } catch (const BlochError& e) {
        ++g_rejected;
        if (e.category != ErrorCategory::Lexical) violation("reject:category", "rejection is not a Lexical error: " + std::string(e.what()), src);
        if (e.line < 1 || e.line > (int)lineStart.size() || e.column < 1)
            violation("reject:position", "Lexical error position (" + std::to_string(e.line) + "," + std::to_string(e.column) + ") lies outside the source", src);
        else {
            size_t ls = lineStart[e.line - 1];
            size_t le = (size_t)e.line < lineStart.size() ? lineStart[e.line] : src.size() + 1;
            if (ls + (size_t)e.column - 1 > le)
                violation("reject:position", "Lexical error column " + std::to_string(e.column) + " is beyond the end of line " + std::to_string(e.line), src);
            else {
                // every Lexical error is about a malformed literal (number, string, char): like a token, it is reported where the
                // literal starts - on its opening quote or its first digit
                size_t off = ls + (size_t)e.column - 1;
                bool starts = off < src.size() && (src[off] == '"' || src[off] == '\'' || isdigit((unsigned char)src[off]));
                if (starts && off > 0) {
                    // ... and everything before it is well-formed on its own: the lexer accepts the prefix
                    try {
                        Lexer pre(std::string_view(heap.get(), off));
                        (void)pre.tokenize();
                    } catch (const BlochError&) {
                        starts = false;
                    }
                }
                if (!starts)
                    violation("reject:position:not-literal-start", "Lexical error at (" + std::to_string(e.line) + "," + std::to_string(e.column) + ") = offset " + std::to_string(off) +
                              " does not point at the first character of a literal: " + std::string(e.what()), src);
            }
        }
        if (verbose) printf("rejected: %s\n", e.what());
        return;
    } catch (const std::exception& e) {
        violation("reject:raw", std::string("non-Bloch exception: ") + e.what(), src);
        return;
    }
    ++g_accepted;
    g_tokens += (long)toks.size();
    if (g_shapes.size() < 200000) g_shapes.insert(typeSeq(toks));
    if (toks.empty() || toks.back().type != TokenType::Eof) {
        violation("eof:missing", "token list does not end with Eof", src);
        return;
    }
    std::vector<char> covered(src.size(), 0);
    size_t prevEnd = 0;
    for (size_t i = 0; i < toks.size(); ++i) {
        const Token& t = toks[i];
        if (verbose) printf("tok type=%d text=%s line=%d col=%d\n", (int)t.type, jstr(t.value).c_str(), t.line, t.column);
        bool isEof = t.type == TokenType::Eof;
        if (isEof && i + 1 != toks.size()) violation("eof:early", "Eof token before the end of the list", src);
        if (t.line < 1 || t.line > (int)lineStart.size() || t.column < 1) {
            violation(std::string("pos:range:") + (isEof ? "eof" : "tok"),
                      "token " + jstr(t.value) + " reports (" + std::to_string(t.line) + "," + std::to_string(t.column) + ") outside the source", src);
            continue;
        }
        size_t off = lineStart[t.line - 1] + (size_t)(t.column - 1);
        if (isEof) {
            if (off != src.size())
                violation("pos:eof", "Eof reports (" + std::to_string(t.line) + "," + std::to_string(t.column) + ") = offset " + std::to_string(off) + ", source ends at " + std::to_string(src.size()), src);
            continue;
        }
        if (t.value.empty()) {
            violation("tok:empty", "non-Eof token with empty text", src);
            continue;
        }
        if (t.value.find('\n') != std::string::npos) ++g_multiline;
        if (off + t.value.size() > src.size() || src.compare(off, t.value.size(), t.value) != 0) {
            // where is it really?
            size_t real = src.find(t.value, prevEnd);
            std::string where = real == std::string::npos ? "nowhere after the previous token" : "at offset " + std::to_string(real);
            violation(std::string("pos:text:") + (t.value.find('\n') != std::string::npos ? "multiline-token" : (t.line > 1 ? "later-line" : "first-line")),
                      "token " + jstr(t.value) + " reports (" + std::to_string(t.line) + "," + std::to_string(t.column) + ") = offset " + std::to_string(off) +
                          " but its text is " + where,
                      src);
            continue;
        }
        if (off < prevEnd) violation("order", "token " + jstr(t.value) + " starts before the previous token ended", src);
        for (size_t k = off; k < off + t.value.size(); ++k) covered[k] = 1;
        prevEnd = off + t.value.size();
    }
    // uncovered bytes must be whitespace or inside a // comment
    bool inComment = false;
    for (size_t i = 0; i < src.size(); ++i) {
        if (src[i] == '\n') inComment = false;
        if (covered[i]) continue;
        if (!inComment && src[i] == '/' && i + 1 < src.size() && src[i + 1] == '/' && !covered[i + 1]) inComment = true;
        if (inComment) continue;
        if (!isspace((unsigned char)src[i])) {
            violation("lossless:dropped", "byte " + std::to_string(i) + " (" + jstr(std::string(1, src[i])) + ") is in no token, whitespace or comment", src);
            break;
        }
    }
}

int main(int argc, char** argv) {
    std::string cmd = argc > 1 ? argv[1] : "";
    if (cmd == "one") {
        std::string hex = argv[2], src;
        for (size_t i = 0; i + 1 < hex.size(); i += 2) src.push_back((char)strtol(hex.substr(i, 2).c_str(), nullptr, 16));
        checkOne(src, true);
        for (auto& v : g_viol) printf("VIOLATION %s: %s\n", v.key.c_str(), v.what.c_str());
        return g_viol.empty() ? 0 : 1;
    }
    if (cmd != "enum" || argc < 6) {
        fprintf(stderr, "usage: lex_mc enum <alphabet> <L> <part> <nparts> [deadline_s] | one <hex>\n");
        return 2;
    }
    std::string alpha = ALPHABETS[atoi(argv[2])];
    int L = atoi(argv[3]), part = atoi(argv[4]), nparts = atoi(argv[5]);
    double deadline = argc > 6 ? atof(argv[6]) : 1e9;
    auto t0 = std::chrono::steady_clock::now();
    size_t A = alpha.size();
    int completedL = 0;
    bool capped = false;
    std::string sample1, sample2;
    for (int len = 1; len <= L && !capped; ++len) {
        std::vector<size_t> idx(len, 0);
        std::string s(len, alpha[0]);
        // partition on the linear index of the first two characters
        long counter = 0;
        while (true) {
            size_t lead = idx[0] * A + (len > 1 ? idx[1] : 0);
            if ((int)(lead % nparts) == part) {
                for (int i = 0; i < len; ++i) s[i] = alpha[idx[i]];
                checkOne(s);
                if ((++counter & 0xfffff) == 0) {
                    double el = std::chrono::duration<double>(std::chrono::steady_clock::now() - t0).count();
                    if (el > deadline) { capped = true; break; }
                }
                if (len == L && counter == 77777) sample1 = s;
                if (len == 3 && counter == 333) sample2 = s;
            }
            int p = len - 1;
            while (p >= 0 && ++idx[p] == A) idx[p--] = 0;
            if (p < 0) break;
        }
        if (!capped) completedL = len;
    }
    printf("{\"alphabet\":%s,\"L\":%d,\"completed_L\":%d,\"capped\":%s,\"strings\":%ld,\"accepted\":%ld,\"rejected\":%ld,\"tokens\":%ld,\"multiline_tokens\":%ld,\"shapes\":%zu,"
           "\"samples\":[%s,%s],\"violations\":[",
           jstr(alpha).c_str(), L, completedL, capped ? "true" : "false", g_total, g_accepted, g_rejected, g_tokens, g_multiline, g_shapes.size(), jstr(sample1).c_str(), jstr(sample2).c_str());
    for (size_t i = 0; i < g_viol.size(); ++i)
        printf("%s{\"key\":%s,\"what\":%s,\"src\":%s,\"count\":%ld}", i ? "," : "", jstr(g_viol[i].key).c_str(), jstr(g_viol[i].what).c_str(), jstr(g_viol[i].src).c_str(), g_count[g_viol[i].key]);
    printf("]}\n");
    return 0;
}
