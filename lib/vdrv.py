"""Python side of the vdrv driver: job encoding, result decoding, process pools."""
import json, os, subprocess, sys, re, itertools, multiprocessing, atexit, time

sys.path.insert(0, os.path.dirname(os.path.abspath(__file__)))
import vbuild

_exe_cache = {}


def exe(variant, target):
    key = (variant, target)
    if key not in _exe_cache:
        _exe_cache[key] = vbuild.ensure(variant, [target])[target]
    return _exe_cache[key]


def encode_job(job):
    """job: dict(id, kind, opts={}, blobs={}, files={}, symlinks={}, argv=[])."""
    out = [b"job %s\n" % str(job.get("id", "0")).encode(), b"kind %s\n" % job["kind"].encode()]
    for k, v in job.get("opts", {}).items():
        out.append(("opt %s %s\n" % (k, v)).encode())
    for k, v in job.get("blobs", {}).items():
        b = v if isinstance(v, bytes) else v.encode("latin-1") if _is_latin(v) else v.encode()
        out.append(b"blob %s %d\n" % (k.encode(), len(b)) + b + b"\n")
    for k, v in job.get("files", {}).items():
        b = v if isinstance(v, bytes) else v.encode()
        out.append(b"file %s %d\n" % (k.encode(), len(b)) + b + b"\n")
    for k, v in job.get("symlinks", {}).items():
        out.append(("symlink %s %s\n" % (k, v)).encode())
    for a in job.get("argv", []):
        b = a.encode()
        out.append(b"arg %d\n" % len(b) + b + b"\n")
    out.append(b"end\n")
    return b"".join(out)


def _is_latin(s):
    try:
        s.encode("latin-1")
        return True
    except UnicodeEncodeError:
        return False


UBSAN_RE = re.compile(r"runtime error: ([^\n]*)")
ASAN_RE = re.compile(r"ERROR: (?:AddressSanitizer|LeakSanitizer|UndefinedBehaviorSanitizer): ([a-zA-Z0-9_-]+)")


class Result(dict):
    """Decoded vdrv result. Keys: id, sig, exit, timeout, fd2, records (list of dict), teardowns (list), done."""

    @property
    def crash(self):
        """None if the child finished cleanly, else a category string."""
        if self["timeout"]:
            return "timeout"
        if self["sig"]:
            m = ASAN_RE.search(self["fd2"])
            if m:
                return "sanitizer:" + m.group(1)
            return "signal:%d" % self["sig"]
        m = ASAN_RE.search(self["fd2"])
        if m:
            return "sanitizer:" + m.group(1)
        if self["exit"] == 77:
            m2 = UBSAN_RE.search(self["fd2"])
            return "sanitizer:ubsan:" + (m2.group(1)[:80] if m2 else "?")
        if self["exit"] != 0 or not self["done"]:
            return "exit:%d" % self["exit"]
        return None

    @property
    def ubsan_notes(self):
        return UBSAN_RE.findall(self["fd2"])

    @property
    def rec(self):
        return self["records"][0] if self["records"] else None

    def status(self, i=0):
        c = self.crash
        if c and i >= len(self["records"]):
            return c
        if i < len(self["records"]):
            return self["records"][i].get("status")
        return c or "missing"


def decode_result(line):
    d = json.loads(line)
    recs, tds, done = [], [], False
    for ln in d["out"].split("\n"):
        if ln.startswith("S "):
            recs.append(json.loads(ln[2:]))
        elif ln.startswith("T "):
            tds.append(int(ln[2:]))
        elif ln == "D":
            done = True
    r = Result(id=d["id"], sig=d["sig"], exit=d["exit"], timeout=d["timeout"], fd2=d["fd2"], records=recs, teardowns=tds, done=done)
    return r


class Driver:
    def __init__(self, variant="asan", target="vdrv"):
        # variant "asan+leak": the asan build started with leak detection on (jobs then pass opt leakcheck=1)
        env = {"PATH": "/usr/bin:/bin", "LLVM_SYMBOLIZER_PATH": "/usr/bin/llvm-symbolizer-14"}
        if variant.endswith("+leak"):
            variant = variant[:-5]
            env["ASAN_OPTIONS"] = ("detect_leaks=1:halt_on_error=1:abort_on_error=0:exitcode=77:allocator_may_return_null=1:"
                                   "detect_stack_use_after_return=0:handle_segv=1:symbolize=1:print_summary=1")
        self.path = exe(variant, target)
        self.p = subprocess.Popen([self.path], stdin=subprocess.PIPE, stdout=subprocess.PIPE, env=env)

    def run(self, job):
        self.p.stdin.write(encode_job(job))
        self.p.stdin.flush()
        line = self.p.stdout.readline()
        if not line:
            raise RuntimeError("vdrv died on job %r" % (job.get("id"),))
        return decode_result(line)

    def run_many(self, jobs, window=4):
        """Pipelined execution preserving order."""
        jobs = list(jobs)
        res = []
        sent = 0
        for i in range(len(jobs)):
            while sent < len(jobs) and sent - i < window:
                self.p.stdin.write(encode_job(jobs[sent]))
                sent += 1
            self.p.stdin.flush()
            line = self.p.stdout.readline()
            if not line:
                raise RuntimeError("vdrv died")
            res.append(decode_result(line))
        return res

    def close(self):
        try:
            self.p.stdin.close()
            self.p.wait(timeout=5)
        except Exception:
            self.p.kill()


LineDriver = Driver

_drivers = {}


def get_driver(variant="asan"):
    d = _drivers.get(variant)
    if d is None or d.p.poll() is not None:
        d = LineDriver(variant)
        _drivers[variant] = d
    return d


def _close_all():
    for d in _drivers.values():
        d.close()


atexit.register(_close_all)


def run_job(job, variant="asan"):
    r = get_driver(variant).run(job)
    if r["timeout"] and not job.get("_retried"):
        # a job that ran into its time limit is re-run once, alone, with six times the limit (at least a minute) before it is called
        # a hang: on a loaded machine a limit sized for milliseconds of work can be hit by scheduling delays alone
        j2 = dict(job, _retried=True)
        o = dict(job.get("opts", {}))
        o["timeout_ms"] = max(60000, 6 * int(o.get("timeout_ms", 10000)))
        j2["opts"] = o
        return get_driver(variant).run(j2)
    return r


def run_src(src, variant="asan", **opts):
    want = opts.pop("want", None)
    o = dict(opts)
    if want:
        o["want"] = want
    return run_job({"id": "x", "kind": "run", "opts": o, "blobs": {"src": src}}, variant)


# ---- process pool ---------------------------------------------------------------------------------
def _pool_init(variants):
    for v in variants:
        exe(v, "vdrv")


_PM_ITEMS = None
_PM_FUNC = None


def _pm_call(i):
    return _PM_FUNC(_PM_ITEMS[i])


def pmap(func, items, workers=None, chunksize=1, variants=("asan",)):
    """Map func over items in forked worker processes (each worker lazily owns its own vdrv). Ordered results
    (generator). Items and func are inherited through fork, so they need not be picklable; results must be."""
    global _PM_ITEMS, _PM_FUNC
    workers = workers or int(os.environ.get("VERIF_WORKERS", "16"))
    for v in variants:
        exe(v, "vdrv")  # build once in the parent
    items = list(items)
    if workers <= 1 or len(items) <= 1:
        for it in items:
            yield func(it)
        return
    _PM_ITEMS, _PM_FUNC = items, func
    # drivers owned by the parent must not be shared with children
    saved = dict(_drivers)
    _drivers.clear()
    ctx = multiprocessing.get_context("fork")
    try:
        with ctx.Pool(workers) as pool:
            for r in pool.imap(_pm_call, range(len(items)), chunksize):
                yield r
    finally:
        _drivers.update(saved)
        _PM_ITEMS = _PM_FUNC = None


def chunks(seq, n):
    seq = list(seq)
    for i in range(0, len(seq), n):
        yield seq[i:i + n]
