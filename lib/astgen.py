"""Syntax trees over the documented Bloch constructs, rendered to source (minimal and full parentheses) and to the
S-expression format of harness/vutil.hpp's AstDump (parentheses erased, positions off).

Precedence/associativity is transcribed from docs/grammar.md (plus docs/casting.md: a cast is a unary-level prefix whose
operand is a unary expression), NOT from the parser's binding table."""
import json

# precedence levels, low to high (docs/grammar.md)
P_ASSIGN, P_OR, P_AND, P_BOR, P_XOR, P_BAND, P_EQ, P_CMP, P_ADD, P_MUL, P_UNARY, P_POSTFIX, P_PRIMARY = range(1, 14)
BINOPS = {
    "||": P_OR, "&&": P_AND, "|": P_BOR, "^": P_XOR, "&": P_BAND, "==": P_EQ, "!=": P_EQ,
    ">": P_CMP, "<": P_CMP, ">=": P_CMP, "<=": P_CMP, "+": P_ADD, "-": P_ADD, "*": P_MUL, "/": P_MUL, "%": P_MUL,
}
UNOPS = ["-", "!", "~"]


def jstr(s):
    return json.dumps(s)


class N:
    """generic node: kind + fields"""

    def __init__(self, kind, *a):
        self.kind = kind
        self.a = a

    def __repr__(self):
        return "N(%s,%r)" % (self.kind, self.a)


def lit(text, ty="int"):
    return N("lit", ty, text)


def var(name):
    return N("var", name)


def prec(n):
    k = n.kind
    if k == "bin":
        return BINOPS[n.a[0]]
    if k in ("assign", "massign", "aassign"):
        return P_ASSIGN
    if k in ("un", "cast"):
        return P_UNARY
    if k in ("post", "call", "index", "member"):
        return P_POSTFIX
    return P_PRIMARY  # lit var measure(new special) arr new this super null


def typ_src(t):
    k = t[0]
    if k == "prim":
        return t[1]
    if k == "void":
        return "void"
    if k == "named":
        s = ".".join(t[1])
        if t[2] is not None:
            s += "<" + ", ".join(typ_src(x) for x in t[2]) + ">"
        return s
    if k == "arr":
        size = t[2]
        return typ_src(t[1]) + "[" + ("" if size is None else str(size)) + "]"
    raise ValueError(t)


def typ_dump(t):
    k = t[0]
    if k == "prim":
        return "(prim %s)" % t[1]
    if k == "void":
        return "(void)"
    if k == "named":
        s = "(named " + " ".join(t[1])
        if t[2] is not None:
            s += " <>"
            for x in t[2]:
                s += " " + typ_dump(x)
        return s + ")"
    if k == "arr":
        size = t[2]
        if isinstance(size, N):
            return "(arrtype %s -1 %s)" % (typ_dump(t[1]), dump(size))
        return "(arrtype %s %d nil)" % (typ_dump(t[1]), -1 if size is None else size)
    raise ValueError(t)


def typ_src2(t):
    if t[0] == "arr" and isinstance(t[2], N):
        return typ_src(t[1]) + "[" + render(t[2]) + "]"
    return typ_src(t)


# ---- expressions ------------------------------------------------------------------------------------------------------
def dump(n):
    k, a = n.kind, n.a
    if k == "lit":
        return "(lit %s %s)" % (a[0], jstr(a[1]))
    if k == "var":
        return "(v %s)" % a[0]
    if k == "null":
        return "(null)"
    if k == "this":
        return "(this)"
    if k == "super":
        return "(super)"
    if k == "bin":
        return "(bin %s %s %s)" % (a[0], dump(a[1]), dump(a[2]))
    if k == "un":
        return "(un %s %s)" % (a[0], dump(a[1]))
    if k == "cast":
        return "(cast %s %s)" % (typ_dump(a[0]), dump(a[1]))
    if k == "post":
        return "(post %s %s)" % (a[0], dump(a[1]))
    if k == "call":
        return "(call %s%s)" % (dump(a[0]), "".join(" " + dump(x) for x in a[1]))
    if k == "index":
        return "(index %s %s)" % (dump(a[0]), dump(a[1]))
    if k == "member":
        return "(member %s %s)" % (dump(a[0]), a[1])
    if k == "measure":
        return "(measurex %s)" % dump(a[0])
    if k == "assign":
        return "(assignx %s %s)" % (a[0], dump(a[1]))
    if k == "massign":
        return "(massign %s %s %s)" % (dump(a[0]), a[1], dump(a[2]))
    if k == "aassign":
        return "(aassign %s %s %s)" % (dump(a[0]), dump(a[1]), dump(a[2]))
    if k == "arr":
        return "(arr%s)" % "".join(" " + dump(x) for x in a[0])
    if k == "new":
        return "(new %s%s)" % (typ_dump(a[0]), "".join(" " + dump(x) for x in a[1]))
    raise ValueError(k)


def render(n, full=False, minp=0, tail=True):
    """minp: the minimal precedence this position accepts without parentheses.
    tail: nothing follows this subexpression before the enclosing bracket/terminator (matters for 'measure')."""
    k, a = n.kind, n.a
    p = prec(n)

    def wrap(s, need):
        return "(" + s + ")" if need else s
    if k == "lit":
        return a[1]
    if k == "var":
        return a[0]
    if k in ("null", "this", "super"):
        return k
    composite = True
    if k == "bin":
        op = a[0]
        need = p < minp
        inner_tail = tail or need or full
        left = render(a[1], full, p, False)
        right = render(a[2], full, p + 1, inner_tail)
        s = "%s %s %s" % (left, op, right)
    elif k == "un":
        need = p < minp
        s = "%s %s" % (a[0], render(a[1], full, P_UNARY, tail or need or full))
    elif k == "cast":
        need = p < minp
        s = "(%s) %s" % (typ_src(a[0]), render(a[1], full, P_UNARY, tail or need or full))
    elif k == "post":
        need = p < minp
        s = "%s %s" % (render(a[1], full, P_POSTFIX, False), a[0])
    elif k == "call":
        need = p < minp
        s = "%s(%s)" % (render(a[0], full, P_POSTFIX, False), ", ".join(render(x, full, 0, True) for x in a[1]))
    elif k == "index":
        need = p < minp
        s = "%s[%s]" % (render(a[0], full, P_POSTFIX, False), render(a[1], full, 0, True))
    elif k == "member":
        need = p < minp
        s = "%s.%s" % (render(a[0], full, P_POSTFIX, False), a[1])
    elif k == "measure":
        # 'measure' expression: the operand extends as far as possible, so the node needs parentheses unless it is in
        # tail position (and a primary is acceptable here, which it always is)
        need = not tail
        s = "measure %s" % render(a[0], full, 0, True)
    elif k == "assign":
        need = p < minp
        s = "%s = %s" % (a[0], render(a[1], full, P_ASSIGN, tail or need or full))
    elif k == "massign":
        need = p < minp
        s = "%s.%s = %s" % (render(a[0], False, P_POSTFIX, False), a[1], render(a[2], full, P_ASSIGN, tail or need or full))
    elif k == "aassign":
        need = p < minp
        s = "%s[%s] = %s" % (render(a[0], False, P_POSTFIX, False), render(a[1], full, 0, True), render(a[2], full, P_ASSIGN, tail or need or full))
    elif k == "arr":
        need = False
        composite = False
        s = "{%s}" % ", ".join(render(x, full, 0, True) for x in a[0])
    elif k == "new":
        need = False
        composite = False
        s = "new %s(%s)" % (typ_src(a[0]), ", ".join(render(x, full, 0, True) for x in a[1]))
    else:
        raise ValueError(k)
    if full and composite:
        need = True
    return wrap(s, need)


# ---- statements ---------------------------------------------------------------------------------------------------------
def s_dump(s):
    k, a = s.kind, s.a
    if k == "vardecl":  # (type, name, init|None, final, tracked)
        t, name, init, final, tracked = a
        d = "(var %s%s%s %s %s" % (name, " final" if final else "", " tracked" if tracked else "", typ_dump(t), dump(init) if init else "nil")
        if tracked:
            d += ' (annot tracked "")'
        return d + ")"
    if k == "multiq":  # qubit a, b;
        return " ".join("(var %s (prim qubit) nil)" % nm for nm in a[0])
    if k == "block":
        return "(block%s)" % "".join(" " + s_dump(x) for x in a[0])
    if k == "expr":
        return "(expr %s)" % dump(a[0])
    if k == "return":
        return "(return %s)" % (dump(a[0]) if a[0] else "nil")
    if k == "if":
        return "(if %s %s %s)" % (dump(a[0]), s_dump(a[1]), s_dump(a[2]) if a[2] else "nil")
    if k == "for":
        return "(for %s %s %s %s)" % (s_dump(a[0]) if a[0] else "nil", dump(a[1]), dump(a[2]), s_dump(a[3]))
    if k == "while":
        return "(while %s %s)" % (dump(a[0]), s_dump(a[1]))
    if k == "echo":
        return "(echo %s)" % dump(a[0])
    if k == "reset":
        return "(reset %s)" % dump(a[0])
    if k == "measure":
        return "(measure %s)" % dump(a[0])
    if k == "destroy":
        return "(destroy %s)" % dump(a[0])
    if k == "ternary":
        return "(ternary %s %s %s)" % (dump(a[0]), s_dump(a[1]), s_dump(a[2]))
    if k == "assign":
        return "(assign %s %s)" % (a[0], dump(a[1]))
    raise ValueError(k)


def s_render(s, full=False):
    k, a = s.kind, s.a
    if k == "vardecl":
        t, name, init, final, tracked = a
        return "%s%s%s %s%s;" % ("final " if final else "", "@tracked " if tracked else "", typ_src2(t), name, (" = " + render(init, full)) if init else "")
    if k == "multiq":
        return "qubit %s;" % ", ".join(a[0])
    if k == "block":
        return "{ %s }" % " ".join(s_render(x, full) for x in a[0])
    if k == "expr":
        return render(a[0], full) + ";"
    if k == "return":
        return "return%s;" % ((" " + render(a[0], full)) if a[0] else "")
    if k == "if":
        return "if (%s) %s%s" % (render(a[0], full), s_render(a[1], full), (" else " + s_render(a[2], full)) if a[2] else "")
    if k == "for":
        init = s_render(a[0], full) if a[0] else ";"
        return "for (%s %s; %s) %s" % (init, render(a[1], full), render(a[2], full), s_render(a[3], full))
    if k == "while":
        return "while (%s) %s" % (render(a[0], full), s_render(a[1], full))
    if k == "echo":
        return "echo(%s);" % render(a[0], full)
    if k == "reset":
        return "reset %s;" % render(a[0], full)
    if k == "measure":
        return "measure %s;" % render(a[0], full)
    if k == "destroy":
        return "destroy %s;" % render(a[0], full)
    if k == "ternary":
        # the condition is followed by '?', so a trailing 'measure' in it needs parentheses
        return "%s ? %s : %s" % (render(a[0], full, 0, False), s_render(a[1], full), s_render(a[2], full))
    if k == "assign":
        return "%s = %s;" % (a[0], render(a[1], full))
    raise ValueError(k)


# ---- declarations ---------------------------------------------------------------------------------------------------------
def params_src(ps):
    return ", ".join("%s %s" % (typ_src(t), n) for t, n in ps)


def params_dump(ps):
    return "".join(" (param %s %s)" % (n, typ_dump(t)) for t, n in ps)


def fn_src(f, full=False):
    """f = dict(name, params, ret, body(list of stmts), quantum, shots)"""
    ann = ""
    if f.get("shots") is not None:
        ann += "@shots(%s) " % f["shots"]
    if f.get("quantum"):
        ann += "@quantum "
    return "%sfunction %s(%s) -> %s { %s }" % (ann, f["name"], params_src(f["params"]), typ_src(f["ret"]), " ".join(s_render(s, full) for s in f["body"]))


def fn_dump(f):
    d = "(function %s%s%s%s -> %s %s" % (f["name"], " quantum" if f.get("quantum") else "", " shots" if f.get("shots") is not None else "", params_dump(f["params"]),
                                       typ_dump(f["ret"]), "(block%s)" % "".join(" " + s_dump(s) for s in f["body"]))
    if f.get("shots") is not None:
        d += " (annot shots %s)" % jstr(str(f["shots"]))
    if f.get("quantum"):
        d += ' (annot quantum "")'
    return d + ")"


def member_src(m, cls, full=False):
    k = m["kind"]
    vis = (m["vis"] + " ") if m.get("vis") else ""
    if k == "field":
        return "%s%s%s%s%s %s%s;" % ("@tracked " if m.get("tracked") else "", vis, "static " if m.get("static") else "", "final " if m.get("final") else "", typ_src(m["type"]), m["name"],
                                      (" = " + render(m["init"], full)) if m.get("init") else "")
    if k == "method":
        mods = ("static " if m.get("static") else "") + ("virtual " if m.get("virtual") else "") + ("override " if m.get("override") else "")
        if m.get("mods_rev"):
            mods = ("override " if m.get("override") else "") + ("virtual " if m.get("virtual") else "") + ("static " if m.get("static") else "")
        ann = "@quantum " if m.get("quantum") else ""
        head = "%s%s%sfunction %s(%s) -> %s" % (ann if not m.get("ann_after") else "", vis, mods + (ann if m.get("ann_after") else ""), m["name"], params_src(m["params"]), typ_src(m["ret"]))
        if m.get("body") is None:
            return head + ";"
        return head + " { %s }" % " ".join(s_render(s, full) for s in m["body"])
    if k == "ctor":
        head = "%sconstructor(%s) -> %s" % (vis, params_src(m["params"]), cls)
        if m.get("default"):
            return head + " = default;"
        return head + " { %s }" % " ".join(s_render(s, full) for s in m["body"])
    if k == "dtor":
        head = "%sdestructor() -> void" % vis
        if m.get("default"):
            return head + " = default;"
        return head + " { %s }" % " ".join(s_render(s, full) for s in m["body"])
    raise ValueError(k)


def member_dump(m, cls_static=False):
    k = m["kind"]
    vis = m.get("vis") or ("public" if cls_static else "private")
    if k == "field":
        d = "(field %s %s%s%s%s %s %s" % (vis, m["name"], " final" if m.get("final") else "", " static" if m.get("static") else "", " tracked" if m.get("tracked") else "",
                                       typ_dump(m["type"]), dump(m["init"]) if m.get("init") else "nil")
        if m.get("tracked"):
            d += ' (annot tracked "")'
        return d + ")"
    if k == "method":
        d = "(method %s %s%s%s%s%s%s -> %s %s" % (vis, m["name"], " static" if m.get("static") else "", " virtual" if m.get("virtual") else "", " override" if m.get("override") else "",
                                               " quantum" if m.get("quantum") else "", params_dump(m["params"]), typ_dump(m["ret"]),
                                               "nil" if m.get("body") is None else "(block%s)" % "".join(" " + s_dump(s) for s in m["body"]))
        if m.get("quantum"):
            d += ' (annot quantum "")'
        return d + ")"
    if k == "ctor":
        return "(ctor %s%s%s %s)" % (vis, " default" if m.get("default") else "", params_dump(m["params"]),
                                    "nil" if m.get("default") else "(block%s)" % "".join(" " + s_dump(s) for s in m["body"]))
    if k == "dtor":
        return "(dtor %s%s %s)" % (vis, " default" if m.get("default") else "", "nil" if m.get("default") else "(block%s)" % "".join(" " + s_dump(s) for s in m["body"]))
    raise ValueError(k)


def class_src(c, full=False):
    """c = dict(name, static, abstract, tparams [(name, bound|None)], base type|None, members)"""
    head = ("static " if c.get("static") else "") + ("abstract " if c.get("abstract") else "") + "class " + c["name"]
    if c.get("tparams"):
        head += "<" + ", ".join(n + ((" extends " + typ_src(b)) if b else "") for n, b in c["tparams"]) + ">"
    if c.get("base"):
        head += " extends " + typ_src(c["base"])
    return head + " { " + " ".join(member_src(m, c["name"] + ("<" + ", ".join(n for n, b in c["tparams"]) + ">" if c.get("tparams") else ""), full) for m in c["members"]) + " }"


def class_dump(c):
    d = "(class %s%s%s" % (c["name"], " static" if c.get("static") else "", " abstract" if c.get("abstract") else "")
    for n, b in c.get("tparams") or []:
        d += " (tparam %s %s)" % (n, typ_dump(b) if b else "nil")
    d += " base[%s] %s" % ("".join(x + "." for x in c["base"][1]) if c.get("base") else "", typ_dump(c["base"]) if c.get("base") else "nil")
    for m in c["members"]:
        d += " " + member_dump(m, c.get("static"))
    return d + ")"


def program_src(p, full=False):
    parts = []
    if p.get("package"):
        parts.append("package %s;" % ".".join(p["package"]))
    for imp in p.get("imports", []):
        parts.append("import %s;" % imp)
    for d in p["decls"]:
        if "members" in d:
            parts.append(class_src(d, full))
        else:
            parts.append(fn_src(d, full))
    return "\n".join(parts) + "\n"


def program_dump(p):
    d = "(program " + ("(package %s)" % " ".join(p["package"]) if p.get("package") else "nil")
    for imp in p.get("imports", []):
        parts = imp.split(".")
        if parts[-1] == "*":
            d += " (import %s *)" % " ".join(parts[:-1])
        elif len(parts) == 1:
            d += " (import :%s)" % parts[0]
        else:
            d += " (import %s :%s)" % (" ".join(parts[:-1]), parts[-1])
    classes = [x for x in p["decls"] if "members" in x]
    fns = [x for x in p["decls"] if "members" not in x]
    for c in classes:
        d += " " + class_dump(c)
    for f in fns:
        d += " " + fn_dump(f)
    return d + ")"
