"""Shared oracles for quantum programs run through vdrv: outcome-history DFS and tap replay."""
import refsim, vdrv

EPS = 1e-12


def run(src, script=(), gc="none", want="amps,ops,qasm,tracked,flags,inv", **opts):
    o = dict(opts)
    o["want"] = want
    o["draws"] = ",".join(str(x) for x in script)
    o["gc"] = gc
    o.setdefault("warn", 0)
    return vdrv.run_job({"id": "q", "kind": "run", "opts": o, "blobs": {"src": src}})


def dfs_outcomes(src, gc="none", max_runs=64, want="amps,ops,qasm,tracked,flags,inv", **opts):
    """Stateless DFS over draw scripts: every history of measure/reset outcomes with 0 < p < 1 at the branching draw.
    Returns (list of (script, Result), capped)."""
    out = []
    stack = [()]
    capped = False
    while stack:
        script = stack.pop()
        r = run(src, script, gc, want, **opts)
        out.append((script, r))
        rec = r.rec
        if rec is None or "draws" not in rec:
            continue
        draws = rec["draws"]
        taken = outcomes_of(draws)
        for i in range(len(script), len(draws)):
            p1 = draws[i][2]
            if isinstance(p1, str):
                continue
            if EPS < p1 < 1 - EPS:
                alt = tuple(taken[:i]) + (1 - taken[i],)
                if len(out) + len(stack) >= max_runs:
                    capped = True
                else:
                    stack.append(alt)
    return out, capped


def outcomes_of(draws):
    """branch taken at each draw (1 iff r < p1), as the implementation decides it"""
    return [1 if (not isinstance(d[2], str) and not isinstance(d[3], str) and d[3] < d[2]) else 0 for d in draws]    # a non-finite probability arrives as a string


def replay_tap(rec):
    """Replay the op tap on the reference simulator. Returns (final_state or None, problems list)."""
    problems = []
    st = [1 + 0j]
    n = 0
    draws = list(rec.get("draws", []))
    di = 0
    for idx, (name, a, b, th, outcome) in enumerate(rec["ops"]):
        if name == "alloc":
            if a != n:
                problems.append("op#%d alloc returned index %d with %d qubits allocated" % (idx, a, n))
            st = refsim.alloc(st)
            n += 1
            continue
        for q in (a, b):
            if q >= n:
                problems.append("op#%d %s touches index %d but only %d qubits exist" % (idx, name, q, n))
                return None, problems
        if name == "measure":
            if di >= len(draws) or draws[di][0] != "measure" or draws[di][1] != a:
                problems.append("op#%d measure q%d has no matching draw record" % (idx, a))
                return None, problems
            p1 = draws[di][2]
            p1ref = refsim.p1(st, a)
            if not abs(p1 - p1ref) <= 1e-9:
                problems.append("op#%d measure q%d drew against p1=%r, Born probability is %r" % (idx, a, p1, p1ref))
            di += 1
            st2, w = refsim.project(st, a, outcome)
            if st2 is None:
                problems.append("op#%d measure q%d reported outcome %d which has probability 0" % (idx, a, outcome))
                return None, problems
            st = st2
        elif name == "reset":
            if di >= len(draws) or draws[di][0] != "reset" or draws[di][1] != a:
                problems.append("op#%d reset q%d has no matching draw record" % (idx, a))
                return None, problems
            o = 1 if draws[di][3] < draws[di][2] else 0
            di += 1
            st2, w = refsim.reset_branch(st, a, o)
            if st2 is None:
                st2, w = refsim.reset_branch(st, a, 1 - o)
            st = st2
        else:
            if name == "cx" and a == b:
                problems.append("op#%d cx on identical qubits" % idx)
                return None, problems
            st = refsim.gate(st, name, a, b, th)
    if di != len(draws):
        problems.append("%d draws were consumed but only %d measure/reset operations were tapped" % (len(draws), di))
    return st, problems


def check_final_state(rec, tol=1e-9):
    """-> list of problems comparing the reference replay of the tap with the implementation's final amplitudes"""
    st, problems = replay_tap(rec)
    if st is None:
        return problems
    amps = refsim.amps_from_json(rec["amps"])
    if len(amps) != len(st):
        problems.append("final state has %d amplitudes, replay of the tap has %d" % (len(amps), len(st)))
        return problems
    d = refsim.dist_up_to_phase(amps, st)
    if not d <= tol:
        problems.append("final amplitudes differ from the reference replay of the tapped operations by %g" % d)
    return problems
