#!/usr/bin/env python3
"""Content-addressed build of /repo's working tree plus the harness programs.

vbuild.ensure(variant, targets) -> dict target -> path of executable
Variants: asan (ASan+UBSan, -O1), plain (-O2), tsan.
Everything is compiled with -DBLOCH_VERIF_HOOKS.
"""
import hashlib, os, subprocess, sys, shutil, time, fcntl
from concurrent.futures import ThreadPoolExecutor

VERIF = os.path.dirname(os.path.dirname(os.path.abspath(__file__)))
REPO = os.environ.get("VERIF_REPO", "/repo")
BUILD = os.path.join(VERIF, "build")
HARNESS = os.path.join(VERIF, "harness")

CORE = [
    "bloch/compiler/import/module_loader.cpp",
    "bloch/compiler/lexer/lexer.cpp",
    "bloch/compiler/parser/parser.cpp",
    "bloch/compiler/semantics/built_ins.cpp",
    "bloch/compiler/semantics/semantic_analyser.cpp",
    "bloch/compiler/semantics/type_system.cpp",
    "bloch/runtime/qasm_simulator.cpp",
    "bloch/runtime/runtime_evaluator.cpp",
    "bloch/cli/cli.cpp",
]

CXX = "clang++"
# the tsan variant is built with g++: clang 14's ThreadSanitizer runtime silently drops a race whose earlier access it cannot find in the
# thread's (bounded) event trace any more - exactly the interpreter's situation, which runs for a whole timer period without a single
# synchronisation event - while gcc 12's libtsan reports it (seed C11-7; harness-free reproduction in DESIGN.md, C11)
VARIANT_CXX = {"tsan": "g++"}
COMMON = ["-std=c++20", "-DBLOCH_VERIF_HOOKS", "-g", "-fno-omit-frame-pointer", "-pthread"]
VARIANTS = {
    "asan": ["-O1", "-fsanitize=address,undefined", "-fno-sanitize-recover=null,bounds,vptr,alignment,object-size,unreachable,return,integer-divide-by-zero"],
    "plain": ["-O2"],
    "tsan": ["-O1", "-fsanitize=thread"],
}

# harness targets: name -> (sources, extra flags, link core objects?, variants allowed)
TARGETS = {
    "vdrv": (["vdrv.cpp", "update_stub.cpp"], ["-fno-access-control"], True),
    "sim_mc": (["sim_mc.cpp", "update_stub.cpp"], ["-fno-access-control"], True),
    "lex_mc": (["lex_mc.cpp", "update_stub.cpp"], ["-fno-access-control"], True),
    "front_mc": (["front_mc.cpp", "update_stub.cpp"], ["-fno-access-control"], True),
    "upd_mc": (["upd_mc.cpp"], ["-fno-access-control", "-I" + os.path.join(HARNESS, "stubs")], False),
    "gcthread_mc": (["gcthread_mc.cpp", "sched.cpp", "update_stub.cpp"], ["-fno-access-control"], True),
    "gcthread_free": (["gcthread_free.cpp", "update_stub.cpp"], ["-fno-access-control"], True),
}


def _files_under(root, exts):
    out = []
    for d, _, fs in os.walk(root):
        for f in fs:
            if f.endswith(exts):
                out.append(os.path.join(d, f))
    return sorted(out)


def tree_hash():
    h = hashlib.sha256()
    for f in _files_under(os.path.join(REPO, "src"), (".cpp", ".hpp", ".h")):
        h.update(os.path.relpath(f, REPO).encode())
        h.update(open(f, "rb").read())
    return h


def _sh(cmd, log):
    p = subprocess.run(cmd, stdout=subprocess.PIPE, stderr=subprocess.STDOUT)
    if p.returncode != 0:
        sys.stderr.write("BUILD FAILED: %s\n%s\n" % (" ".join(cmd), p.stdout.decode(errors="replace")))
        raise SystemExit(2)
    return p


def _hash_headers():
    h = hashlib.sha256()
    for f in _files_under(os.path.join(REPO, "src"), (".hpp", ".h")):
        h.update(os.path.relpath(f, REPO).encode())
        h.update(open(f, "rb").read())
    return h.hexdigest()


def _hash_repo_cpp(rel):
    return hashlib.sha256(open(os.path.join(REPO, "src", rel), "rb").read()).hexdigest()


def _hash_harness_headers():
    h = hashlib.sha256()
    for f in _files_under(HARNESS, (".hpp", ".h")):
        h.update(os.path.relpath(f, HARNESS).encode())
        h.update(open(f, "rb").read())
    return h.hexdigest()


def ensure(variant, targets):
    """Build (if needed) and return {target: exe_path}.  Objects are cached per translation unit, keyed by the
    content of the .cpp, of every header under /repo/src (and harness headers for harness TUs) and the flags, so
    a check always runs objects compiled from /repo's current working tree."""
    flags = COMMON + VARIANTS[variant]
    cxx = VARIANT_CXX.get(variant, CXX)
    os.makedirs(BUILD, exist_ok=True)
    lock = open(os.path.join(BUILD, ".lock"), "w")
    fcntl.flock(lock, fcntl.LOCK_EX)
    try:
        objdir = os.path.join(BUILD, "obj", variant)
        exedir = os.path.join(BUILD, "exe", variant)
        os.makedirs(objdir, exist_ok=True)
        os.makedirs(exedir, exist_ok=True)
        inc = ["-I" + os.path.join(REPO, "src")]
        hdr = _hash_headers()
        hhdr = _hash_harness_headers()
        jobs = []
        core_objs = []

        def obj_for(path, fl, extra_key=""):
            h = hashlib.sha256()
            h.update(open(path, "rb").read())
            h.update(hdr.encode())
            h.update(extra_key.encode())
            h.update(" ".join(fl).encode())
            if cxx != CXX:
                h.update(cxx.encode())
            o = os.path.join(objdir, os.path.basename(path)[:-4] + "-" + h.hexdigest()[:16] + ".o")
            if not os.path.exists(o) and not any(j[-1] == o + ".tmp" for j in jobs):
                jobs.append([cxx] + fl + ["-c", path, "-o", o + ".tmp"])
            else:
                if os.path.exists(o):
                    os.utime(o, None)
            return o

        need_core = any(TARGETS[t][2] for t in targets)
        if need_core:
            for src in CORE:
                core_objs.append(obj_for(os.path.join(REPO, "src", src), flags + inc))
        result = {}
        links = []
        for t in targets:
            srcs, extra, link_core = TARGETS[t]
            tobjs = []
            for s in srcs:
                sflags = flags
                if s == "sched.cpp":  # the scheduler TU is never instrumented
                    sflags = COMMON + ["-O2"]
                tobjs.append(obj_for(os.path.join(HARNESS, s), sflags + extra + inc + ["-I" + HARNESS], hhdr + (_hash_repo_cpp("bloch/update/update_manager.cpp") if t == "upd_mc" else "")))
            allobjs = tobjs + (core_objs if link_core else [])
            hh = hashlib.sha256(" ".join(allobjs + flags).encode()).hexdigest()[:16]
            exe = os.path.join(exedir, "%s-%s" % (t, hh))
            result[t] = exe
            if not os.path.exists(exe):
                links.append((exe, allobjs))
            else:
                os.utime(exe, None)
        if jobs:
            t0 = time.time()
            with ThreadPoolExecutor(max_workers=16) as ex:
                list(ex.map(lambda c: _sh(c, None), jobs))
            for c in jobs:
                os.rename(c[-1], c[-1][:-4])
            sys.stderr.write("[vbuild] %s: compiled %d TUs in %.1fs\n" % (variant, len(jobs), time.time() - t0))
        for exe, allobjs in links:
            cmd = [cxx] + flags + allobjs + ["-o", exe + ".tmp"] + (["-lcrypto"] if "upd_mc" in exe else []) + (["-rdynamic", "-ldl"] if "gcthread_mc" in exe else [])
            _sh(cmd, None)
            os.rename(exe + ".tmp", exe)
        # prune: keep the 60 most recently used objects / 40 executables per variant
        for d, keep in ((objdir, 80), (exedir, 40)):
            fs = [os.path.join(d, f) for f in os.listdir(d) if not f.endswith(".tmp")]
            fs.sort(key=lambda q: os.path.getmtime(q), reverse=True)
            for q in fs[keep:]:
                try:
                    os.remove(q)
                except OSError:
                    pass
        return result
    finally:
        fcntl.flock(lock, fcntl.LOCK_UN)
        lock.close()


if __name__ == "__main__":
    v = sys.argv[1]
    r = ensure(v, sys.argv[2:])
    for k, p in r.items():
        print(k, p)
