"""Independent reference state-vector simulator + strict OpenQASM 2.0 reader (pure Python, n <= ~8).
Little endian: qubit k is bit k of the basis index."""
import cmath, math, re, struct


def f32(x):
    """value a C++ std::stof of this literal would produce (then widened to double)"""
    return struct.unpack("f", struct.pack("f", float(x)))[0]


def zero_state(n):
    s = [0j] * (1 << n)
    s[0] = 1 + 0j
    return s


def matrix(g, t=0.0):
    r = 1 / math.sqrt(2)
    c, s = math.cos(t / 2), math.sin(t / 2)
    return {
        "h": ((r, r), (r, -r)),
        "x": ((0, 1), (1, 0)),
        "y": ((0, -1j), (1j, 0)),
        "z": ((1, 0), (0, -1)),
        "rx": ((c, -1j * s), (-1j * s, c)),
        "ry": ((c, -s), (s, c)),
        "rz": ((cmath.exp(-1j * t / 2), 0), (0, cmath.exp(1j * t / 2))),
    }[g]


def apply1(st, k, u):
    out = list(st)
    bit = 1 << k
    for i in range(len(st)):
        if not i & bit:
            a, b = st[i], st[i | bit]
            out[i] = u[0][0] * a + u[0][1] * b
            out[i | bit] = u[1][0] * a + u[1][1] * b
    return out


def cx(st, c, t):
    out = list(st)
    for i in range(len(st)):
        if (i >> c) & 1:
            out[i] = st[i ^ (1 << t)]
    return out


def alloc(st):
    return list(st) + [0j] * len(st)


def p1(st, k):
    return sum(abs(a) ** 2 for i, a in enumerate(st) if (i >> k) & 1)


def project(st, k, outcome):
    out = [a if ((i >> k) & 1) == outcome else 0j for i, a in enumerate(st)]
    w = sum(abs(a) ** 2 for a in out)
    if w == 0:
        return None, 0.0
    s = 1 / math.sqrt(w)
    return [a * s for a in out], w


def reset_branch(st, k, outcome):
    """reset = discarded measurement with the given outcome, then flip to |0>"""
    pr, w = project(st, k, outcome)
    if pr is None:
        return None, 0.0
    if outcome == 1:
        pr = apply1(pr, k, matrix("x"))
    return pr, w


def gate(st, g, a, b=-1, t=0.0):
    if g == "cx":
        return cx(st, a, b)
    return apply1(st, a, matrix(g, t))


def dist_up_to_phase(a, b):
    """min over global phase of max |a_i - e^{i phi} b_i|, with the phase fixed by the largest component of b"""
    if len(a) != len(b):
        return float("inf")
    j = max(range(len(b)), key=lambda i: abs(b[i]))
    if abs(b[j]) < 1e-300 or abs(a[j]) < 1e-300:
        ph = 1
    else:
        ph = (a[j] / b[j])
        ph = ph / abs(ph)
    return max(abs(x - ph * y) for x, y in zip(a, b))


def amps_from_json(lst):
    out = []
    for re_, im in lst:
        out.append(complex(float("nan") if isinstance(re_, str) else re_, float("nan") if isinstance(im, str) else im))
    return out


# ---- strict OpenQASM 2.0 reader for what Bloch emits -----------------------------------------
_HDR = 'OPENQASM 2.0;\ninclude "qelib1.inc";\n'
_NUM = r"[-+]?(?:\d+\.\d*|\d*\.\d+|\d+)(?:[eE][-+]?\d+)?"


class QasmError(Exception):
    pass


def parse_qasm(text):
    """returns (n, [ops]) where op = (name, a, b, theta); raises QasmError if not well formed"""
    if not text.startswith(_HDR):
        raise QasmError("bad header")
    lines = text[len(_HDR):].split("\n")
    if lines and lines[-1] == "":
        lines.pop()
    else:
        raise QasmError("text does not end with a newline")
    if len(lines) < 2:
        raise QasmError("missing register declarations")
    m = re.fullmatch(r"qreg q\[(\d+)\];", lines[0])
    m2 = re.fullmatch(r"creg c\[(\d+)\];", lines[1])
    if not m or not m2:
        raise QasmError("bad qreg/creg lines: %r %r" % (lines[0], lines[1]))
    n = int(m.group(1))
    if int(m2.group(1)) != n:
        raise QasmError("creg size differs from qreg size")
    ops = []
    for ln in lines[2:]:
        mm = re.fullmatch(r"(h|x|y|z) q\[(\d+)\];", ln)
        if mm:
            ops.append((mm.group(1), int(mm.group(2)), -1, 0.0))
            continue
        mm = re.fullmatch(r"(rx|ry|rz)\((%s)\) q\[(\d+)\];" % _NUM, ln)
        if mm:
            th = float(mm.group(2))
            if not math.isfinite(th):
                raise QasmError("non-finite angle")
            ops.append((mm.group(1), int(mm.group(3)), -1, th))
            continue
        mm = re.fullmatch(r"cx q\[(\d+)\],q\[(\d+)\];", ln)
        if mm:
            a, b = int(mm.group(1)), int(mm.group(2))
            if a == b:
                raise QasmError("cx on identical qubits: %r" % ln)
            ops.append(("cx", a, b, 0.0))
            continue
        mm = re.fullmatch(r"measure q\[(\d+)\] -> c\[(\d+)\];", ln)
        if mm:
            if mm.group(1) != mm.group(2):
                raise QasmError("measure into a different classical bit: %r" % ln)
            ops.append(("measure", int(mm.group(1)), -1, 0.0))
            continue
        mm = re.fullmatch(r"reset q\[(\d+)\];", ln)
        if mm:
            ops.append(("reset", int(mm.group(1)), -1, 0.0))
            continue
        raise QasmError("unrecognised statement: %r" % ln)
    for op in ops:
        for idx in (op[1], op[2]):
            if idx >= n:
                raise QasmError("operand index %d out of range for q[%d]" % (idx, n))
    return n, ops


def replay_qasm(n, ops, outcomes):
    """replay with forced outcomes (list consumed by measure and reset in order); returns final state or raises"""
    st = zero_state(n)
    k = 0
    for name, a, b, th in ops:
        if name in ("measure", "reset"):
            if k >= len(outcomes):
                raise QasmError("more measure/reset statements than recorded outcomes")
            o = outcomes[k]
            k += 1
            st2, w = (project if name == "measure" else reset_branch)(st, a, o)
            if st2 is None and name == "reset":
                # the discarded outcome of a reset is not observable: a draw at the very edge of [0,1) may name the empty branch
                st2, w = reset_branch(st, a, 1 - o)
            if st2 is None:
                raise QasmError("recorded outcome %d of %s q[%d] is impossible in the replayed state" % (o, name, a))
            st = st2
        else:
            st = gate(st, name, a, b, th)
    if k != len(outcomes):
        raise QasmError("fewer measure/reset statements (%d) than recorded outcomes (%d)" % (k, len(outcomes)))
    return st
