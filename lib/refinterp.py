"""Reference interpreter for the documented classical core of Bloch, written from docs/language/language-guide.md,
docs/casting.md, docs/language/semantics.md and the text of property C07. It runs a Python-side AST (the same AST is rendered
to Bloch source for the implementation). Anything the documentation does not fix raises Unspecified, and the generator drops
such programs.

Values are (type, payload): int long float bit boolean string char, arrays as ('int[]', list) etc."""
import math

INT_MIN, INT_MAX = -2**31, 2**31 - 1
LONG_MIN, LONG_MAX = -2**63, 2**63 - 1


class RuntimeErr(Exception):
    """a documented runtime error (division/modulo by zero, index out of bounds)"""


class Unspecified(Exception):
    """behaviour the documentation does not fix (overflow, shifts of sign conventions, ...)"""


class StepLimit(Exception):
    pass


class _Return(Exception):
    def __init__(self, v):
        self.v = v


NUM = ("int", "long", "float")


def promote(a, b):
    if a == "float" or b == "float":
        return "float"
    if a == "long" or b == "long":
        return "long"
    return "int"


def check_range(t, v):
    if t == "int" and not INT_MIN <= v <= INT_MAX:
        raise Unspecified("int overflow")
    if t == "long" and not LONG_MIN <= v <= LONG_MAX:
        raise Unspecified("long overflow")
    return v


def default_value(t):
    if t.endswith("]"):
        raise ValueError(t)
    return {"int": ("int", 0), "long": ("long", 0), "float": ("float", 0.0), "bit": ("bit", 0), "boolean": ("boolean", False), "string": ("string", ""), "char": ("char", "\0")}[t]


def fmt(v):
    """echo / concatenation text of a value"""
    t, p = v
    if t in ("int", "long", "bit"):
        return str(p)
    if t == "boolean":
        return "true" if p else "false"
    if t == "string":
        return p
    if t == "float":
        return repr(float(p))       # compared numerically by the oracle, never as text
    if t == "char":
        raise Unspecified("text of a char value")
    if t.endswith("[]"):
        return "{" + ", ".join(fmt((t[:-2], x)) for x in p) + "}"
    raise Unspecified("text of " + t)


class Interp:
    def __init__(self, functions, step_limit=20000):
        self.fn = {f[0]: f for f in functions}
        self.out = []          # list of (type, text) echoed
        self.steps = 0
        self.limit = step_limit
        self.depth = 0

    def tick(self):
        self.steps += 1
        if self.steps > self.limit:
            raise StepLimit()

    # ---- expressions ---------------------------------------------------------------------------------------------------------
    def ev(self, e, env):
        self.tick()
        k = e[0]
        if k == "lit":
            return (e[1], e[2])
        if k == "var":
            return self.lookup(env, e[1])
        if k == "paren":
            return self.ev(e[1], env)
        if k == "un":
            op, v = e[1], self.ev(e[2], env)
            t, p = v
            if op == "-":
                if t not in NUM:
                    raise Unspecified("unary minus on " + t)
                return (t, check_range(t, -p))
            if op == "!":
                if t != "boolean":
                    raise Unspecified("! on " + t)
                return ("boolean", not p)
            if op == "~":
                if t == "bit":
                    return ("bit", 1 - p)
                if t == "bit[]":
                    return ("bit[]", [1 - x for x in p])
                raise Unspecified("~ on " + t)
        if k == "cast":
            tt, v = e[1], self.ev(e[2], env)
            t, p = v
            if tt == "int":
                if t in ("int", "bit"):
                    return ("int", int(p))
                if t == "long":
                    return ("int", check_range("int", p))
                if t == "float":
                    if not math.isfinite(p):
                        raise Unspecified("cast of non-finite float")
                    return ("int", check_range("int", math.trunc(p)))
            if tt == "long":
                if t in ("int", "bit", "long"):
                    return ("long", int(p))
                if t == "float":
                    return ("long", check_range("long", math.trunc(p)))
            if tt == "float":
                if t in ("int", "long", "bit"):
                    if abs(p) > 2**53:
                        raise Unspecified("precision")
                    return ("float", float(p))
                if t == "float":
                    return v
            if tt == "bit":
                if t in ("int", "long", "float", "bit"):
                    return ("bit", 1 if p != 0 else 0)
            raise Unspecified("cast %s -> %s" % (t, tt))
        if k == "idx":
            arr = self.lookup(env, e[1])
            i = self.ev(e[2], env)
            if i[0] not in ("int", "long", "bit"):
                raise Unspecified("index type")
            n = len(arr[1])
            if not 0 <= i[1] < n:
                raise RuntimeErr("index %d out of bounds for length %d" % (i[1], n))
            return (arr[0][:-2], arr[1][i[1]])
        if k in ("pcall", "pidx"):
            return self.ev(({"pcall": "call", "pidx": "idx"}[k],) + tuple(e[1:]), env)      # '(f)(x)', '(a)[i]': grouping parentheses name the same thing
        if k == "call":
            args = [self.ev(a, env) for a in e[2]]
            return self.call(e[1], args)
        if k == "post":
            cur = self.lookup(env, e[2])
            if cur[0] != "int":
                raise Unspecified("postfix on " + cur[0])
            new = ("int", check_range("int", cur[1] + (1 if e[1] == "++" else -1)))
            self.assign(env, e[2], new)
            return cur
        if k == "assignx":
            # the value of 'x = v' is x afterwards: it has the declared type of the slot (the analyser types '(x = 1) * y' with 'long x'
            # as long arithmetic), so an int stored in a long is a long
            v = self.coerce(self.lookup(env, e[1])[0], self.ev(e[2], env))
            self.assign(env, e[1], v)
            return v
        if k == "aassignx":
            # value of 'a[i] = v' is the element assigned (syntax.md: '=' is right-associative in expressions). Arrays are values held by
            # the variable: whatever i and v do to the array while they are evaluated ('a[0] = (a[2] = 7)') is kept
            i = self.ev(e[2], env)
            v = self.ev(e[3], env)
            arr = self.lookup(env, e[1])
            if not 0 <= i[1] < len(arr[1]):
                raise RuntimeErr("index out of bounds")
            elem = self.coerce(arr[0][:-2], v)
            new = list(arr[1])
            new[i[1]] = elem[1]
            self.assign(env, e[1], (arr[0], new))
            return elem
        if k == "arrlit":
            vals = [self.ev(x, env) for x in e[2]]
            return (e[1], [self.coerce(e[1][:-2], v)[1] for v in vals])
        if k == "bin":
            op = e[1]
            l = self.ev(e[2], env)
            r = self.ev(e[3], env)
            return self.binop(op, l, r)
        raise ValueError(e)

    def binop(self, op, l, r):
        lt, lp = l
        rt, rp = r
        if op == "+" and (lt == "string" or rt == "string"):
            if lt in ("float", "char") or rt in ("float", "char"):
                raise Unspecified("float/char in concatenation (the guide fixes the text of neither)")
            # booleans print as true/false (language guide, echo) and '+' with a string concatenates whatever echo can print
            return ("string", fmt(l) + fmt(r))
        if op in ("+", "-", "*"):
            if lt not in NUM or rt not in NUM:
                raise Unspecified("arithmetic on %s,%s" % (lt, rt))
            t = promote(lt, rt)
            v = lp + rp if op == "+" else lp - rp if op == "-" else lp * rp
            if t == "float":
                v = float(v)
                if not math.isfinite(v):
                    raise Unspecified("float overflow")
                return ("float", v)
            return (t, check_range(t, v))
        if op == "/":
            if lt not in NUM or rt not in NUM:
                raise Unspecified("division on %s,%s" % (lt, rt))
            if rp == 0:
                if rt == "float":
                    raise Unspecified("float division by zero")
                raise RuntimeErr("division by zero")
            return ("float", float(lp) / float(rp))
        if op == "%":
            if lt not in ("int", "long") or rt not in ("int", "long"):
                raise Unspecified("% on non-integers")
            if rp == 0:
                raise RuntimeErr("modulo by zero")
            if lp < 0 or rp < 0:
                raise Unspecified("sign of % with negative operands")
            return (promote(lt, rt), lp % rp)
        if op in ("<", "<=", ">", ">="):
            if lt not in NUM or rt not in NUM:
                raise Unspecified("ordering on %s,%s" % (lt, rt))
            return ("boolean", {"<": lp < rp, "<=": lp <= rp, ">": lp > rp, ">=": lp >= rp}[op])
        if op in ("==", "!="):
            if lt in NUM and rt in NUM:
                eq = lp == rp
            elif lt == rt and lt in ("boolean", "string", "char", "bit"):
                eq = lp == rp
            else:
                raise Unspecified("equality on %s,%s" % (lt, rt))
            return ("boolean", eq if op == "==" else not eq)
        if op in ("&&", "||"):
            if lt != "boolean" or rt != "boolean":
                raise Unspecified("logical operator on %s,%s" % (lt, rt))
            return ("boolean", (lp and rp) if op == "&&" else (lp or rp))
        if op in ("&", "|", "^"):
            f = {"&": lambda a, b: a & b, "|": lambda a, b: a | b, "^": lambda a, b: a ^ b}[op]
            if lt == "bit" and rt == "bit":
                return ("bit", f(lp, rp))
            if lt == "bit[]" and rt == "bit[]":
                if len(lp) != len(rp):
                    raise Unspecified("bit[] length mismatch")
                return ("bit[]", [f(a, b) for a, b in zip(lp, rp)])
            raise Unspecified("bitwise on %s,%s" % (lt, rt))
        raise ValueError(op)

    # ---- environment ---------------------------------------------------------------------------------------------------------
    def lookup(self, env, name):
        for sc in reversed(env):
            if name in sc:
                return sc[name]
        raise Unspecified("unbound " + name)

    def assign(self, env, name, v):
        for sc in reversed(env):
            if name in sc:
                sc[name] = v
                return
        raise Unspecified("unbound " + name)

    def coerce(self, t, v):
        """value of declared type t from v (same type, int -> long widening, documented array element conversions)"""
        vt, p = v
        if vt == t:
            return (t, list(p) if t.endswith("[]") else p)
        if t == "long" and vt == "int":
            return ("long", p)
        raise Unspecified("assign %s to %s" % (vt, t))

    def truth(self, v):
        if v[0] == "boolean":
            return v[1]
        if v[0] == "bit":
            return v[1] != 0
        raise Unspecified("condition of type " + v[0])

    # ---- statements ---------------------------------------------------------------------------------------------------------
    def ex(self, s, env):
        self.tick()
        k = s[0]
        if k == "decl":
            t, name, init = s[1], s[2], s[3]
            if init is None:
                if "[" in t:
                    base, n = t[:t.index("[")], int(t[t.index("[") + 1:-1])
                    env[-1][name] = (base + "[]", [default_value(base)[1]] * n)
                else:
                    env[-1][name] = default_value(t)
            else:
                v = self.ev(init, env)
                tt = t if "[" not in t else t[:t.index("[")] + "[]"
                env[-1][name] = self.coerce(tt, v)
        elif k in ("passign", "paassign"):
            self.ex(({"passign": "assign", "paassign": "aassign"}[k],) + tuple(s[1:]), env)      # '(x) = v', '(a)[i] = v'
            return
        elif k == "assign":
            v = self.ev(s[2], env)
            self.assign(env, s[1], self.coerce(self.lookup(env, s[1])[0], v))
        elif k == "aassign":
            i = self.ev(s[2], env)
            v = self.ev(s[3], env)
            arr = self.lookup(env, s[1])
            if not 0 <= i[1] < len(arr[1]):
                raise RuntimeErr("index out of bounds")
            elem = self.coerce(arr[0][:-2], v)
            new = list(arr[1])
            new[i[1]] = elem[1]
            self.assign(env, s[1], (arr[0], new))
        elif k == "echo":
            v = self.ev(s[1], env)
            self.out.append((v[0], fmt(v)))
        elif k == "expr":
            self.ev(s[1], env)
        elif k == "block":
            self.block(s[1], env)
        elif k == "if":
            if self.truth(self.ev(s[1], env)):
                self.block(s[2], env)
            elif s[3] is not None:
                self.block(s[3], env)
        elif k == "while":
            while self.truth(self.ev(s[1], env)):
                self.block(s[2], env)
        elif k == "for":
            env.append({})
            try:
                if s[1] is not None:
                    self.ex(s[1], env)
                while self.truth(self.ev(s[2], env)):
                    self.block(s[4], env)
                    self.ev(s[3], env)
            finally:
                env.pop()
        elif k == "tern":
            if self.truth(self.ev(s[1], env)):
                self.ex(s[2], env)
            else:
                self.ex(s[3], env)
        elif k == "ret":
            raise _Return(self.ev(s[1], env) if s[1] is not None else None)
        else:
            raise ValueError(s)

    def block(self, stmts, env):
        env.append({})
        try:
            for st in stmts:
                self.ex(st, env)
        finally:
            env.pop()

    def call(self, name, args):
        f = self.fn[name]
        _, params, ret, body = f
        self.depth += 1
        if self.depth > 150:
            raise Unspecified("recursion depth")
        scope = {}
        for (t, n), a in zip(params, args):
            tt = t if "[" not in t else t[:t.index("[")] + "[]"
            scope[n] = self.coerce(tt, a)       # arrays are copied: value semantics
        env = [scope]                           # lexical scoping: a callee sees only its own names
        try:
            for st in body:
                self.ex(st, env)
            result = None
        except _Return as r:
            result = r.v
        finally:
            self.depth -= 1
        if ret == "void":
            return ("void", None)
        if result is None:
            raise Unspecified("non-void function fell off its end")
        return self.coerce(ret, result)

    def run(self):
        self.call("main", [])
        return self.out


# ---- rendering -----------------------------------------------------------------------------------------------------------------
def lit_src(t, p):
    if t == "int":
        return str(p) if p >= 0 else "(0 - %d)" % -p
    if t == "long":
        return "%dL" % p if p >= 0 else "(0L - %dL)" % -p
    if t == "float":
        s = repr(float(abs(p)))
        if "e" in s or "inf" in s or "nan" in s:
            raise Unspecified("float literal spelling")
        return (s + "f") if p >= 0 else "(0.0f - %sf)" % s
    if t == "bit":
        return "%db" % p
    if t == "boolean":
        return "true" if p else "false"
    if t == "string":
        return '"%s"' % p
    if t == "char":
        return "'%s'" % p
    raise ValueError(t)


def ex_src(e):
    k = e[0]
    if k == "lit":
        return lit_src(e[1], e[2])
    if k == "var":
        return e[1]
    if k == "paren":
        return "(" + ex_src(e[1]) + ")"
    if k == "un":
        return "(%s %s)" % (e[1], ex_src(e[2]))
    if k == "cast":
        return "((%s) %s)" % (e[1], ex_src(e[2]))
    if k == "idx":
        return "%s[%s]" % (e[1], ex_src(e[2]))
    if k == "pcall":
        return "(%s)(%s)" % (e[1], ", ".join(ex_src(a) for a in e[2]))
    if k == "pidx":
        return "(%s)[%s]" % (e[1], ex_src(e[2]))
    if k == "call":
        return "%s(%s)" % (e[1], ", ".join(ex_src(a) for a in e[2]))
    if k == "post":
        return "%s%s" % (e[2], e[1])
    if k == "assignx":
        return "(%s = %s)" % (e[1], ex_src(e[2]))
    if k == "aassignx":
        body = "%s[%s] = %s" % (e[1], ex_src(e[2]), ex_src(e[3]))
        return "(%s)" % body if (len(e) < 5 or e[4]) else body
    if k == "arrlit":
        return "{" + ", ".join(ex_src(x) for x in e[2]) + "}"
    if k == "bin":
        return "(%s %s %s)" % (ex_src(e[2]), e[1], ex_src(e[3]))
    raise ValueError(e)


def st_src(s, ind="    "):
    k = s[0]
    if k == "decl":
        t = s[1]
        return "%s%s %s%s;" % (ind, t, s[2], (" = " + ex_src(s[3])) if s[3] is not None else "")
    if k == "passign":
        return "%s(%s) = %s;" % (ind, s[1], ex_src(s[2]))
    if k == "paassign":
        return "%s(%s)[%s] = %s;" % (ind, s[1], ex_src(s[2]), ex_src(s[3]))
    if k == "assign":
        return "%s%s = %s;" % (ind, s[1], ex_src(s[2]))
    if k == "aassign":
        return "%s%s[%s] = %s;" % (ind, s[1], ex_src(s[2]), ex_src(s[3]))
    if k == "echo":
        return "%secho(%s);" % (ind, ex_src(s[1]))
    if k == "expr":
        return "%s%s;" % (ind, ex_src(s[1]))
    if k == "block":
        return "%s{\n%s\n%s}" % (ind, "\n".join(st_src(x, ind + "    ") for x in s[1]), ind)
    if k == "if":
        r = "%sif (%s) {\n%s\n%s}" % (ind, ex_src(s[1]), "\n".join(st_src(x, ind + "    ") for x in s[2]), ind)
        if s[3] is not None:
            r += " else {\n%s\n%s}" % ("\n".join(st_src(x, ind + "    ") for x in s[3]), ind)
        return r
    if k == "while":
        return "%swhile (%s) {\n%s\n%s}" % (ind, ex_src(s[1]), "\n".join(st_src(x, ind + "    ") for x in s[2]), ind)
    if k == "for":
        init = st_src(s[1], "").strip() if s[1] is not None else ";"
        return "%sfor (%s %s; %s) {\n%s\n%s}" % (ind, init, ex_src(s[2]), ex_src(s[3]), "\n".join(st_src(x, ind + "    ") for x in s[4]), ind)
    if k == "tern":
        return "%s%s ? %s : %s" % (ind, ex_src(s[1]), st_src(s[2], "").strip(), st_src(s[3], "").strip())
    if k == "ret":
        return "%sreturn%s;" % (ind, (" " + ex_src(s[1])) if s[1] is not None else "")
    raise ValueError(s)


def fn_src(f):
    name, params, ret, body = f
    return "function %s(%s) -> %s {\n%s\n}\n" % (name, ", ".join("%s %s" % (t if "[" not in t else t[:t.index("[")] + "[]", n) for t, n in params), ret, "\n".join(st_src(s) for s in body))


def program_src(functions):
    return "\n".join(fn_src(f) for f in functions)


def compare_output(expected, stdout):
    """expected: list of (type, text) ; stdout: raw text. Returns problem string or None."""
    lines = stdout.split("\n")
    if lines and lines[-1] == "":
        lines.pop()
    if len(lines) != len(expected):
        return "echoed %d lines, reference echoes %d: got %r, reference %r" % (len(lines), len(expected), lines[:12], [t for _, t in expected][:12])
    for i, ((t, want), got) in enumerate(zip(expected, lines)):
        if t == "float":
            try:
                g = float(got)
            except ValueError:
                return "echo #%d: %r is not a number, reference value %s" % (i, got, want)
            w = float(want)
            if not (abs(g - w) <= 1e-5 * max(1e-30, abs(w)) or abs(g - w) <= 1e-12):
                return "echo #%d: got %r, reference value %s" % (i, got, want)
        elif t.endswith("[]"):
            if t == "float[]":
                continue
            if got.replace(" ", "") != want.replace(" ", ""):
                return "echo #%d: got %r, reference %r" % (i, got, want)
        elif got != want:
            return "echo #%d: got %r, reference %r (%s)" % (i, got, want, t)
    return None
