"""Check bookkeeping: violations, known findings, replay files, evidence."""
import json, os, re, sys, time

VERIF = os.path.dirname(os.path.dirname(os.path.abspath(__file__)))
REPLAYS = os.path.join(VERIF, "build", "replays")
FINDINGS = os.path.join(VERIF, "known_findings.jsonl")


def load_findings(pid):
    out = []
    if os.path.exists(FINDINGS):
        for ln in open(FINDINGS):
            ln = ln.strip()
            if not ln or ln.startswith("#"):
                continue
            d = json.loads(ln)
            if d.get("property") == pid and d.get("status", "open") == "open":
                out.append(d)
    return out


class Check:
    def __init__(self, pid, level, tier=None):
        self.pid = pid
        self.level = level
        self.tier = tier or os.environ.get("VERIF_TIER", "quick")
        self.seed = int(os.environ.get("VERIF_SEED", "0") or 0)
        self.t0 = time.time()
        self.violations = 0
        self.known_hits = {}
        self._seen_keys = {}
        self.findings = load_findings(pid)
        self.cov = {}
        self.samples = []
        self.assumptions = []
        self.notes = []
        self.caps = []
        self.deadline = None
        self.max_violation_reports = int(os.environ.get("VERIF_MAX_REPORTS", "25"))
        os.makedirs(REPLAYS, exist_ok=True)
        # stale replays of this property are removed at the start of a run
        for f in os.listdir(REPLAYS):
            if f.startswith(pid + "-"):
                try:
                    os.remove(os.path.join(REPLAYS, f))
                except OSError:
                    pass

    # -- time budget -------------------------------------------------------------------------
    def set_deadline(self, seconds):
        self.deadline = self.t0 + seconds

    def out_of_time(self):
        return self.deadline is not None and time.time() > self.deadline

    def cap(self, what):
        if what not in self.caps:
            self.caps.append(what)
            print("[%s] CAP: %s" % (self.pid, what), flush=True)

    # -- samples --------------------------------------------------------------------------------
    def sample(self, s, limit=6):
        if len(self.samples) < limit:
            self.samples.append(s)

    def note(self, s):
        if s not in self.notes and len(self.notes) < 50:
            self.notes.append(s)

    # -- violations ----------------------------------------------------------------------------
    def _match_finding(self, key):
        for f in self.findings:
            if "key" in f and f["key"] == key:
                return f
            if "key_re" in f and re.fullmatch(f["key_re"], key, re.S):
                return f
        return None

    def violation(self, key, what, replay):
        """key: canonical, specific identification of the failing case (used for known findings).
        what: human description. replay: json-serialisable description sufficient to re-run the case."""
        f = self._match_finding(key)
        if f is not None:
            fid = f.get("id") or f.get("key") or f.get("key_re")
            if fid not in self.known_hits:
                self.known_hits[fid] = 0
                print("KNOWN-FINDING: property=%s %s" % (self.pid, f.get("what", fid)), flush=True)
            self.known_hits[fid] += 1
            return False
        if key in self._seen_keys:
            self._seen_keys[key] += 1
            return True
        self._seen_keys[key] = 1
        self.violations += 1
        if self.violations <= self.max_violation_reports:
            path = os.path.join(REPLAYS, "%s-%d.json" % (self.pid, self.violations))
            with open(path, "w") as fh:
                json.dump({"property": self.pid, "key": key, "what": what, "replay": replay}, fh, indent=1, default=str)
            print("VIOLATION property=%s replay=%s" % (self.pid, path), flush=True)
            print("  key: %s" % key[:400], flush=True)
            print("  what: %s" % what[:1200], flush=True)
        return True

    def harness_error(self, msg):
        print("[%s] HARNESS ERROR: %s" % (self.pid, msg), flush=True)
        sys.exit(3)

    # -- finish ----------------------------------------------------------------------------------
    def finish(self, coverage, exhaustive=True):
        cov = dict(coverage)
        cov.setdefault("samples", self.samples or ["(no sample recorded)"])
        if self.caps:
            exhaustive = False
            cov["caps_hit"] = self.caps
        cov["exhaustive"] = bool(exhaustive)
        if self.notes:
            cov["notes"] = self.notes
        if self.known_hits:
            cov["known_findings_hit"] = self.known_hits
        ev = {
            "property_id": self.pid,
            "tier": self.tier if self.tier in ("quick", "thorough") else "quick",
            "seed": self.seed,
            "level": self.level,
            "coverage": cov,
            "assumptions": self.assumptions,
            "wall_s": round(time.time() - self.t0, 2),
            "violations": self.violations,
        }
        evdir = os.environ.get("VERIF_EVIDENCE_DIR") or os.path.join(VERIF, "evidence")   # seeded-change runs write elsewhere
        os.makedirs(evdir, exist_ok=True)
        tmp = os.path.join(evdir, self.pid + ".json.tmp")
        with open(tmp, "w") as fh:
            json.dump(ev, fh, indent=1, default=str)
        os.rename(tmp, os.path.join(evdir, self.pid + ".json"))
        brief = {k: v for k, v in cov.items() if k not in ("samples", "notes")}
        print("[%s] tier=%s wall=%.1fs violations=%d coverage=%s" % (self.pid, self.tier, ev["wall_s"], self.violations, json.dumps(brief, default=str)[:1500]), flush=True)
        sys.exit(1 if self.violations else 0)
