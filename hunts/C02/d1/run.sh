#!/bin/sh
# IMPORTANT: cap the address space. Without the cap the interpreter tries to grow the state
# vector to 2^40 amplitudes and eats all RAM of the machine before it dies.
cd "$(dirname "$0")"
( ulimit -v 2000000; ../../_build/bin/bloch demo.bloch; echo "exit=$?" )
( ulimit -v 2000000; ../../_build/bin/bloch equivalent.bloch; echo "exit=$?" )
