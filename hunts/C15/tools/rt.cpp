#include "bloch/compiler/lexer/lexer.hpp"
#include <fstream>
#include <iostream>
#include <iterator>
#include <random>
#include <map>
using namespace bloch::compiler;
static std::string esc(const std::string&s){std::string o;for(unsigned char c:s){if(c=='\n')o+="\\n";else if(c=='\t')o+="\\t";else if(c=='\r')o+="\\r";else if(c<32||c>126){char b[8];snprintf(b,8,"\\x%02x",c);o+=b;}else o+=c;}return o;}
// returns "" if ok, else description
static std::string check(const std::string& src, bool dump=false){
  std::vector<Token> toks;
  try{ Lexer lx(src); toks=lx.tokenize(); }
  catch(const bloch::support::BlochError&e){ if(dump) std::cout<<"ERR "<<e.line<<":"<<e.column<<" "<<e.what()<<"\n"; return ""; }
  catch(const std::exception&e){ return std::string("raw exception ")+e.what(); }
  std::vector<size_t> ls{0}; for(size_t i=0;i<src.size();i++) if(src[i]=='\n') ls.push_back(i+1);
  size_t pos=0;
  for(auto&t:toks){
    if(dump) std::cout<<t.line<<":"<<t.column<<" ["<<esc(t.value)<<"] type="<<(int)t.type<<"\n";
    if(t.line<1||(size_t)t.line>ls.size()) return "line out of range for token ["+esc(t.value)+"]";
    size_t off=ls[t.line-1]+t.column-1;
    if(t.column<1) return "col<1";
    // off must be on that line
    size_t lineEnd = (size_t)t.line<ls.size()? ls[t.line]-1 : src.size();
    if(off>lineEnd) return "column past end of line for token ["+esc(t.value)+"] at "+std::to_string(t.line)+":"+std::to_string(t.column);
    if(off<pos) return "token overlaps/out of order ["+esc(t.value)+"] at "+std::to_string(t.line)+":"+std::to_string(t.column);
    // gap pos..off must be whitespace/comments
    size_t i=pos;
    while(i<off){
      unsigned char c=src[i];
      if(c==' '||c=='\t'||c=='\n'||c=='\r'||c=='\v'||c=='\f'){i++;continue;}
      if(c=='/'&&i+1<off&&src[i+1]=='/'){ while(i<off&&src[i]!='\n')i++; if(i>=off && off<src.size() && src[off-1]!='\n' && t.type!=TokenType::Eof) return "token inside comment ["+esc(t.value)+"]"; continue;}
      return "non-trivia lost in gap before ["+esc(t.value)+"] at "+std::to_string(t.line)+":"+std::to_string(t.column)+": '"+esc(src.substr(i,off-i))+"'";
    }
    if(src.compare(off,t.value.size(),t.value)!=0) return "text mismatch ["+esc(t.value)+"] at "+std::to_string(t.line)+":"+std::to_string(t.column)+" src has '"+esc(src.substr(off,t.value.size()))+"'";
    pos=off+t.value.size();
    if(t.type==TokenType::Eof && off!=src.size()) return "EOF not at end: "+std::to_string(t.line)+":"+std::to_string(t.column);
  }
  return "";
}
int main(int argc,char**argv){
  if(argc>1 && std::string(argv[1])!="--fuzz"){
    std::ifstream in(argv[1],std::ios::binary); std::string s((std::istreambuf_iterator<char>(in)),{});
    auto r=check(s,true); std::cout<<(r.empty()?"OK":"VIOLATION: "+r)<<"\n"; return r.empty()?0:1;
  }
  unsigned long n= argc>2? std::stoul(argv[2]):200000;
  std::mt19937 g(argc>3?std::stoul(argv[3]):1);
  std::vector<std::string> atoms={" ","\t","\n","\r","\r\n","\v","\f","//","/","*","\"","'","a","_","x1","0","1","9","12",".","f","b","L","1b","0b","2b","1.5f","3f","7L","1.","=","==","!","!=","+","++","-","--","->",">",">=","<","<=","&","&&","|","||","^","~","?",":",";",",","@","(",")","{","}","[","]","%","#","$","\\","`","\\n","\\\"","\\'","echo","int","é","\xff", std::string(1,'\0'),"\"s\"","'c'","'\n'","\"a\nb\"","// c\n","e","E","0x1F","1e5","1_000"};
  std::map<std::string,std::string> seen;
  for(unsigned long it=0;it<n;it++){
    int len=1+g()%8; std::string s; for(int k=0;k<len;k++) s+=atoms[g()%atoms.size()];
    auto r=check(s);
    if(!r.empty()){ std::string key=r.substr(0,25); if(!seen.count(key)){seen[key]=s; std::cout<<"SRC '"<<esc(s)<<"' -> "<<r<<"\n";} }
  }
  std::cout<<"distinct violation kinds: "<<seen.size()<<"\n";
}
