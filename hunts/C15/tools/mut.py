import subprocess,sys,re,random
B='/tmp/wt_C15h/_build/bin/bloch'; RT='/tmp/wt_C15h/HUNT/tools/rt'
src=open(sys.argv[1]).read()
def toks(s):
    open('mut_t.bloch','w').write(s)
    out=subprocess.run([RT,'mut_t.bloch'],capture_output=True).stdout.decode('latin-1')
    res=[]
    for ln in out.splitlines():
        m=re.match(r'(\d+):(\d+) \[(.*)\] type=(\d+)$',ln)
        if m: res.append((int(m[1]),int(m[2]),m[3]))
    return res,out
base,_=toks(src)
lines=src.split('\n')
def off(l,c): return sum(len(x)+1 for x in lines[:l-1])+c-1
import collections
bad=collections.Counter()
mode=sys.argv[2]
for idx,(l,c,txt) in enumerate(base[:-1]):
    o=off(l,c)
    raw=txt.replace('\\n','\n').replace('\\t','\t')
    assert src[o:o+len(raw)]==raw,(l,c,txt)
    if mode=='del': s=src[:o]+src[o+len(raw):]
    elif mode=='dup': s=src[:o]+raw+' '+src[o:]
    else: s=src[:o]+mode+src[o+len(raw):]
    t2,out=toks(s)
    starts={(a,b) for a,b,_ in t2}
    try: r=subprocess.run([B,'mut_t.bloch'],capture_output=True,timeout=5)
    except subprocess.TimeoutExpired: print('TIMEOUT',(l,c,txt)); continue
    o2=(r.stdout+r.stderr).decode('latin-1')
    for m in re.finditer(r'(\w+) error at Ln (\d+), Col (\d+): (.*?)\x1b',o2):
        p=(int(m[2]),int(m[3]))
        if p not in starts:
            key=(m[1],m[4][:40])
            if bad[key]==0: print('NONTOKEN POS',p,m[1],m[4],'| mutated token',(l,c,txt))
            bad[key]+=1
    if 'terminate' in o2 or 'what()' in o2 or r.returncode<0: print('CRASH',(l,c,txt),o2[:200])
print(bad)
