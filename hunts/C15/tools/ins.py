import subprocess,sys
B='/tmp/wt_C15h/_build/bin/bloch'
src=open(sys.argv[1]).read()
ins=sys.argv[2].encode().decode('unicode_escape')
acc=[]
for i in range(len(src)+1):
    s=src[:i]+ins+src[i:]
    open('ins_t.bloch','w',encoding='latin-1').write(s)
    r=subprocess.run([B,'ins_t.bloch'],capture_output=True,timeout=20)
    out=(r.stdout+r.stderr).decode('latin-1')
    if r.returncode==0 and 'rror' not in out:
        # determine if inside string/comment
        acc.append((i,repr(src[max(0,i-10):i]+'<<'+ins+'>>'+src[i:i+10])))
for a in acc: print(a)
print(len(acc),'accepted of',len(src)+1)
