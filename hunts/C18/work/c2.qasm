OPENQASM 2.0;
include "qelib1.inc";
qreg q[4];
creg c[4];
x q[2];
measure q[2] -> c[2];
x q[3];
measure q[3] -> c[3];
