#include <map>
#include <fstream>
#include <iostream>
#include <sstream>
#include "bloch/compiler/lexer/lexer.hpp"
#include "bloch/compiler/parser/parser.hpp"
#include "bloch/compiler/semantics/semantic_analyser.hpp"
#include "bloch/runtime/runtime_evaluator.hpp"
#include "bloch/support/error/bloch_error.hpp"
using namespace bloch::compiler; using namespace bloch::runtime;
static std::unique_ptr<Program> parse(const std::string& src){ Lexer l(src); auto t=l.tokenize(); Parser p(std::move(t)); return p.parse(); }
static std::string runOnce(Program& prog){
  std::ostringstream out; auto* old=std::cout.rdbuf(out.rdbuf());
  std::string res;
  try { RuntimeEvaluator ev; ev.execute(prog); 
    std::cout.rdbuf(old);
    res = out.str() + "--qasm--\n" + ev.getQasm() + "--tracked--\n";
    std::map<std::string,std::map<std::string,int>> tc;
    for (auto& a: ev.trackedCounts()) for (auto& b: a.second) tc[a.first][b.first]=b.second;
    for (auto& a: tc) for (auto& b: a.second) res += a.first+":"+b.first+"="+std::to_string(b.second)+"\n";
  } catch (const std::exception& e){ std::cout.rdbuf(old); res = out.str() + "EXC " + e.what(); }
  return res;
}
int main(int argc,char**argv){
  std::ifstream f(argv[1]); std::stringstream ss; ss<<f.rdbuf(); std::string src=ss.str();
  int K = argc>2? atoi(argv[2]):3;
  int mode = argc>3? atoi(argv[3]):1; // 1: analyse once; 2: analyse twice; 0: no analysis
  std::string fresh;
  try { auto p=parse(src); if(mode){SemanticAnalyser a; a.analyse(*p);} fresh=runOnce(*p);} catch(const std::exception&e){ fresh=std::string("EXC0 ")+e.what(); }
  std::cout<<"FRESH:\n"<<fresh<<"\n";
  try {
    auto p=parse(src);
    if(mode>=1){ SemanticAnalyser a; a.analyse(*p);} 
    if(mode>=2){ SemanticAnalyser a2; a2.analyse(*p);} 
    for(int i=0;i<K;i++){ auto r=runOnce(*p); if(r!=fresh){ std::cout<<"DIFF at execution "<<i<<":\n"<<r<<"\n"; } }
  } catch(const std::exception&e){ std::cout<<"EXC in repeated: "<<e.what()<<"\n"; }
  std::cout<<"done\n";
}
