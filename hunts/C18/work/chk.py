#!/usr/bin/env python3
# chk.py file.bloch [N]  : deterministic programs only. Compares N-shot run against N x fresh 1-shot run.
import subprocess, sys, re, os
B='/tmp/wt_C18h/_build/bin/bloch'
f=sys.argv[1]; N=int(sys.argv[2]) if len(sys.argv)>2 else 3
extra=sys.argv[3:]
def run(n):
    p=subprocess.run([B,f'--shots={n}','--echo=all',f]+extra,capture_output=True,text=True,timeout=120)
    q=open(f[:-6]+'.qasm').read() if os.path.exists(f[:-6]+'.qasm') else None
    return p.returncode,p.stdout,p.stderr,q
def split(out):
    m=re.search(r'^Shots: \d+\n',out,re.M)
    if not m: return out,None
    echo=out[:m.start()]
    rest=out[m.end():]
    rest=re.sub(r'Elapsed:.*\n','',rest)
    tables={}
    cur=None
    for line in rest.split('\n'):
        mm=re.match(r'^(\S.*?)\s*\|\s*(\d+)\s*\|\s*([\d.]+)$',line)
        if mm and cur: tables[cur][mm.group(1)]=int(mm.group(2))
        elif line and not line.startswith('outcome') and not line.startswith('-') and not line.startswith('Backend'):
            cur=line; tables[cur]={}
    return echo,tables
rc1,o1,e1,q1=run(1)
rcN,oN,eN,qN=run(N)
ec1,t1=split(o1); ecN,tN=split(oN)
ok=True
if rc1!=rcN: print('RC differs',rc1,rcN); ok=False
if ec1*N!=ecN: print('ECHO differs\n--single x1:\n'+ec1+'--multi:\n'+ecN); ok=False
if t1 is not None and tN is not None:
    exp={k:{o:c*N for o,c in v.items()} for k,v in t1.items()}
    if exp!=tN: print('TABLE differs',exp,tN); ok=False
elif (t1 is None)!=(tN is None): print('table presence differs'); ok=False
if q1!=qN: print('QASM differs\n--single:\n',q1,'--multi:\n',qN); ok=False
strip=lambda e: '\n'.join(l for l in e.split('\n') if 'will be deprecated' not in l)
if strip(e1)!=strip(eN): print('STDERR differs\n--single:\n'+strip(e1)+'\n--multi:\n'+strip(eN)); ok=False
print('OK' if ok else 'DIFF', f, 'rc',rc1, '| echo1:',repr(ec1[:200]), '| stderr1:', repr(strip(e1)[:300]))
