OPENQASM 2.0;
include "qelib1.inc";
qreg q[4];
creg c[4];
h q[0];
cx q[0],q[1];
rx(1.500000) q[2];
reset q[2];
