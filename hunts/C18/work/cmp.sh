#!/bin/bash
# usage: cmp.sh file.bloch N   -- compares N-shot run (echo=all) against N fresh --shots=1 runs
B=/tmp/wt_C18h/_build/bin/bloch
f=$1; N=${2:-3}
$B --shots=$N --echo=all $f > out_multi.txt 2> err_multi.txt; rc=$?
cp ${f%.bloch}.qasm qasm_multi.txt 2>/dev/null
: > out_single.txt; : > err_single.txt
for i in $(seq $N); do $B --shots=1 --echo=all $f >> out_single.txt 2>> err_single.txt; done
cp ${f%.bloch}.qasm qasm_single.txt 2>/dev/null
echo "== multi rc=$rc stdout"; grep -v "^Elapsed" out_multi.txt
echo "== multi stderr"; cat err_multi.txt
echo "== single stdout"; grep -v "^Elapsed" out_single.txt
echo "== single stderr (uniq)"; sort err_single.txt | uniq -c
cmp -s qasm_multi.txt qasm_single.txt || { echo "QASM DIFFERS"; diff qasm_multi.txt qasm_single.txt; }
