#!/bin/bash
# Shows that objects of earlier shots stay allocated for the rest of a multi-shot run.
B=/tmp/wt_C18h/_build/bin/bloch
cd "$(dirname "$0")"
for f in demo.bloch demo_qubit.bloch; do
  echo "### $f"
  for n in 1 10 40; do
    /usr/bin/time -f "shots=$n  max RSS = %M kB" $B --shots=$n $f 2>&1 >/dev/null | grep "max RSS"
  done
  echo "--- with 600 MB of address space: 60 fresh 1-shot runs, then one 60-shot run"
  ( ulimit -v 600000
    fails=0; for i in $(seq 60); do $B --shots=1 $f >/dev/null 2>&1 || fails=$((fails+1)); done
    echo "fresh runs that failed: $fails of 60"
    $B --shots=60 $f 2>&1 | grep -v "deprecated\|suppressing"; echo "exit code of the 60-shot run: ${PIPESTATUS[0]}" )
done
