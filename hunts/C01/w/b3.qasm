OPENQASM 2.0;
include "qelib1.inc";
qreg q[1];
creg c[1];
rx(3.142857) q[0];
ry(0.500000) q[0];
rz(1.500000) q[0];
rx(3.000000) q[0];
measure q[0] -> c[0];
