OPENQASM 2.0;
include "qelib1.inc";
qreg q[2];
creg c[2];
x q[0];
x q[1];
measure q[0] -> c[0];
measure q[1] -> c[1];
