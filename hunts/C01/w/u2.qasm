OPENQASM 2.0;
include "qelib1.inc";
qreg q[1];
creg c[1];
rx(0.000000) q[0];
ry(-0.000000) q[0];
rz(1234567.875000) q[0];
rx(3.141593) q[0];
measure q[0] -> c[0];
