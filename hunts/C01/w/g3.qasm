OPENQASM 2.0;
include "qelib1.inc";
qreg q[2];
creg c[2];
h q[0];
cx q[0],q[1];
measure q[0] -> c[0];
measure q[1] -> c[1];
