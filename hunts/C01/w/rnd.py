import random, cmath, math, subprocess, re
B="/tmp/wt_C01h/_build/bin/bloch"
def ap1(st,n,q,m):
    for i in range(len(st)):
        if not (i>>q)&1:
            j=i|(1<<q); a0,a1=st[i],st[j]
            st[i]=m[0]*a0+m[1]*a1; st[j]=m[2]*a0+m[3]*a1
def cx(st,c,t):
    for i in range(len(st)):
        if (i>>c)&1 and not (i>>t)&1:
            j=i|(1<<t); st[i],st[j]=st[j],st[i]
s2=1/math.sqrt(2)
def mat(g,t=0):
    c=math.cos(t/2); s=math.sin(t/2)
    return {'h':[s2,s2,s2,-s2],'x':[0,1,1,0],'y':[0,-1j,1j,0],'z':[1,0,0,-1],
     'rx':[c,-1j*s,-1j*s,c],'ry':[c,-s,s,c],'rz':[cmath.exp(-1j*t/2),0,0,cmath.exp(1j*t/2)]}[g]
random.seed(7)
worst=0
for trial in range(12):
    n=random.randint(2,6)
    st=[0j]*(1<<n); st[0]=1
    lines=[]
    for k in range(40):
        g=random.choice(['h','x','y','z','rx','ry','rz','cx','cx'])
        if g=='cx':
            c,t=random.sample(range(n),2); cx(st,c,t); lines.append(f"cx(q[{c}], q[{t}]);")
        elif g[0]=='r':
            q=random.randrange(n); t=round(random.uniform(-7,7),3)
            import struct
            tf=struct.unpack('f',struct.pack('f',t))[0]
            ap1(st,n,q,mat(g,tf)); lines.append(f"{g}(q[{q}], {t:.3f}f);" if t>=0 else f"{g}(q[{q}], -{-t:.3f}f);")
        else:
            q=random.randrange(n); ap1(st,n,q,mat(g)); lines.append(f"{g}(q[{q}]);")
    shots=6000
    src=f"@shots({shots})\nfunction main() -> void {{\n  @tracked qubit[{n}] q;\n  "+"\n  ".join(lines)+"\n  measure q;\n}\n"
    open("r.bloch","w").write(src)
    out=subprocess.run([B,"r.bloch"],capture_output=True,text=True).stdout
    counts={}
    for m in re.finditer(r"^([01]+)\s*\|\s*(\d+)",out,re.M): counts[m.group(1)]=int(m.group(2))
    chi=0
    for i in range(1<<n):
        key="".join(str((i>>k)&1) for k in range(n))  # q[0] first char
        p=abs(st[i])**2; o=counts.get(key,0)
        if p*shots>1e-9: chi+=(o-p*shots)**2/(p*shots)
        elif o>0: chi+=1e9
    print(trial,n,"chi2",round(chi,1),"dof",(1<<n)-1)
