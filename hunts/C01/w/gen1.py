import subprocess, itertools, sys, math
B="/tmp/wt_C01h/_build/bin/bloch"
def run(src, name="g.bloch", args=[]):
    open(name,"w").write(src)
    p=subprocess.run([B,name]+args,capture_output=True,text=True,timeout=120)
    return p.stdout, p.stderr, p.returncode
def prog(n, prep_bits, ops, expect):
    s="function main() -> void {\n  qubit[%d] q;\n"%n
    for i,b in enumerate(prep_bits):
        if b: s+="  x(q[%d]);\n"%i
    for o in ops: s+="  "+o+"\n"
    for i in range(n): s+="  bit b%d = measure q[%d];\n"%(i,i)
    s+="  echo(\"\""+"".join(" + b%d"%i for i in range(n))+");\n}\n"
    return s
fails=0
def check(n,bits,ops,exp,label):
    global fails
    out,err,rc=run(prog(n,bits,ops,exp))
    want="".join(str(b) for b in exp)
    if out.strip()!=want or rc!=0:
        fails+=1
        print("FAIL",label,n,bits,ops,"want",want,"got",repr(out),repr(err[:200]))
for n in range(1,6):
    for bits in itertools.product([0,1],repeat=n):
        bits=list(bits)
        for t in range(n):
            fl=bits[:]; fl[t]^=1
            check(n,bits,["x(q[%d]);"%t],fl,"x")
            check(n,bits,["y(q[%d]);"%t],fl,"y")
            check(n,bits,["z(q[%d]);"%t],bits,"z")
            check(n,bits,["h(q[%d]);"%t,"z(q[%d]);"%t,"h(q[%d]);"%t],fl,"hzh")
            check(n,bits,["h(q[%d]);"%t,"y(q[%d]);"%t,"h(q[%d]);"%t],fl,"hyh")
            check(n,bits,["h(q[%d]);"%t,"x(q[%d]);"%t,"h(q[%d]);"%t],bits,"hxh")
            check(n,bits,["rx(q[%d], 3.14159265f);"%t],fl,"rxpi")
            check(n,bits,["ry(q[%d], 3.14159265f);"%t],fl,"rypi")
            check(n,bits,["h(q[%d]);"%t,"rz(q[%d], 3.14159265f);"%t,"h(q[%d]);"%t],fl,"hrzh")
            # ry(pi/2) |0> = |+>, |1> -> -|0>+|1> = -|->  ; then h
            check(n,bits,["ry(q[%d], 1.57079632679f);"%t,"h(q[%d]);"%t],bits,"ryh")
            # rz(-pi/2) rx(t) rz(pi/2) == ry(t):  ops order: first rz(-pi/2)
            check(n,bits,["rz(q[%d], -1.57079632679f);"%t,"rx(q[%d], 0.7f);"%t,"rz(q[%d], 1.57079632679f);"%t,"ry(q[%d], -0.7f);"%t],bits,"ry-conj")
            check(n,bits,["h(q[%d]);"%t,"rz(q[%d], 0.9f);"%t,"h(q[%d]);"%t,"rx(q[%d], -0.9f);"%t],bits,"rz-rx")
            # rx(pi/2) twice = flip; rx(pi/2), rz(pi) , rx(pi/2): 
            for c in range(n):
                if c==t: continue
                e=bits[:]; e[t]^=bits[c]
                check(n,bits,["cx(q[%d], q[%d]);"%(c,t)],e,"cx")
                # kickback: h(c); h(t) z(t)?? : put target in |-> if bit... 
                # cx = H_t CZ H_t ; CZ symmetric: h(t) cx(c,t) h(t) == h(c) cx(t,c) h(c)
                check(n,bits,["h(q[%d]);"%t,"cx(q[%d], q[%d]);"%(c,t),"h(q[%d]);"%t,"h(q[%d]);"%c,"cx(q[%d], q[%d]);"%(t,c),"h(q[%d]);"%c],bits,"cz-sym")
                # reversed cx via hadamards
                e2=bits[:]; e2[c]^=bits[t]
                check(n,bits,["h(q[%d]);"%t,"h(q[%d]);"%c,"cx(q[%d], q[%d]);"%(c,t),"h(q[%d]);"%t,"h(q[%d]);"%c],e2,"cx-rev")
print("done fails",fails)
