OPENQASM 2.0;
include "qelib1.inc";
qreg q[3];
creg c[3];
x q[0];
x q[2];
measure q[0] -> c[0];
measure q[1] -> c[1];
measure q[2] -> c[2];
