#!/bin/sh
# address-space cap: without it the demo needs minutes and >50 GB before failing the same way
ulimit -v 4000000
d="$(dirname "$0")"
echo "== same_with_reset.bloch"; /tmp/wt_C01h/_build/bin/bloch "$d/same_with_reset.bloch"; echo "rc=$?"
echo "== demo.bloch"; /tmp/wt_C01h/_build/bin/bloch "$d/demo.bloch" --emit-qasm; echo "rc=$?"
echo "== 5 iterations only, qasm header"; sed 's/i < 40/i < 5/' "$d/demo.bloch" > "$d/five.bloch"; /tmp/wt_C01h/_build/bin/bloch "$d/five.bloch" --emit-qasm | sed -n 1,5p
