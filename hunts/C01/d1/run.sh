#!/bin/sh
# cap the address space so the failure is reached in about a second instead of after
# minutes and tens of GB (without the cap the same message appears once RAM is exhausted)
ulimit -v 4000000
exec /tmp/wt_C01h/_build/bin/bloch "$(dirname "$0")/demo.bloch"
