OPENQASM 2.0;
include "qelib1.inc";
qreg q[0];
creg c[0];
