#!/usr/bin/env python3
# Generates a linear chain of N default-package modules next to this script:
#   demo.bloch -> M1.bloch -> M2.bloch -> ... -> M<N>.bloch   (no cycle, no diamond)
import os, sys
n = int(sys.argv[1]) if len(sys.argv) > 1 else 10000
here = os.path.dirname(os.path.abspath(__file__))
with open(os.path.join(here, "demo.bloch"), "w") as f:
    f.write("import M1;\nfunction main() -> void { echo(1); }\n")
for i in range(1, n + 1):
    with open(os.path.join(here, "M%d.bloch" % i), "w") as f:
        if i < n:
            f.write("import M%d;\n" % (i + 1))
