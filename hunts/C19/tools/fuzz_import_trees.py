#!/usr/bin/env python3
# Random module-tree fuzzer for the import loader, compared against a reference model.
import os, random, shutil, subprocess, sys, re

BLOCH = "/tmp/wt_C19h/_build/bin/bloch"
BASE = "/tmp/wt_C19h/HUNT/tools/fz"
PKGS = [(), ("a",), ("b",), ("a", "a"), ("a", "b"), ("b", "a")]
NAMES = ["X", "Y", "Z"]

OBJ = '''package bloch.lang;
class Object {
    public constructor() -> Object = default;
}
static class T { public static function t(string s) -> int { echo(s); return 1; } }
'''


def gen(seed):
    rnd = random.Random(seed)
    if os.path.exists(BASE):
        shutil.rmtree(BASE)
    roots = {"proj": BASE + "/proj", "sp": BASE + "/sp", "cw": BASE + "/cw"}
    for r in roots.values():
        os.makedirs(r)
    os.makedirs(BASE + "/std/bloch/lang")
    open(BASE + "/std/bloch/lang/Object.bloch", "w").write(OBJ)
    files = {}  # path -> dict(pkg(decl or None), imports, main, cls)
    n = 0
    dens = rnd.choice([0.15, 0.3, 0.5])
    for rname, rpath in roots.items():
        for pkg in PKGS:
            for nm in NAMES:
                p = 0.6 * dens if rname != "proj" else dens
                if rnd.random() < p:
                    path = os.path.join(rpath, *pkg, nm + ".bloch")
                    n += 1
                    r = rnd.random()
                    if r < 0.85:
                        decl = pkg
                    elif r < 0.93:
                        decl = rnd.choice(PKGS)
                    else:
                        decl = ()
                    imps = []
                    for _ in range(rnd.choice([0, 0, 1, 1, 2, 3])):
                        ip = rnd.choice(PKGS)
                        if ip and rnd.random() < 0.3:
                            imps.append((ip, None))
                        else:
                            imps.append((ip, rnd.choice(NAMES)))
                    files[path] = dict(decl=decl, imports=imps,
                                       main=rnd.random() < 0.12, cls="K%d" % n)
    projfiles = [f for f in files if f.startswith(roots["proj"])]
    if not projfiles:
        return None
    entry = rnd.choice(projfiles)
    files[entry]["main"] = rnd.random() < 0.85 or files[entry]["main"]
    for path, d in files.items():
        os.makedirs(os.path.dirname(path), exist_ok=True)
        with open(path, "w") as f:
            if d["decl"]:
                f.write("package %s;\n" % ".".join(d["decl"]))
            for ip, nm in d["imports"]:
                f.write("import %s;\n" % ".".join(list(ip) + [nm if nm else "*"]))
            f.write('static class %s { public static int h = T.t("%s"); }\n' % (d["cls"], d["cls"]))
            if d["main"]:
                f.write('function main() -> void { echo("main"); }\n')
    cwd = rnd.choice([roots["proj"], roots["cw"], roots["proj"] + "/a", roots["sp"]])
    os.makedirs(cwd, exist_ok=True)
    use_sp = rnd.random() < 0.7
    return files, entry, cwd, roots, use_sp


class Stop(Exception):
    pass


def model(files, entry, cwd, roots, use_sp):
    sps = [BASE + "/std"]
    if use_sp:
        sps = [roots["sp"]]  # std then unavailable -> dev tree library Object (no T!) -- avoid
    order, loaded, stack = [], set(), []

    def bases(fromdir):
        return [fromdir] + sps_all + [cwd]

    def res_single(parts, fromdir):
        for b in bases(fromdir):
            c = os.path.join(b, *parts) + ".bloch"
            if os.path.isfile(c):
                return os.path.realpath(c)
        return None

    def res_wild(parts, fromdir):
        for b in bases(fromdir):
            c = os.path.join(b, *parts)
            if os.path.isdir(c):
                ms = sorted(os.path.join(c, x) for x in os.listdir(c)
                            if x.endswith(".bloch") and os.path.isfile(os.path.join(c, x)))
                if ms:
                    return ms
        return None

    def load(path):
        if path in stack:
            raise Stop("cycle")
        if path in loaded:
            return
        stack.append(path)
        d = files[path]
        fromdir = os.path.dirname(path)
        for ip, nm in d["imports"]:
            if nm is None:
                ts = res_wild(ip, fromdir)
                if not ts:
                    raise Stop("notfound")
                for t in ts:
                    if t == path:
                        continue
                    load(t)
                    if tuple(files[t]["decl"]) != tuple(ip):
                        raise Stop("mismatch")
            else:
                t = res_single(list(ip) + [nm], fromdir)
                if not t:
                    raise Stop("notfound")
                load(t)
                if tuple(files[t]["decl"]) != tuple(ip):
                    raise Stop("mismatch")
        loaded.add(path)
        order.append(path)
        stack.pop()

    sps_all = sps
    try:
        load(entry)
    except Stop as s:
        return ("err", str(s))
    mains = sum(1 for p in order if files[p]["main"])
    if mains == 0:
        return ("err", "nomain")
    if mains > 1:
        return ("err", "multimain")
    return ("ok", sorted([files[p]["cls"] for p in order], key=str) + ["main"])


def run(entry, cwd, roots, use_sp):
    env = dict(os.environ)
    # search path: std (Object+T) is always needed; emulate by stacking: BLOCH_STDLIB_PATH root
    env["BLOCH_STDLIB_PATH"] = roots["sp"] if use_sp else BASE + "/std"
    env["HOME"] = "/nonexistent"
    p = subprocess.run([BLOCH, entry], cwd=cwd, env=env, capture_output=True, text=True, timeout=20)
    out = p.stdout.strip().split("\n") if p.stdout.strip() else []
    err = re.sub(r"\x1b\[[0-9;]*m", "", p.stderr)
    if p.returncode == 0:
        return ("ok", out), err
    if "import cycle" in err:
        return ("err", "cycle"), err
    if "not found" in err and "import" in err:
        return ("err", "notfound"), err
    if "resolved to package" in err:
        return ("err", "mismatch"), err
    if "No 'main'" in err:
        return ("err", "nomain"), err
    if "Multiple 'main'" in err:
        return ("err", "multimain"), err
    return ("err", "other:" + err.strip().replace("\n", " | ")), err


def main():
    start = int(sys.argv[1]); count = int(sys.argv[2])
    stats = {}
    for seed in range(start, start + count):
        g = gen(seed)
        if not g:
            continue
        files, entry, cwd, roots, use_sp = g
        if use_sp:
            # make Object+T available inside sp as well
            os.makedirs(roots["sp"] + "/bloch/lang", exist_ok=True)
            open(roots["sp"] + "/bloch/lang/Object.bloch", "w").write(OBJ)
        exp = model(files, entry, cwd, roots, use_sp)
        got, err = run(entry, cwd, roots, use_sp)
        key = exp[0] + ":" + (exp[1] if exp[0] == "err" else "")
        stats[key] = stats.get(key, 0) + 1
        if exp != got:
            print("MISMATCH seed", seed, "entry", entry, "cwd", cwd, "sp", use_sp)
            print("  exp", exp)
            print("  got", got)
            return
    print(stats)


main()
