#!/bin/sh
# run from a working directory that has been removed
BLOCH=${BLOCH:-/tmp/wt_C19h/_build/bin/bloch}
HERE=$(cd "$(dirname "$0")" && pwd)
mkdir -p "$HERE/gone" && cd "$HERE/gone" && rmdir "$HERE/gone" && "$BLOCH" "$HERE/demo.bloch"
echo "exit=$?"
