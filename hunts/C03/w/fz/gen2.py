import random, subprocess, sys, os
B='/tmp/wt_C03h/_build/bin/bloch'
PRE='''
class Cell {
    public qubit q;
    public constructor() -> Cell { return this; }
    public function get() -> qubit { return this.q; }
}
class Flip {
    public qubit ref;
    public qubit own;
    public constructor(qubit r) -> Flip { this.ref = r; return this; }
    public destructor() -> void { x(this.ref); }
}
class Box<T> {
    public T v;
    public constructor() -> Box<T> { return this; }
}
class Ring {
    public qubit q;
    public Ring other;
    public constructor() -> Ring { return this; }
}
class DRing extends Ring {
    public constructor() -> DRing { super(); return this; }
}
static class Reg {
    public static Cell slot = null;
    public static qubit sq;
}
function garbage(qubit ext) -> void {
    DRing a = new DRing();
    DRing b = new DRing();
    a.other = b;
    b.other = a;
    x(a.q); cx(a.q, ext);
}
function early(qubit ext, int n) -> int {
    for (int i = 0; i < 5; i = i + 1) {
        Cell t = new Cell();
        x(t.q);
        cx(t.q, ext);
        if (i == n) { return i; }
    }
    return 9;
}
function handleOfLocal() -> qubit {
    Cell c = new Cell();
    x(c.q);
    return c.q;
}
'''
class Q:
    def __init__(s, expr):
        s.bit=0; s.meas=False; s.exprs=[expr]
def gen(seed):
    rnd=random.Random(seed)
    exp=[]
    cnt=[0]
    def nm(p):
        cnt[0]+=1; return f'{p}{cnt[0]}'
    sq=Q('Reg.sq')
    allq=[sq]
    # scope stack: list of dict(vars=[(name, kind, payload)]) in decl order
    scopes=[[]]
    lines=[]
    ind=[1]
    def emit(s): lines.append('    '*ind[0]+s)
    def usable(): return [q for q in allq if q.exprs and not q.meas]
    def drop_exprs(q, pred):
        q.exprs=[e for e in q.exprs if not pred(e)]
        if not q.exprs and q in allq: allq.remove(q)
    def obj_die(kind, payload, prefix):
        # payload: for Cell/Box: owned Q ; for Flip: (own Q, ref Q)
        if kind in('Cell','Box'):
            q=payload; q.bit=0; q.meas=False
            drop_exprs(q, lambda e:e.startswith(prefix))
        elif kind=='Flip':
            own,ref=payload
            # destructor: x(this.ref) -- requires ref not measured; we guarantee by resetting rule below
            ref.bit^=1
            own.bit=0; own.meas=False
            drop_exprs(own, lambda e:e.startswith(prefix))
            drop_exprs(ref, lambda e:e.startswith(prefix))
    flips_on={}  # Q -> count of live Flip objects referencing it (must not be measured when they die)
    def close_scope():
        sc=scopes.pop()
        for (name,kind,payload) in reversed(sc):
            if kind=='q':
                for q in payload: drop_exprs(q, lambda e:e==name or e.startswith(name+'['))
            elif kind=='h':
                drop_exprs(payload, lambda e:e==name)
            elif kind in('Cell','Box','Flip'):
                if payload is not None:
                    if kind=='Flip': flips_on[payload[1]]-=1
                    obj_die(kind,payload,name+'.')
    def step(depth):
        nq=len(allq)
        ops=['gate']*4+['meas','reset','reset']
        if nq<10: ops+=['qubit','cell','cell','box','flip','copy','hol','block','block' ]
        ops+=['null','garbage','early','regput','regdrop']
        op=rnd.choice(ops)
        if op=='qubit':
            v=nm('q'); emit(f'qubit {v};'); q=Q(v); allq.append(q); scopes[-1].append((v,'q',[q]))
        elif op=='cell':
            v=nm('c'); emit(f'Cell {v} = new Cell();'); q=Q(v+'.q'); allq.append(q); scopes[-1].append([v,'Cell',q])
        elif op=='box':
            v=nm('b'); emit(f'Box<qubit> {v} = new Box<qubit>();'); q=Q(v+'.v'); allq.append(q); scopes[-1].append([v,'Box',q])
        elif op=='flip':
            u=[q for q in usable()]
            if not u: return
            r=rnd.choice(u); er=rnd.choice(r.exprs)
            v=nm('f'); emit(f'Flip {v} = new Flip({er});'); own=Q(v+'.own'); allq.append(own); r.exprs.append(v+'.ref')
            flips_on[r]=flips_on.get(r,0)+1
            scopes[-1].append([v,'Flip',(own,r)])
        elif op=='copy':
            c=[q for q in allq if q.exprs]
            if not c: return
            q=rnd.choice(c); e=rnd.choice(q.exprs)
            v=nm('h'); emit(f'qubit {v} = {e};'); q.exprs.append(v); scopes[-1].append((v,'h',q))
        elif op=='hol':
            v=nm('h'); emit(f'qubit {v} = handleOfLocal();'); q=Q(v); allq.append(q); scopes[-1].append((v,'h',q))
        elif op=='null':
            c=[(sc,i) for sc in scopes for i,e in enumerate(sc) if e[1] in('Cell','Box','Flip') and e[2] is not None]
            if not c: return
            sc,i=rnd.choice(c); name,kind,payload=sc[i]
            if kind=='Flip':
                if payload[1].meas: return
                flips_on[payload[1]]-=1
            emit(rnd.choice([f'{name} = null;',f'destroy {name};']))
            obj_die(kind,payload,name+'.'); sc[i][2]=None
        elif op=='gate':
            u=usable()
            if not u: return
            g=rnd.choice(['x','cx','cx','z','hh','y'])
            a=rnd.choice(u); ea=rnd.choice(a.exprs)
            if g=='x': emit(f'x({ea});'); a.bit^=1
            elif g=='y': emit(f'y({ea});'); a.bit^=1
            elif g=='z': emit(f'z({ea});')
            elif g=='hh': emit(f'h({ea}); h({ea});')
            elif g=='cx':
                o=[q for q in u if q is not a]
                if not o: return
                b=rnd.choice(o); eb=rnd.choice(b.exprs)
                emit(f'cx({ea}, {eb});'); b.bit^=a.bit
        elif op=='meas':
            u=[q for q in usable() if flips_on.get(q,0)==0]
            if not u: return
            a=rnd.choice(u); ea=rnd.choice(a.exprs)
            v=nm('m'); emit(f'bit {v} = measure {ea}; echo({v});'); exp.append(str(a.bit)); a.meas=True
        elif op=='reset':
            c=[q for q in allq if q.exprs]
            if not c: return
            a=rnd.choice(c); ea=rnd.choice(a.exprs)
            emit(f'reset {ea};'); a.bit=0; a.meas=False
        elif op=='garbage':
            u=usable()
            if not u: return
            a=rnd.choice(u); emit(f'garbage({rnd.choice(a.exprs)});'); a.bit^=1
        elif op=='early':
            u=usable()
            if not u: return
            a=rnd.choice(u); n=rnd.randint(0,6)
            v=nm('k'); emit(f'int {v} = early({rnd.choice(a.exprs)}, {n});')
            iters = n+1 if n<5 else 5
            if iters%2: a.bit^=1
        elif op=='regput':
            if getattr(gen,'reg',None) is not None: return
            emit('Reg.slot = new Cell();'); q=Q('Reg.slot.q'); allq.append(q); gen.reg=q
        elif op=='regdrop':
            if getattr(gen,'reg',None) is None: return
            emit('Reg.slot = null;'); q=gen.reg; q.bit=0;q.meas=False
            drop_exprs(q, lambda e:e.startswith('Reg.slot.')); gen.reg=None
        elif op=='block':
            if depth>2: return
            emit('{'); ind[0]+=1; scopes.append([])
            for _ in range(rnd.randint(2,8)): step(depth+1)
            # before closing, any Flip in scope whose ref is measured -> reset it first
            for (name,kind,payload) in scopes[-1]:
                if kind=='Flip' and payload is not None and payload[1].meas:
                    emit(f'reset {name}.ref;'); payload[1].bit=0; payload[1].meas=False
            close_scope(); ind[0]-=1; emit('}')
    gen.reg=None
    for _ in range(rnd.randint(15,40)): step(0)
    # make flips safe at main exit: reset refs that are measured
    for sc in scopes:
        for (name,kind,payload) in sc:
            if kind=='Flip' and payload is not None and payload[1].meas:
                emit(f'reset {name}.ref;'); payload[1].bit=0; payload[1].meas=False
    for a in [q for q in usable() if flips_on.get(q,0)==0]:
        v=nm('m'); emit(f'bit {v} = measure {a.exprs[0]}; echo({v});'); exp.append(str(a.bit)); a.meas=True
    for sc in scopes:
        for (name,kind,payload) in sc:
            if kind=='Flip' and payload is not None and payload[1].meas:
                emit(f'reset {name}.ref;')
    src=PRE+'function main() -> void {\n'+'\n'.join(lines)+'\n}\n'
    return src,exp
if __name__=='__main__':
    bad=0
    for seed in range(int(sys.argv[1]),int(sys.argv[2])):
        src,exp=gen(seed)
        fn=f'g{seed}.bloch'
        open(fn,'w').write(src)
        try:
            r=subprocess.run([B,fn],capture_output=True,text=True,timeout=60)
        except subprocess.TimeoutExpired:
            print('TIMEOUT',seed); bad+=1; continue
        out=[l for l in r.stdout.split('\n') if l in('0','1')]
        if r.returncode!=0 or out!=exp:
            print('MISMATCH',seed,r.returncode,'exp',''.join(exp),'got',''.join(out),r.stderr[-300:].replace('\n',' | '))
            bad+=1
        else:
            os.remove(fn)
        q=fn.replace('.bloch','.qasm')
        if os.path.exists(q): os.remove(q)
    print('done bad=',bad)
