import random, subprocess, sys, os
B='/tmp/wt_C03h/_build/bin/bloch'
PRE='''
class Cell {
    public qubit q;
    public constructor() -> Cell { return this; }
    public function get() -> qubit { return this.q; }
}
class DCell extends Cell {
    public qubit[2] r;
    public constructor() -> DCell { super(); return this; }
}
class Ring {
    public qubit q;
    public Ring other;
    public constructor() -> Ring { return this; }
}
class DRing extends Ring {
    public constructor() -> DRing { super(); return this; }
}
class Wrap {
    public Cell c;
    public constructor() -> Wrap { this.c = new Cell(); return this; }
    public destructor() -> void { int k = 1; }
}
function garbage(int flip) -> void {
    Ring a = new Ring();
    DRing b = new DRing();
    a.other = b;
    b.other = a;
    if (flip == 1) { x(a.q); cx(a.q, b.q); }
}
function scratch(qubit ext, int flip) -> void {
    Cell t = new Cell();
    if (flip == 1) { x(t.q); cx(t.q, ext); }
}
function mkCell() -> Cell { return new Cell(); }
'''
class Q:
    n=0
    def __init__(s, expr):
        s.bit=0; s.meas=False; s.exprs=[expr]; s.alive=True
def gen(seed):
    rnd=random.Random(seed)
    lines=[]; exp=[]
    qs=[]      # logical qubits with at least one reachable expr
    objs={}    # var -> (kind, [Q...]) or None
    cnt=[0]
    def nm(p):
        cnt[0]+=1; return f'{p}{cnt[0]}'
    def usable(): return [q for q in qs if q.exprs and not q.meas]
    def kill(var):
        o=objs.get(var)
        if not o: return
        kind,owned,prefix=o
        for q in owned:
            q.bit=0; q.meas=False
            q.exprs=[e for e in q.exprs if not e.startswith(prefix)]
            if not q.exprs and q in qs: qs.remove(q)
        objs[var]=None
    def newobj(var, kind, declare):
        owned=[]
        if kind=='Cell':
            owned=[Q(f'{var}.q')]
        elif kind=='DCell':
            owned=[Q(f'{var}.q'),Q(f'{var}.r[0]'),Q(f'{var}.r[1]')]
        elif kind=='Wrap':
            owned=[Q(f'{var}.c.q')]
        return owned
    for step in range(rnd.randint(15,45)):
        if len(qs)>9:
            choices=['gate','gate','meas','reset','null','destroy','replace','garbage','scratch']
        else:
            choices=['qubit','qarr','new','new','copy','gate','gate','gate','meas','reset','null','destroy','replace','garbage','scratch','copym','mk']
        op=rnd.choice(choices)
        if op=='qubit':
            v=nm('q'); lines.append(f'qubit {v};'); qs.append(Q(v))
        elif op=='qarr':
            v=nm('r'); lines.append(f'qubit[2] {v};'); qs.append(Q(f'{v}[0]')); qs.append(Q(f'{v}[1]'))
        elif op=='new':
            kind=rnd.choice(['Cell','DCell','Wrap'])
            v=nm('o'); lines.append(f'{kind} {v} = new {kind}();')
            owned=newobj(v,kind,True); objs[v]=(kind,owned,v+'.'); qs.extend(owned)
        elif op=='mk':
            v=nm('o'); lines.append(f'Cell {v} = mkCell();')
            owned=newobj(v,'Cell',True); objs[v]=('Cell',owned,v+'.'); qs.extend(owned)
        elif op=='replace':
            live=[v for v,o in objs.items()]
            if not live: continue
            v=rnd.choice(live)
            kind = objs[v][0] if objs[v] else None
            if kind is None:
                continue
            # evaluate new first (allocates), then old dies
            owned=newobj(v,kind,False)
            old=objs[v]
            lines.append(f'{v} = new {kind}();')
            # old dies after new is constructed
            for q in old[1]:
                q.bit=0;q.meas=False
                q.exprs=[e for e in q.exprs if not e.startswith(v+'.')]
                if not q.exprs and q in qs: qs.remove(q)
            objs[v]=(kind,owned,v+'.'); qs.extend(owned)
        elif op in('null','destroy'):
            live=[v for v,o in objs.items() if o]
            if not live: continue
            v=rnd.choice(live)
            lines.append(f'{v} = null;' if op=='null' else f'destroy {v};')
            kind=objs[v][0]
            kill(v)
            del objs[v]   # don't reuse var (type slot semantic unclear)
        elif op in('copy','copym'):
            cands=[q for q in qs if q.exprs]
            if not cands: continue
            q=rnd.choice(cands); e=rnd.choice(q.exprs)
            if op=='copym':
                # via method get() on a Cell-like object
                ce=[x for x in q.exprs if x.endswith('.q') and x.count('.')==1 and objs.get(x.split('.')[0]) and objs[x.split('.')[0]][0] in('Cell','DCell')]
                if not ce: continue
                e=ce[0][:-2]+'.get()'
            v=nm('h'); lines.append(f'qubit {v} = {e};'); q.exprs.append(v)
        elif op=='gate':
            u=usable()
            if not u: continue
            g=rnd.choice(['x','cx','z','hh','y','rxpi','rz'])
            a=rnd.choice(u); ea=rnd.choice(a.exprs)
            if g=='x': lines.append(f'x({ea});'); a.bit^=1
            elif g=='y': lines.append(f'y({ea});'); a.bit^=1
            elif g=='z': lines.append(f'z({ea});')
            elif g=='rz': lines.append(f'rz({ea}, 0.7f);')
            elif g=='hh': lines.append(f'h({ea}); h({ea});')
            elif g=='rxpi': lines.append(f'rx({ea}, 3.141592653589793f);'); a.bit^=1
            elif g=='cx':
                o=[q for q in u if q is not a]
                if not o: continue
                b=rnd.choice(o); eb=rnd.choice(b.exprs)
                lines.append(f'cx({ea}, {eb});'); b.bit^=a.bit
        elif op=='meas':
            u=usable()
            if not u: continue
            a=rnd.choice(u); ea=rnd.choice(a.exprs)
            v=nm('m'); lines.append(f'bit {v} = measure {ea}; echo({v});'); exp.append(str(a.bit)); a.meas=True
        elif op=='reset':
            c=[q for q in qs if q.exprs]
            if not c: continue
            a=rnd.choice(c); ea=rnd.choice(a.exprs)
            lines.append(f'reset {ea};'); a.bit=0; a.meas=False
        elif op=='garbage':
            lines.append(f'garbage({rnd.randint(0,1)});')
        elif op=='scratch':
            u=usable()
            if not u: continue
            a=rnd.choice(u); ea=rnd.choice(a.exprs)
            f=rnd.randint(0,1)
            lines.append(f'scratch({ea}, {f});')
            if f: a.bit^=1
    # final measure all usable
    for a in usable():
        v=nm('m'); lines.append(f'bit {v} = measure {a.exprs[0]}; echo({v});'); exp.append(str(a.bit)); a.meas=True
    src=PRE+'function main() -> void {\n'+'\n'.join('    '+l for l in lines)+'\n}\n'
    return src,exp
if __name__=='__main__':
    bad=0
    for seed in range(int(sys.argv[1]),int(sys.argv[2])):
        src,exp=gen(seed)
        fn=f'p{seed}.bloch'
        open(fn,'w').write(src)
        try:
            r=subprocess.run([B,fn],capture_output=True,text=True,timeout=60)
        except subprocess.TimeoutExpired:
            print('TIMEOUT',seed); bad+=1; continue
        out=[l for l in r.stdout.split('\n') if l in('0','1')]
        if r.returncode!=0 or out!=exp:
            print('MISMATCH',seed,r.returncode,'exp',''.join(exp),'got',''.join(out),r.stderr[-300:].replace('\n',' | '))
            bad+=1
        else:
            os.remove(fn); 
            q=fn+'.qasm'
            if os.path.exists(q): os.remove(q)
            q=fn.replace('.bloch','.qasm')
            if os.path.exists(q): os.remove(q)
    print('done bad=',bad)
