OPENQASM 2.0;
include "qelib1.inc";
qreg q[4];
creg c[4];
x q[1];
measure q[0] -> c[0];
measure q[1] -> c[1];
measure q[2] -> c[2];
measure q[3] -> c[3];
