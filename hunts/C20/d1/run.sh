#!/bin/bash
# d1: on Linux `bloch --update` can never install a (strictly newer, correctly check-summed) release.
cd "$(dirname "$0")"; . ../tools/lib.sh
W=$PWD/../work/d1; rm -rf "$W"; mkdir -p "$W"
BLOCH=$(../tools/build_version.sh 1.2.3)            # running version 1.2.3
../tools/mksite.sh "$W/site" v1.2.4 >/dev/null      # latest release v1.2.4 with a correct checksums.txt
start_site "$W/site"
bloch_net "$W/home" "$BLOCH" --update </dev/null; echo "exit code: $?"
echo "version after the update attempt: $(BLOCH_OFFLINE=1 "$BLOCH" --version)"
stop_site
