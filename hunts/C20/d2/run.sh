#!/bin/bash
# d2: a checksums.txt that lists the RIGHT sha256 for exactly this asset is rejected as a mismatch
#     when the digest is written in upper-case hex (PowerShell Get-FileHash, certutil, many CI actions)
#     or when the file starts with a UTF-8 BOM.
cd "$(dirname "$0")"; . ../tools/lib.sh
W=$PWD/../work/d2; rm -rf "$W"; mkdir -p "$W"
BLOCH=$(../tools/build_version.sh 1.2.3)
D=$(../tools/mksite.sh "$W/site" v1.2.4); A=bloch-v1.2.4-Linux-X64.tar.gz
GOOD=$(sha256sum "$D/$A" | cut -d' ' -f1)
start_site "$W/site"
echo "--- baseline: lower-case digest (passes verification; then stops at defect d1)"
printf '%s  %s\n' "$GOOD" "$A" > "$D/checksums.txt"
bloch_net "$W/home" "$BLOCH" --update </dev/null 2>&1 | sed "s#$PWD/../work#<work>#"
echo "--- same digest in upper-case hex"
printf '%s  %s\n' "$(echo "$GOOD" | tr a-f A-F)" "$A" > "$D/checksums.txt"
bloch_net "$W/home" "$BLOCH" --update </dev/null 2>&1
echo "--- same lower-case digest, file starts with a UTF-8 BOM"
printf '\xef\xbb\xbf%s  %s\n' "$GOOD" "$A" > "$D/checksums.txt"
bloch_net "$W/home" "$BLOCH" --update </dev/null 2>&1
stop_site
