#!/bin/bash
# d10: the "non-blocking" update check blocks every program run for ~30 s when the server accepts the
#      connection but does not answer, and - because a failed check is not recorded - does so again on
#      every following invocation.
cd "$(dirname "$0")"; . ../tools/lib.sh
W=$PWD/../work/d10; rm -rf "$W"; mkdir -p "$W"
BLOCH=$(../tools/build_version.sh 1.2.3)
start_bad stall
for i in 1 2; do
  s=$(date +%s); bloch_net "$W/home" "$BLOCH" demo.bloch </dev/null 2>&1
  e=$(( $(date +%s) - s )); echo "invocation $i: exit code $?, took about $(( e / 10 * 10 ))+ seconds"
done
echo "cache file written: $(ls "$W/home/.cache/bloch" 2>/dev/null || echo none)"
stop_site
