#!/bin/bash
# d6: a release tag with shell syntax glued to a number is accepted as a version, and its text is then
#     executed by /bin/sh (the tag is pasted into the `tar` command line handed to std::system).
cd "$(dirname "$0")"; . ../tools/lib.sh
W=$PWD/../work/d6; rm -rf "$W"; mkdir -p "$W/cwd"
BLOCH=$(../tools/build_version.sh 1.2.3)
TAG='1.2.4$(id>PWNED)'
../tools/mksite.sh "$W/site" "$TAG" >/dev/null     # asset + matching checksums.txt for that tag
start_site "$W/site"
cd "$W/cwd"
bloch_net "$W/home" "$BLOCH" --update </dev/null 2>&1 | sed 's#/tmp/bloch-update-[0-9]*#/tmp/bloch-update-N#'
echo "--- files that appeared in the current directory:"; ls
echo "--- content of PWNED:"; cat PWNED
stop_site
