#!/bin/bash
# d8: if the peer closes/resets the TLS connection right after the handshake, the process is killed by
#     SIGPIPE inside the update check - silently, before the user's program has run.
cd "$(dirname "$0")"; . ../tools/lib.sh
W=$PWD/../work/d8; rm -rf "$W"; mkdir -p "$W"
BLOCH=$(../tools/build_version.sh 1.2.3)
start_bad close          # TLS endpoint that completes the handshake and closes the connection
echo "--- plain program run, no cache yet (so a check is due)"
bloch_net "$W/home" "$BLOCH" demo.bloch </dev/null 2>&1; echo "exit code: $?"
echo "--- bloch --version"
bloch_net "$W/home" "$BLOCH" --version </dev/null 2>&1; echo "exit code: $?"
echo "--- bloch --update"
bloch_net "$W/home" "$BLOCH" --update </dev/null 2>&1; echo "exit code: $?"
echo "--- control: update checks disabled by environment"
EXTRA_ENV="BLOCH_NO_UPDATE_CHECK=1" bloch_net "$W/home" "$BLOCH" demo.bloch </dev/null 2>&1; echo "exit code: $?"
stop_site
