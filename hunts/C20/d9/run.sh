#!/bin/bash
# d9: with a cache file that can be read but not rewritten, the update notice is printed on EVERY
#     invocation instead of at most once per 72 hours.  (Needs root only to drop privileges to "nobody".)
cd "$(dirname "$0")"
W=$PWD/../work/d9; rm -rf "$W"; mkdir -p "$W/cache/bloch"
BLOCH=$(../tools/build_version.sh 1.2.3)
printf '%s\nv1.3.0\n0\n' "$(date +%s)" > "$W/cache/bloch/update_cache.txt"   # checked just now, never notified
cp demo.bloch "$W/"; chmod -R a+rX "$W"; chmod a+x "$PWD/.." "$PWD/../.." "$PWD/../work" "$(dirname "$BLOCH")"
# cache owned by root (e.g. created by an earlier `sudo bloch ...` with HOME preserved), mode 644/755
for i in 1 2 3; do
  echo "--- invocation $i (as user nobody)"
  setpriv --reuid=65534 --regid=65534 --clear-groups env -i XDG_CACHE_HOME="$W/cache" "$BLOCH" "$W/demo.bloch"
done
echo "--- cache file afterwards:"; cat "$W/cache/bloch/update_cache.txt"
