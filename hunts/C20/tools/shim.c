#define _GNU_SOURCE
#include <dlfcn.h>
#include <netdb.h>
#include <stdlib.h>
int getaddrinfo(const char* node, const char* service, const struct addrinfo* hints, struct addrinfo** res) {
    static int (*real)(const char*, const char*, const struct addrinfo*, struct addrinfo**);
    if (!real) real = dlsym(RTLD_NEXT, "getaddrinfo");
    const char* port = getenv("FAKE_PORT");
    struct addrinfo h; 
    if (hints) h = *hints; else { struct addrinfo z = {0}; h = z; }
    h.ai_family = AF_INET; h.ai_flags = AI_NUMERICHOST | AI_NUMERICSERV;
    return real("127.0.0.1", port ? port : "28443", &h, res);
}
