#!/bin/bash
# usage: build_version.sh <version>  -- builds (once) a bloch binary whose baked-in version is <version>
# (BLOCH_VERSION is read from the environment by the top-level CMakeLists.txt; src/ is untouched)
# and prints the path of a private copy of it.
set -e
here=$(cd "$(dirname "$0")" && pwd); top=$(cd "$here/../.." && pwd); v=$1
b="$top/HUNT/work/b_$v"
if [ ! -x "$b/bin/bloch" ]; then
  (cd "$top" && BLOCH_VERSION="$v" cmake -G Ninja -B "$b" -DCMAKE_BUILD_TYPE=RelWithDebInfo >/dev/null && cmake --build "$b" --target bloch >/dev/null)
fi
mkdir -p "$top/HUNT/work/inst_$v"; cp -f "$b/bin/bloch" "$top/HUNT/work/inst_$v/bloch" 2>/dev/null || true
echo "$top/HUNT/work/inst_$v/bloch"
