import http.server, ssl, sys, os, functools
here = os.path.dirname(os.path.abspath(__file__))
root, port = os.path.abspath(sys.argv[1]), int(sys.argv[2])
class H(http.server.SimpleHTTPRequestHandler):
    def log_message(self, *a): pass
    def do_GET(self):
        # optional: mimic GitHub, which answers asset downloads with a 302 to another host
        if os.environ.get("FAKE_REDIRECT") and self.path.startswith("/bloch-labs/"):
            body = b"<html>You are being redirected</html>"
            self.send_response(302)
            self.send_header("Location", "https://objects.githubusercontent.com/real" + self.path)
            self.send_header("Content-Length", str(len(body))); self.end_headers(); self.wfile.write(body); return
        if self.path.startswith("/real/"): self.path = self.path[len("/real"):]
        return super().do_GET()
srv = http.server.ThreadingHTTPServer(("127.0.0.1", port), functools.partial(H, directory=root))
ctx = ssl.SSLContext(ssl.PROTOCOL_TLS_SERVER)
ctx.load_cert_chain(os.path.join(here, "srv.pem"), os.path.join(here, "srv.key"))
srv.socket = ctx.wrap_socket(srv.socket, server_side=True)
os.chdir("/")
open(sys.argv[3],"w").write(str(os.getpid()))
srv.serve_forever()
