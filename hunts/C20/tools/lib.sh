# Common helpers for the C20 demos.  Source this file.
# Everything happens offline: a tiny LD_PRELOAD shim (shim.c) makes every host name resolve to
# 127.0.0.1:$FAKE_PORT, a local python HTTPS server plays api.github.com / github.com, and
# SSL_CERT_FILE makes OpenSSL trust the throw-away test CA in this directory.  src/ is unchanged.
TOOLS=$(cd "$(dirname "${BASH_SOURCE[0]}")" && pwd)
export FAKE_PORT=${FAKE_PORT:-28443}
[ -f "$TOOLS/shim.so" ] || gcc -shared -fPIC "$TOOLS/shim.c" -o "$TOOLS/shim.so" -ldl

# start_site <site-root>          : serve a fake GitHub from <site-root>
start_site() { rm -f "$TOOLS/srv.pid"; setsid python3 "$TOOLS/server.py" "$1" "$FAKE_PORT" "$TOOLS/srv.pid" >"$TOOLS/server.log" 2>&1 </dev/null &
               for i in $(seq 50); do [ -s "$TOOLS/srv.pid" ] && break; sleep 0.1; done; }
# start_bad <close|rst|stall|garbage> : serve a misbehaving TLS endpoint
start_bad()  { rm -f "$TOOLS/srv.pid"; setsid python3 "$TOOLS/badserver.py" "$1" "$FAKE_PORT" "$TOOLS/srv.pid" >"$TOOLS/server.log" 2>&1 </dev/null &
               for i in $(seq 50); do [ -s "$TOOLS/srv.pid" ] && break; sleep 0.1; done; }
stop_site()  { [ -s "$TOOLS/srv.pid" ] && kill "$(cat "$TOOLS/srv.pid")" 2>/dev/null; rm -f "$TOOLS/srv.pid"; sleep 0.2; }
# set_latest <site-root> <tag>    : what /repos/bloch-labs/bloch/releases/latest answers
set_latest() { mkdir -p "$1/repos/bloch-labs/bloch/releases"; printf '{"url":"x","tag_name": "%s","name":"rel"}' "$2" > "$1/repos/bloch-labs/bloch/releases/latest"; }
# bloch_net <home-dir> <bloch> args... : run bloch in a clean environment wired to the fake site
bloch_net()  { local home=$1 bin=$2; shift 2; mkdir -p "$home"
               env -i HOME="$home" PATH="$PATH" LD_PRELOAD="$TOOLS/shim.so" FAKE_PORT="$FAKE_PORT" SSL_CERT_FILE="$TOOLS/ca.pem" ${EXTRA_ENV:-} timeout 90 "$bin" "$@"; }
