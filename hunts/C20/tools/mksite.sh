#!/bin/bash
# usage: mksite.sh <root> <tag>   -- builds a fake GitHub site offering release <tag>
set -e
root=$1; tag=$2
rm -rf "$root"; mkdir -p "$root/repos/bloch-labs/bloch/releases" "$root/bloch-labs/bloch/releases/download/$tag"
printf '{"url":"x","tag_name": "%s","name":"rel"}' "$tag" > "$root/repos/bloch-labs/bloch/releases/latest"
d="$root/bloch-labs/bloch/releases/download/$tag"
asset="bloch-$tag-Linux-X64.tar.gz"
stage=$(mktemp -d)
mkdir -p "$stage/pkg/bin" "$stage/pkg/share/bloch/library/bloch/lang"
printf '#!/bin/sh\necho "NEW BINARY %s"\n' "$tag" > "$stage/pkg/bin/bloch"; chmod +x "$stage/pkg/bin/bloch"
echo "// stub" > "$stage/pkg/share/bloch/library/bloch/lang/Stub.bloch"
tar -C "$stage" -czf "$d/$asset" pkg
rm -rf "$stage"
(cd "$d" && sha256sum "$asset" > checksums.txt)
echo "$d"
