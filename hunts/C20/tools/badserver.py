import socket, ssl, sys, os, time, threading
here = os.path.dirname(os.path.abspath(__file__))
mode, port = sys.argv[1], int(sys.argv[2])
ctx = ssl.SSLContext(ssl.PROTOCOL_TLS_SERVER)
ctx.load_cert_chain(os.path.join(here, "srv.pem"), os.path.join(here, "srv.key"))
s = socket.socket(); s.setsockopt(socket.SOL_SOCKET, socket.SO_REUSEADDR, 1)
s.bind(("127.0.0.1", port)); s.listen(5)
open(sys.argv[3],"w").write(str(os.getpid()))
def handle(c):
    try:
        t = ctx.wrap_socket(c, server_side=True)
        if mode == "close":
            t.close()
        elif mode == "rst":
            import struct
            c2 = t.unwrap() if False else t
            t.setsockopt(socket.SOL_SOCKET, socket.SO_LINGER, struct.pack('ii', 1, 0)); t.close()
        elif mode == "stall":
            time.sleep(120)
        elif mode == "garbage":
            t.recv(4096); t.sendall(b"HTTP/1.1 200 OK\r\nContent-Length: 5\r\n\r\nhello"); t.close()
    except Exception as e:
        print("err", e, flush=True)
while True:
    c, _ = s.accept()
    threading.Thread(target=handle, args=(c,), daemon=True).start()
