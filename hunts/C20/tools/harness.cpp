#include "../../src/bloch/update/update_manager.cpp"
#include <iostream>
using namespace bloch::update;
int main(int argc,char**argv){
  std::string cmd=argv[1];
  if(cmd=="parse"){ for(int i=2;i<argc;i++){auto s=parseSemVer(argv[i]); std::cout<<"["<<argv[i]<<"] valid="<<s.valid<<" "<<s.major<<"."<<s.minor<<"."<<s.patch<<"\n";} }
  else if(cmd=="cmp"){ auto a=parseSemVer(argv[2]),b=parseSemVer(argv[3]); std::cout<<"cmp="<<compareSemVer(a,b)<<" hasLatest="<<hasLatest(argv[2],argv[3])<<" label="<<changeLabel(a,b)<<"\n"; }
  else if(cmd=="check"){ checkForUpdatesIfDue(argv[2]); }
  else if(cmd=="sum"){ std::ifstream f(argv[2]); std::stringstream ss; ss<<f.rdbuf(); auto r=parseChecksum(ss.str(),argv[3]); std::cout<<(r?*r:std::string("<none>"))<<"\n"; }
  else if(cmd=="tag"){ std::ifstream f(argv[2]); std::stringstream ss; ss<<f.rdbuf(); auto r=extractTagName(ss.str()); std::cout<<(r?*r:std::string("<none>"))<<"\n"; }
}
