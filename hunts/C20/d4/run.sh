#!/bin/bash
# d4: strings that are not versions ("2abc", "2024-09-01", "1.x.9", "1..9", a commit hash "9717efa")
#     are "parsed" by taking whatever leading digits there are and zero-filling the rest, and are then
#     announced / offered for installation / used to declare "already latest".
cd "$(dirname "$0")"; . ../tools/lib.sh
W=$PWD/../work/d4; rm -rf "$W"; mkdir -p "$W/site"
BLOCH=$(../tools/build_version.sh 1.2.3)
echo "##### A. update notice, cache only (no network involved); running version 1.2.3"
for latest in 2024-09-01 2abc 1.3garbage 1.3.x 1,9,9; do
  mkdir -p "$W/cache/bloch"; printf '%s\n%s\n0\n' "$(date +%s)" "$latest" > "$W/cache/bloch/update_cache.txt"
  echo "--- cached latest version string: '$latest'"
  env -i XDG_CACHE_HOME="$W/cache" "$BLOCH" demo.bloch
done
echo "##### B. bloch --update; running version 1.2.3"
start_site "$W/site"
for tag in 2abc 2024-09-01 1.3garbage 1.x.9 1..9 1.2.-7; do
  set_latest "$W/site" "$tag"; echo "--- latest release tag: '$tag'"
  echo n | bloch_net "$W/home" "$BLOCH" --update 2>&1; echo
done
echo "##### C. running version is a bare commit hash (what CMake bakes in for a checkout without tags)"
HASHBLOCH=$(../tools/build_version.sh 9717efa)
set_latest "$W/site" v1.0.4; echo "--- running '9717efa', latest release v1.0.4"
bloch_net "$W/home" "$HASHBLOCH" --update </dev/null 2>&1
stop_site
