#!/bin/bash
# d3: when checksums.txt has no line the parser recognises for the asset, the download is installed
#     with NO verification and NO warning - even though the file does list a (different) digest for it.
cd "$(dirname "$0")"; . ../tools/lib.sh
W=$PWD/../work/d3; rm -rf "$W"; mkdir -p "$W"
BLOCH=$(../tools/build_version.sh 1.2.3)
D=$(../tools/mksite.sh "$W/site" v1.2.4); A=bloch-v1.2.4-Linux-X64.tar.gz
WRONG=$(printf '%064d' 0)          # certainly not the digest of the archive = "tampered download"
start_site "$W/site"
try() { echo "--- $1"; bloch_net "$W/home" "$BLOCH" --update </dev/null 2>&1 | sed "s#\"/.*/work#\"<work>#"; }
printf '%s  %s\n' "$WRONG" "$A"            > "$D/checksums.txt"; try "control: 'WRONG  $A'"
printf '%s  ./%s\n' "$WRONG" "$A"          > "$D/checksums.txt"; try "sha256sum ./file style: 'WRONG  ./$A'"
printf 'SHA256 (%s) = %s\n' "$A" "$WRONG"  > "$D/checksums.txt"; try "BSD / 'sha256sum --tag' style: 'SHA256 ($A) = WRONG'"
printf '%s  %s\n' "$WRONG" "${A,,}"        > "$D/checksums.txt"; try "name differs only in letter case"
printf '%s  other.tar.gz\n' "$WRONG"       > "$D/checksums.txt"; try "asset not listed at all"
rm -f "$D/checksums.txt";                                        try "checksums.txt missing (404)"
stop_site
