#!/bin/bash
# d7: the update check / updater abort the whole process with an uncaught std::filesystem exception
#     when std::filesystem::temp_directory_path() fails (TMPDIR pointing to a directory that is gone).
cd "$(dirname "$0")"; . ../tools/lib.sh
W=$PWD/../work/d7; rm -rf "$W"; mkdir -p "$W"
BLOCH=$(../tools/build_version.sh 1.2.3)
echo "--- plain program run; HOME and XDG_CACHE_HOME unset, TMPDIR=/nonexistent (no network needed)"
env -i TMPDIR=/nonexistent "$BLOCH" demo.bloch 2>&1; echo "exit code: $?"
echo "--- control: same, but update checks disabled by environment"
env -i TMPDIR=/nonexistent BLOCH_NO_UPDATE_CHECK=1 "$BLOCH" demo.bloch 2>&1; echo "exit code: $?"
echo "--- bloch --update with a newer release available, HOME set, TMPDIR=/nonexistent"
../tools/mksite.sh "$W/site" v1.2.4 >/dev/null; start_site "$W/site"
EXTRA_ENV="TMPDIR=/nonexistent" bloch_net "$W/home" "$BLOCH" --update </dev/null 2>&1; echo "exit code: $?"
stop_site
