#!/bin/bash
# d5: if the RUNNING version cannot be parsed ("unknown" is the CMake default when there is no git /
#     no tag; a commit hash starting with a letter behaves the same), `bloch --update` skips the
#     comparison AND the major-version confirmation and installs whatever the latest tag is.
cd "$(dirname "$0")"; . ../tools/lib.sh
W=$PWD/../work/d5; rm -rf "$W"; mkdir -p "$W"
BLOCH=$(../tools/build_version.sh unknown)
echo "running version: $(BLOCH_OFFLINE=1 "$BLOCH" --version)"
../tools/mksite.sh "$W/site" v0.0.1 >/dev/null
start_site "$W/site"
echo "--- latest release v0.0.1 (asset + correct checksum available)"
bloch_net "$W/home" "$BLOCH" --update </dev/null 2>&1 | sed "s#\"/.*/work#\"<work>#"
../tools/mksite.sh "$W/site" v99.0.0 >/dev/null
echo "--- latest release v99.0.0 (README: 'major version jumps will prompt for confirmation')"
bloch_net "$W/home" "$BLOCH" --update </dev/null 2>&1 | sed "s#\"/.*/work#\"<work>#"
echo "--- the update notice path with the same running version and a cached latest of v0.0.1 / v99.0.0"
for latest in v0.0.1 v99.0.0; do
  mkdir -p "$W/cache/bloch"; printf '%s\n%s\n0\n' "$(date +%s)" "$latest" > "$W/cache/bloch/update_cache.txt"
  env -i XDG_CACHE_HOME="$W/cache" "$BLOCH" demo.bloch
done
stop_site
