// AST dumper used for round-trip testing (links against the unchanged compiler library).
#include <fstream>
#include <iostream>
#include <sstream>
#include "bloch/compiler/ast/ast.hpp"
#include "bloch/compiler/lexer/lexer.hpp"
#include "bloch/compiler/parser/parser.hpp"
#include "bloch/support/error/bloch_error.hpp"
using namespace bloch::compiler;
static std::string T(const Type* t);
static std::string E(const Expression* e) {
    if (!e) return "nil";
    if (auto p = dynamic_cast<const ParenthesizedExpression*>(e)) return E(p->expression.get());
    if (auto p = dynamic_cast<const LiteralExpression*>(e)) return "(lit " + p->literalType + " " + p->value + ")";
    if (dynamic_cast<const NullLiteralExpression*>(e)) return "(null)";
    if (auto p = dynamic_cast<const VariableExpression*>(e)) return "(var " + p->name + ")";
    if (auto p = dynamic_cast<const BinaryExpression*>(e)) return "(bin " + p->op + " " + E(p->left.get()) + " " + E(p->right.get()) + ")";
    if (auto p = dynamic_cast<const UnaryExpression*>(e)) return "(un " + p->op + " " + E(p->right.get()) + ")";
    if (auto p = dynamic_cast<const CastExpression*>(e)) return "(cast " + T(p->targetType.get()) + " " + E(p->expression.get()) + ")";
    if (auto p = dynamic_cast<const PostfixExpression*>(e)) return "(post " + p->op + " " + E(p->left.get()) + ")";
    if (auto p = dynamic_cast<const CallExpression*>(e)) { std::string s = "(call " + E(p->callee.get()); for (auto& a : p->arguments) s += " " + E(a.get()); return s + ")"; }
    if (auto p = dynamic_cast<const MemberAccessExpression*>(e)) return "(mem " + E(p->object.get()) + " " + p->member + ")";
    if (auto p = dynamic_cast<const NewExpression*>(e)) { std::string s = "(new " + T(p->classType.get()); for (auto& a : p->arguments) s += " " + E(a.get()); return s + ")"; }
    if (dynamic_cast<const ThisExpression*>(e)) return "(this)";
    if (dynamic_cast<const SuperExpression*>(e)) return "(super)";
    if (auto p = dynamic_cast<const IndexExpression*>(e)) return "(idx " + E(p->collection.get()) + " " + E(p->index.get()) + ")";
    if (auto p = dynamic_cast<const ArrayLiteralExpression*>(e)) { std::string s = "(arr"; for (auto& a : p->elements) s += " " + E(a.get()); return s + ")"; }
    if (auto p = dynamic_cast<const MeasureExpression*>(e)) return "(meas " + E(p->qubit.get()) + ")";
    if (auto p = dynamic_cast<const AssignmentExpression*>(e)) return "(asg " + p->name + " " + E(p->value.get()) + ")";
    if (auto p = dynamic_cast<const MemberAssignmentExpression*>(e)) return "(masg " + E(p->object.get()) + " " + p->member + " " + E(p->value.get()) + ")";
    if (auto p = dynamic_cast<const ArrayAssignmentExpression*>(e)) return "(aasg " + E(p->collection.get()) + " " + E(p->index.get()) + " " + E(p->value.get()) + ")";
    return "(?expr)";
}
static std::string T(const Type* t) {
    if (!t) return "niltype";
    if (auto p = dynamic_cast<const PrimitiveType*>(t)) return p->name;
    if (dynamic_cast<const VoidType*>(t)) return "void";
    if (auto p = dynamic_cast<const NamedType*>(t)) { std::string s; for (size_t i = 0; i < p->nameParts.size(); ++i) s += (i ? "." : "") + p->nameParts[i]; if (p->hasTypeArgumentList) { s += "<"; for (size_t i = 0; i < p->typeArguments.size(); ++i) s += (i ? "," : "") + T(p->typeArguments[i].get()); s += ">"; } return s; }
    if (auto p = dynamic_cast<const ArrayType*>(t)) { std::string s = T(p->elementType.get()) + "["; if (p->sizeExpression) s += E(p->sizeExpression.get()); else if (p->size >= 0) s += std::to_string(p->size); return s + "]"; }
    return "?type";
}
static std::string A(const std::vector<std::unique_ptr<AnnotationNode>>& as) { std::string s; for (auto& a : as) s += " @" + a->name + (a->value.empty() ? "" : "(" + a->value + ")"); return s; }
static std::string S(const Statement* st) {
    if (!st) return "nil";
    if (auto p = dynamic_cast<const VariableDeclaration*>(st)) return std::string("(decl") + (p->isFinal ? " final" : "") + (p->isTracked ? " tracked" : "") + A(p->annotations) + " " + T(p->varType.get()) + " " + p->name + " " + E(p->initializer.get()) + ")";
    if (auto p = dynamic_cast<const BlockStatement*>(st)) { std::string s = "(block"; for (auto& x : p->statements) s += " " + S(x.get()); return s + ")"; }
    if (auto p = dynamic_cast<const ExpressionStatement*>(st)) return "(expr " + E(p->expression.get()) + ")";
    if (auto p = dynamic_cast<const ReturnStatement*>(st)) return "(return " + E(p->value.get()) + ")";
    if (auto p = dynamic_cast<const IfStatement*>(st)) return "(if " + E(p->condition.get()) + " " + S(p->thenBranch.get()) + " " + S(p->elseBranch.get()) + ")";
    if (auto p = dynamic_cast<const ForStatement*>(st)) return "(for " + S(p->initializer.get()) + " " + E(p->condition.get()) + " " + E(p->increment.get()) + " " + S(p->body.get()) + ")";
    if (auto p = dynamic_cast<const WhileStatement*>(st)) return "(while " + E(p->condition.get()) + " " + S(p->body.get()) + ")";
    if (auto p = dynamic_cast<const EchoStatement*>(st)) return "(echo " + E(p->value.get()) + ")";
    if (auto p = dynamic_cast<const ResetStatement*>(st)) return "(reset " + E(p->target.get()) + ")";
    if (auto p = dynamic_cast<const MeasureStatement*>(st)) return "(measure " + E(p->qubit.get()) + ")";
    if (auto p = dynamic_cast<const DestroyStatement*>(st)) return "(destroy " + E(p->target.get()) + ")";
    if (auto p = dynamic_cast<const TernaryStatement*>(st)) return "(tern " + E(p->condition.get()) + " " + S(p->thenBranch.get()) + " " + S(p->elseBranch.get()) + ")";
    if (auto p = dynamic_cast<const AssignmentStatement*>(st)) return "(assign " + p->name + " " + E(p->value.get()) + ")";
    return "(?stmt)";
}
static std::string P(const std::vector<std::unique_ptr<Parameter>>& ps) { std::string s = "("; for (size_t i = 0; i < ps.size(); ++i) s += (i ? " " : "") + T(ps[i]->type.get()) + ":" + ps[i]->name; return s + ")"; }
static const char* V(Visibility v) { return v == Visibility::Public ? "public" : v == Visibility::Private ? "private" : "protected"; }
int main(int argc, char** argv) {
    std::stringstream ss;
    if (argc > 1) { std::ifstream f(argv[1]); ss << f.rdbuf(); } else ss << std::cin.rdbuf();
    std::string src = ss.str();
    try {
        Lexer lx(src);
        Parser ps(lx.tokenize());
        auto prog = ps.parse();
        if (prog->packageDecl) { std::cout << "(package"; for (auto& n : prog->packageDecl->nameParts) std::cout << " " << n; std::cout << ")\n"; }
        for (auto& im : prog->imports) { std::cout << "(import"; for (auto& n : im->packageParts) std::cout << " " << n; if (im->symbol) std::cout << " sym=" << *im->symbol; if (im->isWildcard) std::cout << " *"; std::cout << ")\n"; }
        for (auto& c : prog->classes) {
            std::cout << "(class" << (c->isStatic ? " static" : "") << (c->isAbstract ? " abstract" : "") << " " << c->name;
            if (!c->typeParameters.empty()) { std::cout << " <"; for (auto& tp : c->typeParameters) std::cout << " " << tp->name << (tp->bound ? ":" + T(tp->bound.get()) : ""); std::cout << " >"; }
            if (c->baseType) std::cout << " extends " << T(c->baseType.get());
            std::cout << "\n";
            for (auto& m : c->members) {
                if (auto f = dynamic_cast<FieldDeclaration*>(m.get())) std::cout << "  (field " << V(f->visibility) << (f->isStatic ? " static" : "") << (f->isFinal ? " final" : "") << (f->isTracked ? " tracked" : "") << A(f->annotations) << " " << T(f->fieldType.get()) << " " << f->name << " " << E(f->initializer.get()) << ")\n";
                else if (auto f = dynamic_cast<MethodDeclaration*>(m.get())) std::cout << "  (method " << V(f->visibility) << (f->isStatic ? " static" : "") << (f->isVirtual ? " virtual" : "") << (f->isOverride ? " override" : "") << (f->hasQuantumAnnotation ? " Q" : "") << A(f->annotations) << " " << f->name << " " << P(f->params) << " " << T(f->returnType.get()) << " " << S(f->body.get()) << ")\n";
                else if (auto f = dynamic_cast<ConstructorDeclaration*>(m.get())) std::cout << "  (ctor " << V(f->visibility) << (f->isDefault ? " default" : "") << " " << P(f->params) << " " << S(f->body.get()) << ")\n";
                else if (auto f = dynamic_cast<DestructorDeclaration*>(m.get())) std::cout << "  (dtor " << V(f->visibility) << (f->isDefault ? " default" : "") << " " << S(f->body.get()) << ")\n";
            }
            std::cout << ")\n";
        }
        for (auto& f : prog->functions) std::cout << "(function" << (f->hasQuantumAnnotation ? " Q" : "") << (f->hasShotsAnnotation ? " SH" : "") << A(f->annotations) << " " << f->name << " " << P(f->params) << " " << T(f->returnType.get()) << " " << S(f->body.get()) << ")\n";
        for (auto& s : prog->statements) std::cout << S(s.get()) << "\n";
    } catch (const bloch::support::BlochError& e) {
        std::cout << "ERROR " << e.line << ":" << e.column << " " << e.what() << "\n";
        return 1;
    } catch (const std::exception& e) {
        std::cout << "RAWEXC " << e.what() << "\n";
        return 2;
    }
    return 0;
}
