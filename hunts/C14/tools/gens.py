#!/usr/bin/env python3
# Random statement / function / class round-trip tester.
import random, subprocess, sys
sys.argv=[sys.argv[0]]+sys.argv[1:]
import importlib.util
spec=importlib.util.spec_from_file_location('g','/tmp/wt_C14h/HUNT/tools/gen.py')
src=open('/tmp/wt_C14h/HUNT/tools/gen.py').read().replace('\nmain()\n','\n')
g={}; exec(compile(src,'gen','exec'),g)
gen=g['gen']; rn=g['rn']; sx=g['sx']; run=g['run']
TYPES=['int','float','bit','qubit','string','char','long','boolean','int[]','int[3]','qubit[2]','Foo','p.Foo','Box<int>','Box<Foo<long>>[]','float[n]']
def tsx(t): return t.replace('[n]','[(var n)]')
def ex(d=2):
    while True:
        t=gen(random.randint(0,d)); s,_=rn(t)
        return t,s
def stmt(d):
    r=random.random()
    if d<=0: r=r*0.6
    if r<0.10:
        t,s=ex(); 
        if s.startswith('{') or (t[0] in('asg','meas') ) : return stmt(d)
        return s+';','(expr %s)'%sx(t)
    if r<0.18:
        t,s=ex(); return 'v = '+s+';','(assign v %s)'%sx(t)
    if r<0.30:
        ty=random.choice(TYPES); fin=random.random()<0.3; tr=random.random()<0.3
        n=random.choice(['v','w','z'])
        if random.random()<0.6:
            t,s=ex(); init=' = '+s; isx=sx(t)
        else: init='';isx='nil'
        return ('final ' if fin else '')+('@tracked ' if tr else '')+ty+' '+n+init+';', '(decl%s%s%s %s %s %s)'%(' final' if fin else '',' tracked' if tr else '',' @tracked' if tr else '',tsx(ty),n,isx)
    if r<0.36:
        if random.random()<0.3: return 'return;','(return nil)'
        t,s=ex(); return 'return '+s+';','(return %s)'%sx(t)
    if r<0.42:
        t,s=ex(); return 'echo('+s+');','(echo %s)'%sx(t)
    if r<0.47:
        t,s=ex(); return 'reset '+s+';','(reset %s)'%sx(t)
    if r<0.52:
        t,s=ex(); return 'measure '+s+';','(measure %s)'%sx(t)
    if r<0.56:
        t,s=ex(); return 'destroy '+s+';','(destroy %s)'%sx(t)
    if r<0.60:
        names=random.sample(['q0','q1','q2','q3'],random.randint(2,3)); fin=random.random()<0.3; tr=random.random()<0.3
        return ('final ' if fin else '')+('@tracked ' if tr else '')+'qubit '+', '.join(names)+';', ' '.join('(decl%s%s%s qubit %s nil)'%(' final' if fin else '',' tracked' if tr else '',' @tracked' if tr else '',n) for n in names)
    if r<0.68: 
        b,bs=block(d-1); return b,bs
    if r<0.76:
        t,s=ex(); b,bs=block(d-1)
        if random.random()<0.5:
            e,es=block(d-1); return 'if ('+s+') '+b+' else '+e,'(if %s %s %s)'%(sx(t),bs,es)
        return 'if ('+s+') '+b,'(if %s %s nil)'%(sx(t),bs)
    if r<0.82:
        t,s=ex(); b,bs=block(d-1); return 'while ('+s+') '+b,'(while %s %s)'%(sx(t),bs)
    if r<0.90:
        c,cs=ex(); u,us=ex(); b,bs=block(d-1)
        k=random.random()
        if k<0.3: i=';';isx='nil'
        elif k<0.6:
            t,s=ex(); ty=random.choice(['int','float','long','int[]']); fin=random.random()<0.3
            i=('final ' if fin else '')+ty+' i = '+s+';'; isx='(decl%s %s i %s)'%(' final' if fin else '',ty,sx(t))
        else:
            t,s=ex()
            if s.startswith('{'): i=';';isx='nil'
            else: i=s+';'; isx='(expr %s)'%sx(t)
        return 'for ('+i+' '+cs+'; '+us+') '+b,'(for %s %s %s %s)'%(isx,sx(c),sx(u),bs)
    # ternary
    t,s=ex()
    if s.startswith('{') or s.startswith('measure') or t[0]=='asg': return stmt(d)
    a,as_=stmt(d-1); b,bs=stmt(d-1)
    if as_.count('(decl')>1 and not a.startswith('{') and 'qubit q' in a.split(';')[0] and ',' in a.split(';')[0]: return stmt(d)
    if bs.count('(decl')>1 and not b.startswith('{') and 'qubit q' in b.split(';')[0] and ',' in b.split(';')[0]: return stmt(d)
    return s+' ? '+a+' : '+b,'(tern %s %s %s)'%(sx(t),as_,bs)
def block(d):
    n=random.randint(0,3); ss=[stmt(d) for _ in range(n)]
    return '{ '+' '.join(s for s,_ in ss)+' }','(block%s)'%''.join(' '+x for _,x in ss)
def main():
    n=int(sys.argv[1]); random.seed(int(sys.argv[2])); fails=0
    for i in range(n):
        s,e=stmt(3)
        got=run(s).replace('\n',' ')
        if got!=e and 'array index must be non-negative' not in got:
            fails+=1
            if fails<=int(sys.argv[3]): print('SRC:',s);print('EXP:',e);print('GOT:',got);print()
    print('fails',fails,'of',n)
main()
