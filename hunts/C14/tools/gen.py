#!/usr/bin/env python3
# Random render-then-parse round-trip tester for Bloch expressions.
# Trees are rendered with the minimal parentheses the documented grammar requires
# (optionally with redundant ones), parsed with the unchanged parser (tools/dump) and compared.
import random, subprocess, sys
DUMP = '/tmp/wt_C14h/HUNT/tools/dump'
BIN = [('||',1),('&&',2),('|',3),('^',4),('&',5),('==',6),('!=',6),('<',7),('>',7),('<=',7),('>=',7),('+',8),('-',8),('*',9),('/',9),('%',9)]
PREC = dict(BIN)
UN = ['-','!','~']
CASTT = ['int','float','bit','long','char','boolean','string']
LITS = [('int','1'),('int','0'),('int','42'),('float','2.5f'),('bit','1b'),('bit','0b'),('string','"s"'),('char',"'c'"),('boolean','true'),('boolean','false'),('long','3L')]
import os
VP=float(os.environ.get('VP','0.5'))
NAMES = ['a','b','c','q','xs','f','g']

def prec(t):
    k=t[0]
    if k in('asg','masg','aasg'): return 0
    if k=='bin': return PREC[t[1]]
    if k in('un','cast'): return 10
    if k in('post','call','idx','mem'): return 11
    return 12
def sx(t):
    k=t[0]
    if k=='lit': return '(lit %s %s)'%(t[1],t[2])
    if k=='var': return '(var %s)'%t[1]
    if k=='null': return '(null)'
    if k=='this': return '(this)'
    if k=='bin': return '(bin %s %s %s)'%(t[1],sx(t[2]),sx(t[3]))
    if k=='un': return '(un %s %s)'%(t[1],sx(t[2]))
    if k=='cast': return '(cast %s %s)'%(t[1],sx(t[2]))
    if k=='post': return '(post %s %s)'%(t[1],sx(t[2]))
    if k=='call': return '(call %s%s)'%(sx(t[1]),''.join(' '+sx(a) for a in t[2]))
    if k=='idx': return '(idx %s %s)'%(sx(t[1]),sx(t[2]))
    if k=='mem': return '(mem %s %s)'%(sx(t[1]),t[2])
    if k=='arr': return '(arr%s)'%''.join(' '+sx(a) for a in t[1])
    if k=='meas': return '(meas %s)'%sx(t[1])
    if k=='asg': return '(asg %s %s)'%(t[1],sx(t[2]))
    if k=='masg': return '(masg %s %s %s)'%(sx(t[1]),t[2],sx(t[3]))
    if k=='aasg': return '(aasg %s %s %s)'%(sx(t[1]),sx(t[2]),sx(t[3]))
    if k=='new': return '(new %s%s)'%(t[1],''.join(' '+sx(a) for a in t[2]))
    raise Exception(k)
def par(s): return '('+s+')'
# returns (text, open): open = ends with an unparenthesised greedy tail ('measure e' / 'x = e')
def rn(t, R=0.0):
    s,o = rn0(t, R)
    if R and random.random()<R: return par(s),False
    return s,o
def rn0(t, R):
    k=t[0]
    if k=='lit': return t[2],False
    if k=='var': return t[1],False
    if k=='null': return 'null',False
    if k=='this': return 'this',False
    if k=='bin':
        p=PREC[t[1]]
        l,lo=rn(t[2],R); r,ro=rn(t[3],R)
        if (prec(t[2])<p and not (l.startswith('(') and R and False)) or lo: l=par(l)
        if prec(t[3])<=p: r=par(r); ro=False
        return l+' '+t[1]+' '+r, ro
    if k=='un':
        s,o=rn(t[2],R)
        if prec(t[2])<10: s=par(s);o=False
        if s.startswith('-') and t[1]=='-': s=' '+s
        return t[1]+s,o
    if k=='cast':
        s,o=rn(t[2],R)
        if prec(t[2])<10: s=par(s);o=False
        return '('+t[1]+') '+s,o
    if k=='post':
        s,o=rn(t[2],R)
        if prec(t[2])<11 or o: s=par(s)
        return s+t[1],False
    if k in('call','idx','mem'):
        s,o=rn(t[1],R)
        if prec(t[1])<11 or o: s=par(s)
        if k=='call': return s+'('+', '.join(rn(a,R)[0] for a in t[2])+')',False
        if k=='idx': return s+'['+rn(t[2],R)[0]+']',False
        if s[-1].isdigit(): s=par(s)
        return s+'.'+t[2],False
    if k=='arr': return '{'+', '.join(rn(a,R)[0] for a in t[1])+'}',False
    if k=='new': return 'new '+t[1]+'('+', '.join(rn(a,R)[0] for a in t[2])+')',False
    if k=='meas': return 'measure '+rn(t[1],R)[0],True
    if k=='asg': return t[1]+' = '+rn(t[2],R)[0],True
    if k=='masg':
        s,o=rn(t[1],R)
        if prec(t[1])<11 or o or s[-1].isdigit(): s=par(s)
        return s+'.'+t[2]+' = '+rn(t[3],R)[0],True
    if k=='aasg':
        s,o=rn(t[1],R)
        if prec(t[1])<11 or o: s=par(s)
        return s+'['+rn(t[2],R)[0]+'] = '+rn(t[3],R)[0],True
    raise Exception(k)

def gen(d):
    if d<=0 or random.random()<0.15:
        r=random.random()
        if r<VP: return ('var',random.choice(NAMES))
        if r<0.9: return ('lit',)+random.choice(LITS)
        if r<0.95: return ('null',)
        return ('this',)
    r=random.random()
    if r<0.40:
        op=random.choice(BIN)[0]; return ('bin',op,gen(d-1),gen(d-1))
    if r<0.52: return ('un',random.choice(UN),gen(d-1))
    if r<0.60: return ('cast',random.choice(CASTT),gen(d-1))
    if r<0.65: return ('post',random.choice(['++','--']),gen(d-1))
    if r<0.72: return ('call',gen(d-1),[gen(d-1) for _ in range(random.randint(0,2))])
    if r<0.79: return ('idx',gen(d-1),gen(d-1))
    if r<0.85: return ('mem',gen(d-1),random.choice(NAMES))
    if r<0.88: return ('arr',[gen(d-1) for _ in range(random.randint(0,3))])
    if r<0.91: return ('meas',gen(d-1))
    if r<0.94: return ('asg',random.choice(NAMES),gen(d-1))
    if r<0.96: return ('masg',gen(d-1),random.choice(NAMES),gen(d-1))
    if r<0.98: return ('aasg',gen(d-1),gen(d-1),gen(d-1))
    return ('new',random.choice(['Foo','Box<int>','p.Foo']),[gen(d-1) for _ in range(random.randint(0,2))])

CTX = [
 ('%s;', '(expr %s)'),
 ('%s;', '(expr %s)'),
 ('%s ? echo(1); : echo(2);', '(tern %s (echo (lit int 1)) (echo (lit int 2)))'),
 ('%s ? echo(1); : echo(2);', '(tern %s (echo (lit int 1)) (echo (lit int 2)))'),
 ('echo(%s);', '(echo %s)'),
 ('int v = %s;', '(decl int v %s)'),
 ('return %s;', '(return %s)'),
 ('if (%s) { }', '(if %s (block) nil)'),
 ('while (%s) { }', '(while %s (block))'),
 ('for (; %s; i++) { }', '(for nil %s (post ++ (var i)) (block))'),
 ('for (; a; %s) { }', '(for nil (var a) %s (block))'),
 ('reset %s;', '(reset %s)'),
 ('measure %s;', '(measure %s)'),
 ('f(%s, 1);', '(expr (call (var f) %s (lit int 1)))'),
 ('v = %s;', '(assign v %s)'),
 ('(%s) ? echo(1); : echo(2);', '(tern %s (echo (lit int 1)) (echo (lit int 2)))'),
]
def run(src):
    p=subprocess.run([DUMP],input=src,capture_output=True,text=True)
    return p.stdout.strip()
def main():
    n=int(sys.argv[1]); seed=int(sys.argv[2]) if len(sys.argv)>2 else 1; R=float(sys.argv[3]) if len(sys.argv)>3 else 0.0
    random.seed(seed)
    seen=set(); fails=0
    for i in range(n):
        t=gen(random.randint(1,4))
        s,_=rn(t,R)
        c,e=random.choice(CTX)
        src=c%s; exp=e%sx(t)
        if c=='%s;':
            if s.startswith('{'): continue
            if t[0]=='asg' and not s.startswith('('): exp='(assign %s %s)'%(t[1],sx(t[2]))
            elif t[0]=='meas' and not s.startswith('('): exp='(measure %s)'%sx(t[1])
        if c.startswith('%s ?'):
            if s.startswith('{') or s.startswith('measure'): continue
            if t[0]=='asg' and not s.startswith('('): continue
        got=run(src)
        if got!=exp:
            if 'array index must be non-negative' in got: continue
            key=got[:60] if got.startswith('ERROR') else 'DIFF'
            fails+=1
            if fails<=int(sys.argv[4]) if len(sys.argv)>4 else fails<=40:
                print('SRC:',src); print('EXP:',exp); print('GOT:',got); print()
    print('fails',fails,'of',n)
main()
