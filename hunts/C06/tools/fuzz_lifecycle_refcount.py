import random, subprocess, sys, re
BL='/tmp/wt_C06h/_build/bin/bloch'
HEADER='''function note() -> int { return 1; }
class A { public qubit q; public qubit[2] r; public A peer; public constructor() -> A { }
  public function getQ() -> qubit { return q; }
  public destructor() -> void { int z = note(); }
}
class W { public A a; public qubit k; public constructor(A a, qubit k) -> W { this.a = a; this.k = k; }
  public destructor() -> void { int z = note(); this.a = null; } }
static class S { public static qubit sh; public static A so; }
function mk(A keep) -> qubit { A t = new A(); W w = new W(t, t.q); return w.k; }
function mk3() -> qubit { if (true) { A t = new A(); W w = new W(t, t.r[0]); return t.getQ(); } qubit z; return z; }
function mk4() -> qubit { A t = new A(); A u = new A(); t.peer = u; u.peer = t; return u.q; }
'''
class Q:
    def __init__(s): s.m=False
class O:
    def __init__(s): s.q=Q(); s.r0=Q(); s.r1=Q(); s.refs=0
def gen(seed):
    rnd=random.Random(seed)
    L=[]
    L.append('function main() -> void {')
    L.append('  qubit h0; qubit h1; qubit h2;')
    handles={'h0':Q(),'h1':Q(),'h2':Q()}
    ovars={}  # name -> O or None
    wvars={}  # name -> (O, Q) or None
    static_so=[None]
    static_sh=[None]
    cnt=0; expect=None
    hl=len(HEADER.split('\n'))-1
    def unref(o):
        if o is None: return
        o.refs-=1
        if o.refs==0:
            for q in (o.q,o.r0,o.r1): q.m=False
    def live_exprs():
        d=dict(handles)
        for n,o in ovars.items():
            if o: 
                d[n+'.q']=o.q; d[n+'.getQ()']=o.q; d[n+'.r[0]']=o.r0; d[n+'.r[1]']=o.r1
        for n,w in wvars.items():
            if w: d[n+'.k']=w[1]; 
            if w and w[0]: d[n+'.a.q']=w[0].q
        if static_sh[0]: d['S.sh']=static_sh[0]
        if static_so[0]: d['S.so.q']=static_so[0].q; d['S.so.r[1]']=static_so[0].r1
        return d
    n=rnd.randint(5,12)
    for step in range(n):
        lineno=hl+len(L)+1
        cnt+=1
        op=rnd.choice(['newobj','alias','copy','copy','destroy','destroyw','mk','newq','use','use','use','use','w','sso','ssh','reassign','nullso'])
        liveo=[n for n,o in ovars.items() if o]
        if op=='newobj':
            nm='o%d'%cnt; o=O(); o.refs=1
            L.append('  A %s = new A();'%nm); ovars[nm]=o
        elif op=='alias' and liveo:
            src=rnd.choice(liveo); nm='o%d'%cnt
            L.append('  A %s = %s;'%(nm,src)); ovars[nm]=ovars[src]; ovars[nm].refs+=1
        elif op=='reassign' and liveo:
            nm=rnd.choice(liveo); old=ovars[nm]; o=O(); o.refs=1
            L.append('  %s = new A();'%nm); ovars[nm]=o; unref(old)
        elif op=='copy':
            d=live_exprs(); src=rnd.choice(list(d)); tgt=rnd.choice(['h0','h1','h2'])
            L.append('  %s = %s;'%(tgt,src)); handles[tgt]=d[src]
        elif op=='destroy' and liveo:
            nm=rnd.choice(liveo)
            L.append('  destroy %s;'%nm); o=ovars[nm]; ovars[nm]=None; unref(o)
        elif op=='destroyw' and [n for n,w in wvars.items() if w]:
            nm=rnd.choice([n for n,w in wvars.items() if w])
            L.append('  destroy %s;'%nm); w=wvars[nm]; wvars[nm]=None; unref(w[0])
        elif op=='mk':
            tgt=rnd.choice(['h0','h1','h2'])
            L.append('  %s = %s;'%(tgt,rnd.choice(['mk(null)','mk3()','mk4()'])))
            handles[tgt]=Q()
        elif op=='newq':
            nm='n%d'%cnt; L.append('  qubit %s;'%nm); handles[nm]=Q()
        elif op=='w' and liveo:
            d=live_exprs(); src=rnd.choice(list(d)); on=rnd.choice(liveo); nm='w%d'%cnt
            L.append('  W %s = new W(%s, %s);'%(nm,on,src)); ovars[on].refs+=1; wvars[nm]=(ovars[on],d[src])
        elif op=='sso' and liveo:
            on=rnd.choice(liveo); L.append('  S.so = %s;'%on); old=static_so[0]; static_so[0]=ovars[on]; ovars[on].refs+=1; unref(old)
        elif op=='nullso' and static_so[0]:
            L.append('  S.so = null;'); old=static_so[0]; static_so[0]=None; unref(old)
        elif op=='ssh':
            d=live_exprs(); src=rnd.choice(list(d)); L.append('  S.sh = %s;'%src); static_sh[0]=d[src]
        else:
            d=live_exprs()
            e=rnd.choice(list(d)); q=d[e]
            kind=rnd.choice(['g','g','m','m','r'])
            if kind=='g':
                L.append('  x(%s);'%e)
                if q.m: expect=lineno;break
            elif kind=='m':
                L.append('  measure %s;'%e)
                if q.m: expect=lineno;break
                q.m=True
            else:
                L.append('  reset %s;'%e); q.m=False
    L.append('  echo("DONE");')
    L.append('}')
    return HEADER+'\n'.join(L)+'\n', expect
if __name__=='__main__':
  bad=0
  for seed in range(int(sys.argv[1]),int(sys.argv[2])):
    src,exp=gen(seed)
    fn='g%d.bloch'%(seed%50)
    open(fn,'w').write(src)
    try:
        p=subprocess.run([BL,fn],capture_output=True,text=True,timeout=20)
    except subprocess.TimeoutExpired:
        print('timeout',seed); continue
    out=re.sub(r'\x1b\[[0-9;]*m','',p.stdout+p.stderr)
    m=re.search(r'Runtime error at Ln (\d+), Col \d+: qubit .* has already been measured',out)
    if exp is None:
        ok = 'DONE' in out and 'rror' not in out
    else:
        ok = m is not None and int(m.group(1))==exp
    if not ok:
        bad+=1
        print('MISMATCH seed',seed,'expect',exp,'out:',out.replace('\n',' | ')[:250])
        open('bad3_%d.bloch'%seed,'w').write(src)
  print('bad',bad)
