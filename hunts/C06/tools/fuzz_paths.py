import random, subprocess, sys, re
BL='/tmp/wt_C06h/_build/bin/bloch'
HEADER='''class A { public qubit q; public qubit[2] r; public constructor() -> A { }
  public function g0() -> void { x(this.q); }
  public function g1(int i) -> void { h(r[i]); }
  public function m0() -> bit { return measure q; }
  public function m1(int i) -> void { measure this.r[i]; }
  public function ma() -> void { measure r; }
  public function r0() -> void { reset this.q; }
  public function r1(int i) -> void { reset r[i]; }
  public function getQ() -> qubit { return q; }
  public function getR() -> qubit[] { return this.r; }
}
class D extends A { public qubit e; public constructor() -> D { super(); } }
static class S { public static qubit q; public static qubit[2] r;
  public static function g(qubit p) -> void { z(p); }
  public static function m(qubit p) -> bit { return measure p; }
  public static function rs(qubit p) -> void { reset p; } }
function fg(qubit p) -> void { y(p); }
function fm(qubit p) -> bit { return measure p; }
function fr(qubit p) -> void { reset p; }
function fma(qubit[] p) -> void { measure p; }
function fgi(qubit[] p, int i) -> void { x(p[i]); }
function fmi(qubit[] p, int i) -> void { measure p[i]; }
function fri(qubit[] p, int i) -> void { reset p[i]; }
function id(qubit p) -> qubit { return p; }
function ida(qubit[] p) -> qubit[] { return p; }
'''
# qubits: name -> list of expressions
single = {
 'a': ['a','id(a)','al'],
 'r0': ['r[0]','id(r[0])','ida(r)[0]','r[zero]'],
 'r1': ['r[1]','id(r[1])','ida(r)[1]','r[one]'],
 'oq': ['o.q','o.getQ()','id(o.q)','oh'],
 'or0': ['o.r[0]','o.getR()[0]'],
 'or1': ['o.r[1]','o.getR()[1]'],
 'dq': ['d.q','d.getQ()','b.q','b.getQ()'],
 'de': ['d.e'],
 'dr0': ['d.r[0]','b.r[0]'],
 'dr1': ['d.r[1]','b.getR()[1]'],
 'sq': ['S.q','id(S.q)'],
 'sr0': ['S.r[0]'],
 'sr1': ['S.r[1]','ida(S.r)[1]'],
}
arrays = {
 'r': (['r','ida(r)'],['r0','r1']),
 'or': (['o.r','o.getR()'],['or0','or1']),
 'dr': (['d.r','b.r','b.getR()'],['dr0','dr1']),
 'sr': (['S.r'],['sr0','sr1']),
}
def gen(seed):
    rnd=random.Random(seed)
    lines=[]
    lines.append('function main() -> void {')
    lines.append('  qubit a; qubit[2] r; A o = new A(); D d = new D(); A b = d; int zero = 0; int one = 1;')
    lines.append('  qubit al = a; qubit oh = o.q;')
    measured={k:False for k in single}
    expect=None
    n=rnd.randint(4,14)
    for k in range(n):
        lineno=len(HEADER.split('\n'))-1+len(lines)+1
        op=rnd.choice(['gate','gate','meas','meas','measarr','reset','reset','cx'])
        if op=='measarr':
            an=rnd.choice(list(arrays))
            ex=rnd.choice(arrays[an][0])
            form=rnd.choice(['measure %s;','fma(%s);'])
            if an=='or' and rnd.random()<0.3: stmt='o.ma();'
            elif an=='dr' and rnd.random()<0.3: stmt=rnd.choice(['d.ma();','b.ma();'])
            else: stmt=form%ex
            lines.append('  '+stmt)
            bad=any(measured[e] for e in arrays[an][1])
            if bad: expect=lineno;break
            for e in arrays[an][1]: measured[e]=True
            continue
        if op=='cx':
            q1,q2=rnd.sample(list(single),2)
            stmt='cx(%s, %s);'%(rnd.choice(single[q1]),rnd.choice(single[q2]))
            lines.append('  '+stmt)
            if measured[q1] or measured[q2]: expect=lineno;break
            continue
        q=rnd.choice(list(single))
        ex=rnd.choice(single[q])
        if op=='gate':
            forms=['x(%s);','h(%s);','rz(%s, 0.5f);','fg(%s);','S.g(%s);']
            stmt=rnd.choice(forms)%ex
            if q=='oq' and rnd.random()<0.3: stmt='o.g0();'
            if q=='or1' and rnd.random()<0.3: stmt='o.g1(1);'
            if q=='dq' and rnd.random()<0.3: stmt='b.g0();'
            if q in('r0','r1') and rnd.random()<0.3: stmt='fgi(r, %s);'%q[1]
            lines.append('  '+stmt)
            if measured[q]: expect=lineno;break
        elif op=='meas':
            forms=['measure %s;','bit t%d = measure %%s;'%k,'bit t%d = fm(%%s);'%k,'bit t%d = S.m(%%s);'%k,'if (measure %s) { }','echo(measure %s);']
            stmt=rnd.choice(forms)%ex
            if q=='oq' and rnd.random()<0.3: stmt='bit t%d = o.m0();'%k
            if q=='or0' and rnd.random()<0.3: stmt='o.m1(0);'
            if q=='dr1' and rnd.random()<0.3: stmt='b.m1(1);'
            if q in('sr0','sr1') and rnd.random()<0.3: stmt='fmi(S.r, %s);'%q[2]
            lines.append('  '+stmt)
            if measured[q]: expect=lineno;break
            measured[q]=True
        else:
            forms=['reset %s;','fr(%s);','S.rs(%s);']
            stmt=rnd.choice(forms)%ex
            if q=='oq' and rnd.random()<0.3: stmt='o.r0();'
            if q=='dr0' and rnd.random()<0.3: stmt='d.r1(0);'
            if q in('r0','r1') and rnd.random()<0.3: stmt='fri(ida(r), %s);'%q[1]
            lines.append('  '+stmt)
            measured[q]=False
    lines.append('  echo("DONE");')
    lines.append('}')
    return HEADER+'\n'.join(lines)+'\n', expect
bad=0
for seed in range(int(sys.argv[1]),int(sys.argv[2])):
    src,exp=gen(seed)
    fn='p%d.bloch'%seed
    open(fn,'w').write(src)
    p=subprocess.run([BL,fn],capture_output=True,text=True,timeout=30)
    out=re.sub(r'\x1b\[[0-9;]*m','',p.stdout+p.stderr)
    m=re.search(r'Runtime error at Ln (\d+), Col \d+: qubit .* has already been measured',out)
    if exp is None:
        ok = 'DONE' in out and 'rror' not in out
    else:
        # error may be located inside a helper; accept any "already measured" error but check DONE absent
        ok = m is not None and 'DONE' not in out
    if not ok:
        bad+=1
        print('MISMATCH seed',seed,'expect',exp,'out:',out[:300])
print('bad',bad)
