import random, subprocess, sys, re
BL='/tmp/wt_C06h/_build/bin/bloch'
HEADER='''class A { public qubit q; public qubit[2] r; public constructor() -> A { }
  public function getQ() -> qubit { return q; }
}
class K { public qubit k; public constructor(qubit k) -> K { this.k = k; } }
static class S { public static qubit sh; public static A so; }
function mk() -> qubit { A t = new A(); return t.q; }
function mk2() -> qubit { A t = new A(); qubit u = t.r[1]; return u; }
function mk3() -> qubit { if (true) { A t = new A(); return t.getQ(); } qubit z; return z; }
function id(qubit p) -> qubit { return p; }
'''
class Q:
    def __init__(s): s.m=False
def gen(seed):
    rnd=random.Random(seed)
    L=[]
    L.append('function main() -> void {')
    L.append('  qubit h0; qubit h1; qubit h2;')
    handles={}  # expr -> Q
    for i in range(3): handles['h%d'%i]=Q()
    objs={}  # name -> dict(q=Q, r0, r1)
    ks={}
    cnt=0
    expect=None
    hl=len(HEADER.split('\n'))-1
    def live_exprs():
        d=dict(handles)
        for n,o in objs.items():
            d[n+'.q']=o['q']; d[n+'.getQ()']=o['q']; d[n+'.r[0]']=o['r0']; d[n+'.r[1]']=o['r1']
        for n,q in ks.items(): d[n+'.k']=q
        return d
    n=rnd.randint(6,18)
    for step in range(n):
        lineno=hl+len(L)+1
        cnt+=1
        op=rnd.choice(['newobj','copy','copy','destroy','block','mk','newq','use','use','use','use','k'])
        if op=='newobj':
            nm='o%d'%cnt
            L.append('  A %s = new A();'%nm)
            objs[nm]={'q':Q(),'r0':Q(),'r1':Q()}
        elif op=='copy':
            d=live_exprs()
            src=rnd.choice(list(d))
            tgt=rnd.choice(['h0','h1','h2'])
            L.append('  %s = %s;'%(tgt,src))
            handles[tgt]=d[src]
        elif op=='destroy' and objs:
            nm=rnd.choice(list(objs))
            L.append('  destroy %s;'%nm)
            o=objs.pop(nm)
            for q in o.values(): q.m=False
        elif op=='block':
            tgt=rnd.choice(['h0','h1','h2'])
            f=rnd.choice(['q','r[0]','r[1]','getQ()'])
            pre=rnd.choice(['','measure t%d.%s; '%(cnt,f)])
            L.append('  { A t%d = new A(); %s%s = t%d.%s; }'%(cnt,pre,tgt,cnt,f))
            handles[tgt]=Q()
        elif op=='mk':
            tgt=rnd.choice(['h0','h1','h2'])
            L.append('  %s = %s();'%(tgt,rnd.choice(['mk','mk2','mk3'])))
            handles[tgt]=Q()
        elif op=='newq':
            nm='n%d'%cnt
            L.append('  qubit %s;'%nm)
            handles[nm]=Q()
        elif op=='k':
            d=live_exprs()
            src=rnd.choice(list(d))
            nm='k%d'%cnt
            L.append('  K %s = new K(%s);'%(nm,src))
            ks[nm]=d[src]
        else:
            d=live_exprs()
            e=rnd.choice(list(d)); q=d[e]
            kind=rnd.choice(['g','g','m','m','r'])
            if kind=='g':
                L.append('  x(%s);'%e)
                if q.m: expect=lineno;break
            elif kind=='m':
                L.append('  measure %s;'%e)
                if q.m: expect=lineno;break
                q.m=True
            else:
                L.append('  reset %s;'%e); q.m=False
    L.append('  echo("DONE");')
    L.append('}')
    return HEADER+'\n'.join(L)+'\n', expect
if __name__=='__main__':
  bad=0
  for seed in range(int(sys.argv[1]),int(sys.argv[2])):
    src,exp=gen(seed)
    fn='g%d.bloch'%(seed%50)
    open(fn,'w').write(src)
    p=subprocess.run([BL,fn],capture_output=True,text=True,timeout=30)
    out=re.sub(r'\x1b\[[0-9;]*m','',p.stdout+p.stderr)
    m=re.search(r'Runtime error at Ln (\d+), Col \d+: qubit .* has already been measured',out)
    if exp is None:
        ok = 'DONE' in out and 'rror' not in out
    else:
        ok = m is not None and int(m.group(1))==exp
    if not ok:
        bad+=1
        print('MISMATCH seed',seed,'expect',exp,'out:',out.replace('\n',' | ')[:250])
        open('bad_%d.bloch'%seed,'w').write(src)
  print('bad',bad)
