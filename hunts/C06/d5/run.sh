#!/bin/sh
# cap the address space so the failure is quick and deterministic (without the cap the process
# grows to tens of GB before failing / being OOM-killed)
ulimit -v 2000000
exec /tmp/wt_C06h/_build/bin/bloch "$(dirname "$0")/demo.bloch"
