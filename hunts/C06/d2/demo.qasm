OPENQASM 2.0;
include "qelib1.inc";
qreg q[3];
creg c[3];
reset q[1];
measure q[1] -> c[1];
x q[2];
