OPENQASM 2.0;
include "qelib1.inc";
qreg q[3];
creg c[3];
reset q[0];
measure q[0] -> c[0];
x q[2];
reset q[1];
