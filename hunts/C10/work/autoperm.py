#!/usr/bin/env python3
# auto split a bloch source into top-level decls; permute; compare
import sys, re, subprocess, itertools, random, os
BIN='/tmp/wt_C10h/_build/bin/bloch'
def split_top(src):
    # returns (header, decls) where header = package/imports; decls list of strings; None if top-level statements exist
    i=0;n=len(src);depth=0;start=None;decls=[];pieces=[];cur_start=0
    # tokenise roughly
    toks=[] # (pos, text)
    while i<n:
        c=src[i]
        if src.startswith('//',i):
            j=src.find('\n',i); j=n if j<0 else j; i=j; continue
        if c=='"':
            j=i+1
            while j<n and src[j]!='"':
                if src[j]=='\\': j+=1
                j+=1
            toks.append((i,'STR')); i=j+1; continue
        if c=="'":
            j=i+1
            while j<n and src[j]!="'":
                if src[j]=='\\': j+=1
                j+=1
            toks.append((i,'CHR')); i=j+1; continue
        if c.isspace(): i+=1; continue
        m=re.match(r'[A-Za-z_][A-Za-z_0-9]*',src[i:])
        if m: toks.append((i,m.group(0))); i+=len(m.group(0)); continue
        toks.append((i,c)); i+=1
    # walk
    depth=0; k=0; header_end=0; decl_starts=[]; ends=[]
    state='idle'
    k=0
    while k<len(toks):
        pos,t=toks[k]
        if depth==0 and state=='idle':
            if t in('package','import'):
                # skip to ;
                while k<len(toks) and toks[k][1]!=';': k+=1
                header_end=toks[k][0]+1; k+=1; continue
            if t in ('class','static','abstract','function','@'):
                decl_starts.append(pos); state='indecl'; sawbrace=False
                continue_flag=True
            else:
                return None
        if state=='indecl':
            if t=='{': depth+=1; sawbrace=True
            elif t=='}':
                depth-=1
                if depth==0 and sawbrace:
                    ends.append(pos+1); state='idle'
        k+=1
    if state!='idle' or len(decl_starts)!=len(ends): return None
    return src[:header_end], [src[a:b] for a,b in zip(decl_starts,ends)]
def run(text, extra, tag):
    fn='/tmp/wt_C10h/HUNT/work/_ap_%s.bloch'%tag
    open(fn,'w').write(text)
    try:
        r=subprocess.run([BIN,fn]+extra,capture_output=True,text=True,timeout=20)
        out=r.stdout+'\n--stderr--\n'+r.stderr; rc=r.returncode
    except subprocess.TimeoutExpired:
        out='TIMEOUT'; rc=-999
    q=fn[:-6]+'.qasm'
    if os.path.exists(q):
        out+='\n--qasm--\n'+open(q).read(); os.remove(q)
    out=re.sub(r'Elapsed: [0-9.]+s','Elapsed',out)
    out=re.sub(r'Ln \d+, Col \d+','L:C',out); out=re.sub(r'\d+:\d+','L:C',out)
    out=re.sub(r'[Ll]ine \d+','L',out)
    return rc,out
def check(src, extra=[], tag='x', maxperms=30, verbose=False):
    sp=split_top(src)
    if sp is None: return 'NOSPLIT'
    header,decls=sp
    if not any(re.search(r'function\s+main\s*\(',d) for d in decls):
        decls.append('function main() -> void { }')
    if len(decls)<2: return 'SINGLE'
    idx=list(range(len(decls)))
    perms=[tuple(idx),tuple(reversed(idx))]
    for r in range(1,len(idx)): perms.append(tuple(idx[r:]+idx[:r]))
    random.seed(7)
    allp=None
    if len(idx)<=5: perms=list(itertools.permutations(idx))
    else:
        for _ in range(maxperms):
            p=idx[:]; random.shuffle(p); perms.append(tuple(p))
    perms=list(dict.fromkeys(perms))[:max(maxperms,24)]
    base=header+'\n'+'\n'.join(decls)+'\n'
    if len(set(run(base,extra,tag) for _ in range(4)))>1: return 'RANDOM'
    res={}
    for p in perms:
        text=header+'\n'+'\n'.join(decls[i] for i in p)+'\n'
        res.setdefault(run(text,extra,tag),[]).append(p)
    if len(res)==1: return 'SAME'
    # acceptance difference or output difference?
    rcs=set(k[0] for k in res)
    kind='DIFF-RC' if len(rcs)>1 else ('DIFF-OUT' if 0 in rcs else 'DIFF-MSG')
    if verbose or kind!='DIFF-MSG':
        print('=====',kind)
        for (rc,out),ps in res.items():
            print('--- rc',rc,ps[:3]); print(out[:600])
    return kind
if __name__=='__main__':
    src=open(sys.argv[1]).read()
    print(check(src,sys.argv[2:],verbose=True))
