import re,sys,glob
sys.path.insert(0,'.')
from autoperm import check
stats={}
for path in glob.glob('/tmp/wt_C10h/docs/**/*.md',recursive=True)+glob.glob('/tmp/wt_C10h/*.md')+glob.glob('/tmp/wt_C10h/engineering/**/*.md',recursive=True):
    src=open(path).read()
    for m in re.finditer(r'```[a-zA-Z]*\n(.*?)```',src,flags=re.S):
        s=m.group(1)
        if 'function' not in s and 'class' not in s: continue
        r=check(s,tag='doc',verbose=True)
        stats[r]=stats.get(r,0)+1
        if r.startswith('DIFF'): print('### from',path,'\n',s)
print(stats)
