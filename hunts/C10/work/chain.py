import sys
n=int(sys.argv[1]); rev=sys.argv[2]=='rev'
decls=['class K0 { public constructor() -> K0 = default; public virtual function id() -> int { return 0; } }']
for i in range(1,n):
    decls.append('class K%d extends K%d { public constructor() -> K%d { super(); return this; } }'%(i,i-1,i))
if rev: decls.reverse()
decls.append('function main() -> void { echo(1); }')
print('\n'.join(decls))
