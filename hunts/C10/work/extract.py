import re,sys
sys.path.insert(0,'.')
from autoperm import check
import ast
def cstrings(path):
    src=open(path).read()
    out=[]
    # raw strings
    for m in re.finditer(r'R"\((.*?)\)"',src,flags=re.S): out.append(m.group(1))
    # adjacent normal string literals
    pat=re.compile(r'((?:"(?:[^"\\\n]|\\.)*"\s*)+)')
    for m in pat.finditer(src):
        parts=re.findall(r'"((?:[^"\\\n]|\\.)*)"',m.group(1))
        s=''.join(parts)
        try: s=bytes(s,'utf-8').decode('unicode_escape')
        except Exception: continue
        out.append(s)
    return out
seen=set(); stats={}
for path in sys.argv[1:]:
    for s in cstrings(path):
        if ('function' not in s and 'class' not in s) or s in seen: continue
        seen.add(s)
        r=check(s,tag='ex',verbose=True)
        stats[r]=stats.get(r,0)+1
        if r.startswith('DIFF'):
            print('#### SOURCE:\n'+s+'\n####')
print(stats)
