#!/usr/bin/env python3
# usage: perm.py file.bloch [extra args]; chunks separated by lines "//---"
import sys, itertools, subprocess, re, os, random
src = open(sys.argv[1]).read()
extra = sys.argv[2:]
chunks = [c.strip('\n') for c in re.split(r'^//---.*$', src, flags=re.M)]
chunks = [c for c in chunks if c.strip()]
perms = list(itertools.permutations(range(len(chunks))))
if len(perms) > 130:
    random.seed(1)
    perms = [perms[0], perms[-1]] + random.sample(perms, 120)
results = {}
for p in perms:
    text = '\n'.join(chunks[i] for i in p) + '\n'
    fn = '/tmp/wt_C10h/HUNT/work/_perm.bloch'
    open(fn, 'w').write(text)
    try:
        r = subprocess.run(['/tmp/wt_C10h/_build/bin/bloch', fn] + extra, capture_output=True, text=True, timeout=20)
        out = r.stdout + '\n--stderr--\n' + r.stderr
        rc = r.returncode
        for q in ('/tmp/wt_C10h/HUNT/work/_perm.qasm','/tmp/wt_C10h/HUNT/work/_perm.bloch.qasm'):
            if os.path.exists(q):
                out += '\n--qasm--\n' + open(q).read(); os.remove(q)
    except subprocess.TimeoutExpired:
        out = 'TIMEOUT'; rc = -999
    norm = re.sub(r'\d+:\d+', 'L:C', out)
    norm = re.sub(r'Elapsed: [0-9.]+s', 'Elapsed', norm)
    norm = re.sub(r'Ln \d+, Col \d+', 'L:C', norm)
    norm = re.sub(r'[Ll]ine \d+(, [Cc]ol(umn)? \d+)?', 'L:C', norm)
    results.setdefault((rc, norm), []).append(p)
if len(results) == 1:
    (rc, out), = results.keys()
    print('SAME across', len(perms), 'perms; rc=', rc)
    print(out[:1500])
else:
    print('DIFFERENT! ', len(results), 'distinct behaviours')
    for (rc, out), ps in results.items():
        print('=== rc', rc, 'perms', ps[:4], '(%d)' % len(ps))
        print(out[:1200])
