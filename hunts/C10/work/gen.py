#!/usr/bin/env python3
import random, sys, subprocess, re, os, itertools
sys.path.insert(0,'.')
from autoperm import run
def gen(seed):
    R=random.Random(seed)
    ncls=R.randint(3,7)
    classes=[]  # dict: name, base(index or None), generic(bool), bound, baseArgs
    decls=[]
    names=['C%d'%i for i in range(ncls)]
    info=[]
    for i in range(ncls):
        generic = R.random()<0.35
        base = R.choice([None]+list(range(i))) if i>0 else None
        info.append(dict(name=names[i],generic=generic,base=base,bound=None,static=False))
    # bounds: generic class may bound T by a non-generic class
    nongen=[c for c in info if not c['generic']]
    for c in info:
        if c['generic'] and nongen and R.random()<0.5:
            c['bound']=R.choice(nongen)['name']
    def tyargs_for(c):
        # choose a concrete type arg for generic class c
        if c['bound']:
            # bound class or subclass
            cands=[d for d in info if not d['generic'] and issub(d,c['bound'])]
            return R.choice(cands)['name']
        cands=[d for d in info if not d['generic']]
        return R.choice(cands)['name'] if cands else None
    def issub(d,bname):
        cur=d
        while cur is not None:
            if cur['name']==bname: return True
            cur=info[cur['base']] if cur['base'] is not None else None
        return False
    if not nongen: return None
    # helper static counter
    helper='static class Cnt { public static int n = 0; public static function next(string who) -> int { Cnt.n = Cnt.n + 1; echo("init " + who + " #" + Cnt.n); return Cnt.n; } }'
    decls.append(helper)
    for idx,c in enumerate(info):
        nm=c['name']; tp=''
        selfT=nm
        if c['generic']:
            tp='<T'+(' extends '+c['bound'] if c['bound'] else '')+'>'
            selfT=nm+'<T>'
        ext=''; supercall='super(); '
        if c['base'] is not None:
            b=info[c['base']]
            if b['generic']:
                if c['generic'] and (b['bound'] is None or b['bound']==c['bound']):
                    arg='T'
                else:
                    arg=tyargs_for(b)
                    if arg is None: return None
                c['basearg']=arg
                ext=' extends %s<%s>'%(b['name'],arg)
            else:
                ext=' extends '+b['name']
        body=[]
        # static field
        if R.random()<0.6 and not (c['generic'] and os.environ.get('NOGS')):
            other=R.choice(info)
            if R.random()<0.5 or other is c or other['generic'] or not other.get('hasS'):
                body.append('public static int s%d = Cnt.next("%s");'%(idx,nm))
            else:
                body.append('public static int s%d = %s.s%d + Cnt.next("%s");'%(idx,other['name'],info.index(other),nm))
            c['hasS']=True
        # instance field
        body.append('public int f%d = %d;'%(idx,idx+1))
        if c['generic']:
            body.append('public T item;')
        if R.random()<0.3:
            body.append('public qubit q%d;'%idx)
            c['q']=True
        # ctor
        body.append('public constructor() -> %s { %sreturn this; }'%(selfT, supercall if c['base'] is not None else ''))
        # virtual method
        body.append('public virtual function v%d() -> string { return "%s.v%d"; }'%(idx,nm,idx))
        # override some base's virtual
        cur=c['base']; chain=[]
        while cur is not None:
            chain.append(cur); cur=info[cur]['base']
        overridden=set()
        for a in chain:
            if a in overridden: continue
            if R.random()<0.5:
                # only allowed if nearest definition is virtual: we always write 'virtual override'
                body.append('public virtual override function v%d() -> string { return "%s.v%d/" + super.v%d(); }'%(a,nm,a,a))
                overridden.add(a)
        # overloads taking class params
        ng=[d for d in info if not d['generic']]
        picks=R.sample(ng,min(len(ng),R.randint(1,3)))
        c['takes']=[p['name'] for p in picks]
        body.append('public static function sm(int k) -> string { return "%s.sm" + k; }'%nm)
        if R.random()<0.4:
            o2=R.choice(ng)
            body.append('public %s link = null;'%o2['name'])
        if R.random()<0.3:
            body.append('protected function prot() -> int { return %d; }'%idx)
            body.append('public function callProt() -> int { return this.prot() + 1; }')
        for p in picks:
            body.append('public function take(%s x) -> string { return "%s.take(%s)"; }'%(p['name'],nm,p['name']))
        if R.random()<0.4:
            body.append('destructor() -> void { echo("~%s"); }'%nm)
        pre=''
        decls.append('%sclass %s%s%s { %s }'%(pre,nm,tp,ext,' '.join(body)))
    # functions
    funcs=[]
    conc=[]  # concrete instantiable type expressions
    for c in info:
        if c['generic']:
            a=tyargs_for(c)
            if a: conc.append((c,'%s<%s>'%(c['name'],a)))
        else:
            conc.append((c,c['name']))
    nf=R.randint(2,4)
    need=set()
    for k in range(nf):
        c,t=R.choice(conc)
        idx=info.index(c)
        lines=['%s o = new %s();'%(t,t)]
        # call virtuals in chain
        cur=idx
        while cur is not None:
            lines.append('echo(o.v%d());'%cur); cur=info[cur]['base']
        lines.append('echo(o.f%d);'%idx)
        # take overload calls
        tk=[]
        cur=idx
        while cur is not None:
            tk+=info[cur].get('takes',[]); cur=info[cur]['base']
        if tk and R.random()<0.8:
            lines.append('echo(o.take(new %s()));'%R.choice(tk))
        if R.random()<0.5 and not c['generic']:
            lines.append('echo(%s.sm(%d));'%(t,k))
        if R.random()<0.5:
            c2,tt=R.choice(conc)
            lines.append('%s p = mk%d(); if (p != null) { echo(p.f%d); echo(p.v%d()); }'%(tt if not c2['generic'] else tt, conc.index((c2,tt)), info.index(c2), info.index(c2)))
            need.add(conc.index((c2,tt)))
        if k+1<nf and R.random()<0.6: lines.append('g%d();'%(k+1))
        if R.random()<0.5: lines.append('destroy o;')
        funcs.append('function g%d() -> void { %s }'%(k,' '.join(l for l in lines if l)))
    for ci in sorted(need):
        c2,tt=conc[ci]
        if c2['generic']:
            funcs.append('function mk%d() -> %s { %s r = new %s<>(); return r; }'%(ci,tt,tt,c2['name']))
        else:
            funcs.append('function mk%d() -> %s { return new %s(); }'%(ci,tt,tt))
    stat=[ 'echo(%s.s%d);'%(c['name'],info.index(c)) for c in info if c.get('hasS') and not c['generic']]
    R.shuffle(stat)
    funcs.append('function main() -> void { g0(); %s %s }'%(' '.join('g%d();'%k for k in range(1,nf) if R.random()<0.5),' '.join(stat)))
    return decls+funcs
def test(seed,nperm=12):
    d=gen(seed)
    if d is None: return 'SKIP'
    R=random.Random(seed*7+1)
    idx=list(range(len(d)))
    perms=[tuple(idx),tuple(reversed(idx))]
    for _ in range(nperm):
        p=idx[:]; R.shuffle(p); perms.append(tuple(p))
    res={}
    for p in perms:
        text='\n'.join(d[i] for i in p)+'\n'
        rr=run(text,[],'gen')
        if os.environ.get('FILT'):
            rr=(rr[0],'\n'.join(l for l in rr[1].split('\n') if not l.startswith('init ') and not re.fullmatch(r'\d+',l)))
        res.setdefault(rr,[]).append((p,text))
    if len(res)==1:
        (rc,out),=res.keys()
        return 'SAME rc=%d'%rc
    rcs=set(k[0] for k in res)
    kind='DIFF-RC' if len(rcs)>1 else ('DIFF-OUT' if 0 in rcs else 'DIFF-MSG')
    if kind!='DIFF-MSG' or os.environ.get('SAVEMSG'):
        os.makedirs('found',exist_ok=True)
        for n,((rc,out),ps) in enumerate(res.items()):
            open('found/s%d_%d.bloch'%(seed,n),'w').write(ps[0][1])
            open('found/s%d_%d.out'%(seed,n),'w').write('rc=%d\n%s'%(rc,out))
    return kind
if __name__=='__main__':
    a,b=int(sys.argv[1]),int(sys.argv[2])
    stats={}
    for s in range(a,b):
        r=test(s)
        stats[r]=stats.get(r,0)+1
        if r.startswith('DIFF'): print(s,r)
    print(stats)
