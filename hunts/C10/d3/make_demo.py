#!/usr/bin/env python3
# usage: make_demo.py N fwd|rev  -> writes a chain K0 <- K1 <- ... <- K(N-1) to stdout
# fwd: every base class is declared before its derived class; rev: same declarations, reversed.
import sys
n = int(sys.argv[1]); rev = sys.argv[2] == 'rev'
decls = ['class K0 { public constructor() -> K0 = default; }']
for i in range(1, n):
    decls.append('class K%d extends K%d { public constructor() -> K%d { super(); return this; } }' % (i, i - 1, i))
if rev:
    decls.reverse()
decls.append('function main() -> void { echo(1); }')
print('\n'.join(decls))
