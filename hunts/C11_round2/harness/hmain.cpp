// Harness: same CLI, collection schedule chosen by env GCMODE
//  always | never | mod:N:K (collect when poll%N==K) | rand:SEED:PCT | at:i,j,k
#include <cstdlib>
#include <cstring>
#include <string>
#include <set>
#include <sstream>
#include "bloch/cli/cli.hpp"
#include "bloch/support/verif_hooks.hpp"
static int mode = 0; static unsigned long N=1,K=0; static unsigned long long rs=1; static int pct=50; static std::set<unsigned long> ats;
static int gcAt(unsigned long i){
  switch(mode){case 0:return 1;case 1:return 0;case 2:return (i%N)==K;case 3:{rs=rs*6364136223846793005ULL+1442695040888963407ULL;return (int)((rs>>33)%100)<pct;}case 4:return ats.count(i)?1:0;case 5:return ats.count(i)?1:-1;}
  return -1;}
int main(int argc,char**argv){
  const char*m=getenv("GCMODE"); std::string s=m?m:"always";
  if(s=="always")mode=0; else if(s=="never")mode=1; else if(s.rfind("mod:",0)==0){mode=2;sscanf(s.c_str(),"mod:%lu:%lu",&N,&K);} else if(s.rfind("rand:",0)==0){mode=3;sscanf(s.c_str(),"rand:%llu:%d",&rs,&pct);} else if(s.rfind("at:",0)==0||s.rfind("plus:",0)==0){mode=s[0]=='a'?4:5;std::stringstream ss(s.substr(s.find(':')+1));std::string t;while(std::getline(ss,t,','))ats.insert(strtoul(t.c_str(),0,10));}
  if(s!="prod"){bloch::verif::gcAt=gcAt; bloch::verif::noTimer=true;}
  return bloch::cli::run(argc,argv,bloch::cli::Context{});
}
