#!/bin/bash
# usage: run.sh file [args]  -- compares schedules
f=$1; shift
H=/tmp/wt_C11h2/HUNT/harness/hbloch
[ -x /tmp/wt_C11h2/HUNT/harness/hbloch_asan ] && [ -z "$NOASAN" ] && H=/tmp/wt_C11h2/HUNT/harness/hbloch_asan
ref=$(GCMODE=never timeout 60 $H $f "$@" 2>&1; echo "rc=$?")
ref=$(echo "$ref" | grep -v "^Elapsed")
ok=1
for m in always mod:2:0 mod:2:1 mod:3:1 mod:5:2 mod:7:3 rand:1:30 rand:2:50 rand:3:10 rand:4:70 plus:0 ; do
  out=$(GCMODE=$m timeout 60 $H $f "$@" 2>&1; echo "rc=$?")
  out=$(echo "$out" | grep -v "^Elapsed")
  if [ "$out" != "$ref" ]; then echo "DIFF under $m for $f"; diff <(echo "$ref") <(echo "$out") | head -20; ok=0; fi
done
out=$(timeout 60 /tmp/wt_C11h2/_build/bin/bloch $f "$@" 2>&1; echo "rc=$?"); out=$(echo "$out" | grep -v "^Elapsed")
if [ "$out" != "$ref" ]; then echo "DIFF under prod for $f"; diff <(echo "$ref") <(echo "$out") | head -20; ok=0; fi
[ $ok = 1 ] && echo "same: $f ($(echo "$ref" | wc -l) lines, $(echo "$ref"|tail -1))"
[ -n "$SHOW" ] && echo "$ref"
exit 0
