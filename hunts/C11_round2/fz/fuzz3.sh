#!/bin/bash
H=/tmp/wt_C11h2/HUNT/harness/hbloch_asan
for s in $(seq $1 $2); do
  f=/tmp/wt_C11h2/HUNT/fz/r$s.bloch
  python3 /tmp/wt_C11h2/HUNT/fz/gen.py $s > $f
  GCMODE=never timeout 60 $H $f > /tmp/fz_ref_$1.txt 2>&1; echo "rc=$?" >> /tmp/fz_ref_$1.txt
  bad=0
  for m in always mod:2:1 rand:$s:30 rand:$((s+1)):5; do
    GCMODE=$m timeout 60 $H $f > /tmp/fz_out_$1.txt 2>&1; echo "rc=$?" >> /tmp/fz_out_$1.txt
    c=$(python3 /tmp/wt_C11h2/HUNT/fz/classify.py /tmp/fz_ref_$1.txt /tmp/fz_out_$1.txt)
    if [ "$c" = OTHER ] || [ "$c" = D1TYPE-REV ]; then echo "$c seed $s mode $m"; bad=1; break; fi
  done
  if grep -q "AddressSanitizer\|runtime error:\|terminate\|rc=1[0-9][0-9]" /tmp/fz_ref_$1.txt /tmp/fz_out_$1.txt; then echo "CRASH seed $s"; bad=1; fi
  [ $bad = 0 ] && rm -f $f ${f%.bloch}.qasm
done
echo done $1 $2
