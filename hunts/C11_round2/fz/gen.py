import random, sys
seed = int(sys.argv[1]); R = random.Random(seed)
PRE = '''
static class S { public static Node s0 = null; public static Node s1 = new Node(9000); public static int cnt = 0; public static QN sq = null; }
class Node {
    public Node a; public Node b; public QN q; public int id;
    public Node init = mkinit();
    public constructor(int id) -> Node { this.id = id; this.a = null; this.b = null; this.q = null; return this; }
    public constructor(int id, Node a) -> Node { this.id = id; this.a = a; this.b = null; this.q = null; return this; }
    public destructor() -> void { S.cnt = S.cnt + 1; echo("d" + this.id); DTORBODY }
    public function self() -> Node { return this; }
    public function geta() -> Node { Node t = new Node(this.id + 5000, this); return this.a; }
    public function seta(Node x) -> Node { this.a = x; return this; }
    public virtual function twist(Node o) -> Node { if (o == null) { return this; } Node t = o.a; o.a = this; this.b = t; return o; }
}
class Sub extends Node {
    public Node extra;
    public constructor(int id) -> Sub { super(id, new Node(id + 7000)); this.extra = this; return this; }
    public destructor() -> void { echo("ds" + this.id); }
    public override function twist(Node o) -> Node { this.extra = o; return this; }
}
class QN {
    @tracked public qubit q; public Node owner; public QN peer; public int id;
    public constructor(int id) -> QN { this.id = id; this.owner = null; this.peer = null; return this; }
    public destructor() -> void { echo("dq" + this.id); }
    public function hq() -> qubit { return this.q; }
}
class Box<T> { public T v; public Box<T> nx; public constructor(T v) -> Box<T> { this.v = v; this.nx = null; return this; } public function get() -> T { return this.v; } }
function mkinit() -> Node { S.cnt = S.cnt + 1; return null; }
function pick(Node x, Node y, int k) -> Node { if (k % 2 == 0) { return x; } return y; }
function cyc(int id) -> Node { Node x = new Node(id); Node y = new Node(id + 1, x); x.a = y; x.q = new QN(id); x.q.owner = y; return pick(x, y, id); }
function drop(int id) -> int { Node z = cyc(id); Sub s = new Sub(id + 2); s.a.a = s; return z.id; }
'''
DT = R.choice(['', 'if (this.id % 7 == 3) { S.s0 = this.a; }', 'Node t = new Node(this.id + 3000); t.a = t;', 'if (this.a != null) { this.a.b = null; }', 'int z = drop(this.id + 4000);'])
PRE = PRE.replace('DTORBODY', DT)
nid = [10]
def newid():
    nid[0] += 10; return nid[0]
vars_ = ['v0','v1','v2','v3']
def nodeexpr(d=0):
    c = R.random()
    if d > 2 or c < 0.25: return R.choice(vars_ + ['S.s0','S.s1'])
    if c < 0.4: return 'new Node(%d)' % newid()
    if c < 0.5: return 'new Node(%d, %s)' % (newid(), nodeexpr(d+1))
    if c < 0.55: return 'new Sub(%d)' % newid()
    if c < 0.65: return 'cyc(%d)' % newid()
    if c < 0.75: return 'pick(%s, %s, %d)' % (nodeexpr(d+1), nodeexpr(d+1), R.randint(0,3))
    if c < 0.8: return 'null'
    return 'null'
def safe(e):  # expression that is non-null guaranteed? we guard at runtime instead
    return e
def stmt(depth=0):
    c = R.random(); v = R.choice(vars_); w = R.choice(vars_)
    if c < 0.15:
        e = nodeexpr() or 'null'; return '%s = %s;' % (v, e)
    if c < 0.25:
        e = nodeexpr() or 'null'; f = R.choice(['a','b']); return 'if (%s != null) { %s.%s = %s; }' % (v, v, f, e)
    if c < 0.32:
        return 'if (%s != null) { %s = %s.twist(%s); }' % (v, w, v, nodeexpr() or 'null')
    if c < 0.38:
        return 'if (%s != null) { %s = %s.geta(); }' % (v, w, v)
    if c < 0.44:
        return 'if (%s != null) { %s = %s.self().seta(%s).self(); }' % (v, w, v, nodeexpr() or 'null')
    if c < 0.50:
        return 'S.%s = %s;' % (R.choice(['s0','s1']), nodeexpr() or 'null')
    if c < 0.55:
        return 'destroy %s; %s = null;' % (v, v) if R.random()<0.5 else 'if (%s != null) { destroy %s.%s; }' % (v, v, R.choice(['a','b']))
    if c < 0.60:
        return 'k = drop(%d);' % newid()
    if c < 0.66:
        i = newid(); return 'if (%s != null) { %s.q = new QN(%d); %s.q.owner = %s; x(%s.q.q); }' % (v,v,i,v,w,v)
    if c < 0.70:
        return 'if (%s != null) { if (%s.q != null) { qubit h%d = %s.q.hq(); %s.q = null; echo("m" + (measure h%d)); } }' % (v,v,nid[0],v,v,nid[0]) if False else 'if (%s != null) { if (%s.q != null) { S.sq = %s.q; %s.q = null; } }' % (v,v,v,v)
    if c < 0.74:
        return 'if (S.sq != null) { echo("m" + (measure S.sq.q)); reset S.sq.q; S.sq = null; }'
    if c < 0.78:
        return '{ qubit f%d; x(f%d); echo("f" + (measure f%d)); }' % (nid[0]+1, nid[0]+1, nid[0]+1) if not nid.__setitem__(0, nid[0]+1) else ''
    if c < 0.84 and depth < 2:
        n = R.randint(1,3); i = 'i%d' % newid()
        body = ' '.join(stmt(depth+1) for _ in range(R.randint(1,3)))
        return 'for (int %s = 0; %s < %d; %s = %s + 1) { %s }' % (i,i,n,i,i,body)
    if c < 0.88:
        i = newid(); return '{ Box<Node> bx%d = new Box<Node>(%s); bx%d.nx = bx%d; if (bx%d.get() != null) { %s = bx%d.get().self(); } }' % (i, nodeexpr() or 'null', i, i, i, v, i)
    if c < 0.92:
        return 'echo(%s == %s);' % (nodeexpr() or 'null', nodeexpr() or 'null')
    if c < 0.96:
        return 'if (%s != null) { echo("id" + %s.id); }' % (v, v)
    return 'echo("c" + S.cnt);'
body = '\n    '.join(stmt() for _ in range(R.randint(8, 30)))
helper = '\n    '.join(stmt(1) for _ in range(R.randint(2, 8)))
print(PRE)
print('function helper(Node v0, Node v1) -> Node {\n    Node v2 = null; Node v3 = new Node(%d); int k = 0;\n    %s\n    if (v2 != null) { return v2; }\n    return %s;\n}' % (newid(), helper, R.choice(vars_)))
print('function main() -> void {\n    Node v0 = null; Node v1 = null; Node v2 = null; Node v3 = null; int k = 0;\n    %s\n    v1 = helper(v0, v3);\n    %s\n    echo("end " + S.cnt);\n}' % (body, '\n    '.join(stmt() for _ in range(5))))
