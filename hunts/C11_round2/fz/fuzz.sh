#!/bin/bash
# fuzz.sh from to
H=/tmp/wt_C11h2/HUNT/harness/hbloch_asan
for s in $(seq $1 $2); do
  f=/tmp/wt_C11h2/HUNT/fz/q$s.bloch
  python3 /tmp/wt_C11h2/HUNT/fz/gen.py $s > $f
  ref=$(GCMODE=never timeout 60 $H $f --emit-qasm 2>&1; echo "rc=$?")
  bad=0
  for m in always mod:2:1 mod:3:0 rand:$s:20 rand:$s:60 rand:$((s+1)):5; do
    out=$(GCMODE=$m timeout 60 $H $f --emit-qasm 2>&1; echo "rc=$?")
    if [ "$out" != "$ref" ]; then echo "DIFF seed $s mode $m"; bad=1; break; fi
  done
  if echo "$ref" | grep -q "AddressSanitizer\|runtime error:\|terminate\|rc=1[0-9][0-9]"; then echo "CRASH seed $s"; bad=1; fi
  [ $bad = 0 ] && rm -f $f ${f%.bloch}.qasm
done
echo done $1 $2
