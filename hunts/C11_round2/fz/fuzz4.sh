#!/bin/bash
# no destructors; compare full output incl. qasm + warnings: never vs always vs prod
H=/tmp/wt_C11h2/HUNT/harness/hbloch
for s in $(seq $1 $2); do
  f=/tmp/wt_C11h2/HUNT/fz/m$s.bloch
  python3 /tmp/wt_C11h2/HUNT/fz/gen.py $s | sed 's/^    public destructor() -> void {.*$//' > $f
  ref=$(GCMODE=never timeout 60 $H $f --emit-qasm 2>&1; echo "rc=$?")
  bad=0
  for m in always rand:$s:30 prod; do
    out=$(GCMODE=$m timeout 60 $H $f --emit-qasm 2>&1; echo "rc=$?")
    if [ "$out" != "$ref" ]; then echo "DIFF seed $s mode $m"; bad=1; break; fi
  done
  [ $bad = 0 ] && rm -f $f ${f%.bloch}.qasm
done
echo done $1 $2
