import sys,re
def load(p):
    L=[l.rstrip('\n') for l in open(p, errors='replace')]
    out=[]
    for l in L:
        if 'WARNING' in l: continue
        l=re.sub(r'^(c|end )\d+$', r'\1N', l)
        out.append(l)
    return out
a=load(sys.argv[1]); b=load(sys.argv[2])
# is a a subsequence of b with extras all destructor lines (or vice versa)?
def sub(a,b):
    i=0; extra=[]
    for l in b:
        if i<len(a) and a[i]==l: i+=1
        else: extra.append(l)
    return i==len(a), extra
ok,extra=sub(a,b)
if ok and all(re.match(r'^d[sq]?\d+$',e) for e in extra): print("D1TYPE" if extra else "SAME"); sys.exit(0)
ok,extra=sub(b,a)
if ok and all(re.match(r'^d[sq]?\d+$',e) for e in extra): print("D1TYPE-REV"); sys.exit(0)
print("OTHER")
