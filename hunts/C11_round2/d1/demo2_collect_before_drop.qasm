OPENQASM 2.0;
include "qelib1.inc";
qreg q[1];
creg c[1];
x q[0];
measure q[0] -> c[0];
