// Front-end-only harness: load (lex+parse+imports) and analyse; report category.
#include <cstdio>
#include <iostream>
#include <string>
#include "bloch/compiler/import/module_loader.hpp"
#include "bloch/compiler/semantics/semantic_analyser.hpp"
#include "bloch/support/error/bloch_error.hpp"
using namespace bloch;
static int one(compiler::SemanticAnalyser& an, const std::string& f, bool quiet) {
    try {
        compiler::ModuleLoader loader({"/tmp/wt_C13h/library"});
        auto prog = loader.load(f);
        an.analyse(*prog);
        if (!quiet) std::cout << "ACCEPT\n";
        return 0;
    } catch (const support::BlochError& e) {
        const char* c = support::categoryLabel(e.category);
        if (!quiet) std::cout << "DIAG " << c << " " << e.line << ":" << e.column << " " << e.what();
        if (e.category != support::ErrorCategory::Lexical && e.category != support::ErrorCategory::Parse &&
            e.category != support::ErrorCategory::Semantic) { if(!quiet) std::cout << "BADCAT\n"; return 3; }
        return 1;
    } catch (const std::exception& e) {
        if (!quiet) std::cout << "RAWEXC " << e.what() << "\n";
        return 4;
    }
}
int main(int argc, char** argv) {
    compiler::SemanticAnalyser an;
    int rc = 0;
    for (int i = 1; i < argc; ++i) { rc = one(an, argv[i], false); }
    return rc;
}
