import re,glob,os
n=0
for f in glob.glob('/tmp/wt_C13h/tests/test_*.cpp'):
    t=open(f).read()
    # raw strings
    for m in re.finditer(r'R"\((.*?)\)"',t,re.S):
        s=m.group(1)
        if len(s)>20:
            if 'function main' not in s: s+="\nfunction main() -> void { }\n"
            open(f'seeds/s{n:04d}.bloch','w').write(s); n+=1
    # concatenated ordinary strings
    for m in re.finditer(r'((?:"(?:[^"\\\n]|\\.)*"\s*)+)',t):
        parts=re.findall(r'"((?:[^"\\\n]|\\.)*)"',m.group(1))
        s="".join(parts)
        s=s.encode().decode('unicode_escape')
        if len(s)>25 and (';' in s or '{' in s):
            if 'function main' not in s: s+="\nfunction main() -> void { }\n"
            open(f'seeds/s{n:04d}.bloch','w').write(s); n+=1
print(n)
