#!/usr/bin/env python3
# token-level single deletion / insertion / replacement fuzzer over seed programs
import re, sys, os, subprocess, random, hashlib, glob
FE = sys.argv[1]
seeds = sys.argv[3:]
N = int(sys.argv[2])
random.seed(int(os.environ.get("SEED","1")))
TOK = re.compile(r'\s+|//[^\n]*|"[^"]*"|\'.\'|[A-Za-z_][A-Za-z0-9_]*|\d+\.\d*f|\d+[fLb]?|==|!=|\+\+|--|&&|\|\||->|>=|<=|.', re.S)
VOCAB = ["null","int","long","float","string","char","qubit","bit","boolean","true","false","void","function","return","if","else","for","while","measure","final","reset","default","quantum","tracked","shots","class","public","private","protected","static","extends","abstract","virtual","override","super","this","import","package","new","constructor","destructor","destroy","echo",
 "=","==","!","!=","+","++","&","&&","|","||","^","~","-","->","--","*","/","%",">",">=","<","<=","?",":",".",";",",","@","(",")","{","}","[","]","x","T","A","main","0","1","1b","2L","1.5f","\"s\"","'c'","#","$","\\", "99999999999999999999", "1.5", "'", "\""]
outdir = "crashes"; os.makedirs(outdir, exist_ok=True)
def run(src):
    p = "/tmp/wt_C13h/HUNT/harness/cur_%d.bloch" % os.getpid()
    open(p,"wb").write(src)
    try:
        r = subprocess.run([FE,p],capture_output=True,timeout=10)
        return r.returncode, r.stdout+r.stderr
    except subprocess.TimeoutExpired:
        return "TIMEOUT", b""
seen=set()
for i in range(N):
    s = random.choice(seeds)
    text = open(s,encoding="latin1").read()
    toks = [m.group(0) for m in TOK.finditer(text)]
    idx = [k for k,t in enumerate(toks) if not t.isspace() and not t.startswith("//")]
    nmut = 1 if random.random()<0.7 else random.randint(2,3)
    for _ in range(nmut):
        k = random.choice(idx)
        op = random.random()
        if op<0.33: toks[k]=""
        elif op<0.66: toks[k]=" "+random.choice(VOCAB+[toks[random.choice(idx)]])+" "
        else: toks[k]=" "+random.choice(VOCAB+[toks[random.choice(idx)]])+" "+toks[k]
    src="".join(toks).encode("latin1")
    if random.random()<0.05: src = src[:random.randint(0,len(src))]
    rc,out = run(src)
    if rc not in (0,1):
        sig = re.sub(rb'0x[0-9a-f]+|\d+',b'N',out[:300])
        h = hashlib.md5(sig).hexdigest()[:8]
        if h in seen: continue
        seen.add(h)
        open(f"{outdir}/{h}.bloch","wb").write(src)
        open(f"{outdir}/{h}.out","wb").write(out)
        print("FOUND",rc,h,out[:200])
print("done")
