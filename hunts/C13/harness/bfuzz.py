#!/usr/bin/env python3
import sys, os, subprocess, random, hashlib, re
FE=sys.argv[1]; N=int(sys.argv[2]); seeds=sys.argv[3:]
random.seed(int(os.environ.get("SEED","1")))
os.makedirs("crashes",exist_ok=True)
INTERESTING=[b'\x00',b'\xff',b'\r',b'"',b"'",b'//',b'\n',b'@',b'<',b'>',b'[',b']',b'{',b'}',b'(',b')',b'.',b'1.',b'0b',b'9'*25,b'\xef\xbb\xbf',b'\x0c',b'\\']
seen=set()
for i in range(N):
    mode=random.random()
    if mode<0.15:
        src=bytes(random.randrange(256) for _ in range(random.randint(0,200)))
    elif mode<0.3:
        alphabet=b'(){}[]<>;,.@=+-*/%&|^~!?:"\' \nabcfmqx019LbfT'
        src=bytes(random.choice(alphabet) for _ in range(random.randint(0,300)))
    else:
        src=bytearray(open(random.choice(seeds),'rb').read())
        for _ in range(random.randint(1,4)):
            if not src: break
            p=random.randrange(len(src)); op=random.random()
            if op<0.3: del src[p:p+random.randint(1,4)]
            elif op<0.6: src[p:p]=random.choice(INTERESTING)
            elif op<0.8: src[p]=random.randrange(256)
            elif op<0.9: src=src[:p]
            else:
                q=random.randrange(len(src)); a,b=min(p,q),max(p,q); src[p:p]=src[a:b][:60]
        src=bytes(src)
    p="/tmp/wt_C13h/HUNT/harness/bcur_%d.bloch"%os.getpid()
    open(p,'wb').write(src)
    try:
        r=subprocess.run([FE,p],capture_output=True,timeout=10); rc=r.returncode; out=r.stdout+r.stderr
    except subprocess.TimeoutExpired:
        rc="TIMEOUT"; out=b""
    if rc not in (0,1):
        sig=re.sub(rb'0x[0-9a-f]+|\d+',b'N',out[:300]); h=hashlib.md5(sig).hexdigest()[:8]
        if h in seen: continue
        seen.add(h); open(f"crashes/b{h}.bloch",'wb').write(src); open(f"crashes/b{h}.out",'wb').write(out)
        print("FOUND",rc,h,out[:200],flush=True)
print("done")
