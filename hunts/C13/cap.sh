#!/bin/bash
# usage: cap.sh <args...>   (run from the demo directory) - prints command, cleaned output, exit status
echo "\$ bloch $*"
out=$(timeout ${CAP_TIMEOUT:-60} /tmp/wt_C13h/_build/bin/bloch "$@" 2>&1); st=$?
printf '%s\n' "$out" | sed 's/\x1b\[[0-9;]*m//g'
if [ $st -eq 139 ]; then echo "[exit status $st = killed by SIGSEGV]"; elif [ $st -eq 124 ]; then echo "[exit status $st = timeout after ${CAP_TIMEOUT:-60}s, still running]"; else echo "[exit status $st]"; fi
echo
