#!/bin/bash
# run the valid program demo.bloch (given by absolute path) from a working directory that has been removed
here=$(cd "$(dirname "$0")" && pwd)
mkdir -p "$here/gone" && cd "$here/gone" && rmdir "$here/gone"
/tmp/wt_C13h/_build/bin/bloch "$here/demo.bloch"; echo "[exit status $?]"
