#!/bin/bash
# usage: run.sh file [args]  -> prints output and exit status, with timeout
f=$1; shift
timeout 10 /tmp/wt_C13h/_build/bin/bloch "$f" "$@" 2>&1 | head -${LINES_MAX:-15}
echo "[status ${PIPESTATUS[0]}]"
