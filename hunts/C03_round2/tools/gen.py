import random, sys
PRE = '''
class S { public static qubit s; public static A sa; public constructor() -> S = default; }
class A { public qubit q; public constructor() -> A = default; }
class R { public qubit[2] r; public A inner; public constructor() -> R { this.inner = new A(); return this; } }
class Hd {
    public qubit h;
    public constructor(qubit b) -> Hd { this.h = b; return this; }
    public destructor() -> void { x(this.h); }
}
class D {
    public constructor() -> D = default;
    public destructor() -> void { A t = new A(); x(t.q); cx(t.q, S.s); }
}
function mk() -> A { A t = new A(); x(t.q); return t; }
function pass(qubit q) -> void { A tmp = new A(); x(tmp.q); cx(tmp.q, q); }
function stale() -> qubit { A t = new A(); x(t.q); return t.q; }
'''
class Q:
    n=0
    def __init__(s): s.v=0; s.meas=False; Q.n+=1; s.id=Q.n
def gen(seed):
    rnd=random.Random(seed)
    out=[PRE,"function main() -> void {"]
    exp=[]
    NA=3
    a=[None]*NA      # A objects: Q
    r=[None]*2       # R objects: (q0,q1,innerQ)
    hd=[None]*2      # Hd objects: Q referenced
    d=[False]*2
    statS=Q()
    for i in range(NA): out.append(f"    A a{i} = null;")
    for i in range(2): out.append(f"    R r{i} = null;")
    for i in range(2): out.append(f"    Hd hd{i} = null;")
    for i in range(2): out.append(f"    D d{i} = null;")
    NH=3
    h=[]
    for i in range(NH):
        out.append(f"    qubit h{i};"); h.append(Q())
    cnt=[0]
    def qexprs():
        res=[("S.s",statS)]
        for i in range(NA):
            if a[i]: res.append((f"a{i}.q",a[i]))
        for i in range(2):
            if r[i]:
                res.append((f"r{i}.r[0]",r[i][0])); res.append((f"r{i}.r[1]",r[i][1])); res.append((f"r{i}.inner.q",r[i][2]))
        for i in range(2):
            if hd[i]: res.append((f"hd{i}.h",hd[i]))
        for i in range(NH): res.append((f"h{i}",h[i]))
        return res
    def killHd(i):
        if hd[i]:
            q=hd[i]
            # destructor x(this.h)
            if q.meas: return False
            q.v^=1
            hd[i]=None
        return True
    def measure(e,q):
        if q.meas:
            out.append(f"    reset {e};"); q.v=0; q.meas=False
        cnt[0]+=1
        out.append(f"    bit m{cnt[0]} = measure {e}; echo(\"{cnt[0]}:\" + m{cnt[0]});")
        exp.append(f"{cnt[0]}:{q.v}")
        out.append(f"    reset {e};"); q.v=0
    for step in range(rnd.randint(10,40)):
        op=rnd.choice(["newA","newA","nullA","x","x","cx","cx","meas","newR","nullR","newHd","nullHd","hcopy","hcopy","mk","pass","stale","newD","nullD","block"])
        if op=="newA":
            i=rnd.randrange(NA)
            if a[i]: a[i].v=0; 
            out.append(f"    a{i} = new A();"); a[i]=Q()
        elif op=="mk":
            i=rnd.randrange(NA)
            if a[i]: a[i].v=0
            out.append(f"    a{i} = mk();"); a[i]=Q(); a[i].v=1
        elif op=="nullA":
            i=rnd.randrange(NA)
            if a[i]: a[i].v=0; a[i].meas=False
            out.append(f"    a{i} = null;"); a[i]=None
        elif op=="newR":
            i=rnd.randrange(2)
            if r[i]:
                for q in r[i]: q.v=0; q.meas=False
            out.append(f"    r{i} = new R();"); r[i]=(Q(),Q(),Q())
        elif op=="nullR":
            i=rnd.randrange(2)
            if r[i]:
                for q in r[i]: q.v=0; q.meas=False
            out.append(f"    r{i} = null;"); r[i]=None
        elif op=="newHd":
            i=rnd.randrange(2)
            e,q=rnd.choice(qexprs())
            if q.meas or (hd[i] and hd[i].meas): continue
            # new evaluated first then old destroyed
            out.append(f"    hd{i} = new Hd({e});")
            old=hd[i]
            hd[i]=q
            if old: old.v^=1
        elif op=="nullHd":
            i=rnd.randrange(2)
            if hd[i] and hd[i].meas: continue
            if hd[i]: hd[i].v^=1
            out.append(f"    hd{i} = null;"); hd[i]=None
        elif op=="newD":
            i=rnd.randrange(2)
            if d[i]:
                if statS.meas: continue
                statS.v^=1
            out.append(f"    d{i} = new D();"); d[i]=True
        elif op=="nullD":
            i=rnd.randrange(2)
            if d[i]:
                if statS.meas: continue
                statS.v^=1
            out.append(f"    d{i} = null;"); d[i]=False
        elif op=="x":
            e,q=rnd.choice(qexprs())
            if q.meas: continue
            out.append(f"    x({e});"); q.v^=1
        elif op=="cx":
            l=qexprs(); (e1,q1),(e2,q2)=rnd.sample(l,2)
            if q1 is q2 or q1.meas or q2.meas: continue
            out.append(f"    cx({e1}, {e2});"); q2.v^=q1.v
        elif op=="meas":
            e,q=rnd.choice(qexprs()); measure(e,q)
        elif op=="hcopy":
            i=rnd.randrange(NH); e,q=rnd.choice(qexprs())
            out.append(f"    h{i} = {e};"); h[i]=q
        elif op=="pass":
            e,q=rnd.choice(qexprs())
            if q.meas: continue
            out.append(f"    pass({e});"); q.v^=1
        elif op=="stale":
            i=rnd.randrange(NH)
            out.append(f"    h{i} = stale();"); h[i]=Q()
        elif op=="block":
            e,q=rnd.choice(qexprs())
            if q.meas: continue
            out.append(f"    {{ qubit t = {e}; A z = new A(); x(z.q); cx(z.q, t); }}"); q.v^=1
    # final measure everything reachable
    seen=set()
    for e,q in qexprs():
        if id(q) in seen: continue
        seen.add(id(q))
        measure(e,q)
    out.append("}")
    return "\n".join(out),"\n".join(exp)+"\n"
if __name__=="__main__":
    s=int(sys.argv[1]); p,e=gen(s)
    open(f"p{s}.bloch","w").write(p); open(f"p{s}.exp","w").write(e)
