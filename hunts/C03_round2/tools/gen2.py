import random, sys
PRE = '''
class S { public static qubit s; public constructor() -> S = default; }
class A { public qubit q; public constructor() -> A = default; }
class B2 extends A { public qubit q2; public constructor() -> B2 { super(); return this; } }
class R { public qubit[2] r; public constructor() -> R = default; }
class Box<T> { public T v; public constructor(T v) -> Box<T> { this.v = v; return this; } }
class Hd {
    public qubit h;
    public constructor(qubit b) -> Hd { this.h = b; return this; }
    public destructor() -> void { x(this.h); }
}
class D {
    public constructor() -> D = default;
    public destructor() -> void { A t = new A(); x(t.q); cx(t.q, S.s); }
}
function mk() -> A { A t = new A(); x(t.q); return t; }
function pass(qubit q) -> void { A tmp = new A(); x(tmp.q); cx(tmp.q, q); }
function er(qubit q, int k) -> void { A t = new A(); x(t.q); cx(t.q, q); if (k > 0) { Hd g = new Hd(q); return; } }
function flipArr(qubit[] rr) -> void { A tmp = new A(); x(rr[1]); }
function lastq() -> qubit { R t = new R(); x(t.r[1]); return t.r[1]; }
function stale() -> qubit { A t = new A(); x(t.q); return t.q; }
'''
class Skip(Exception): pass
class Q:
    def __init__(s): s.v=0
class Obj:
    def __init__(s,kind,**kw): s.kind=kind; s.__dict__.update(kw)
class Gen:
    def __init__(s,seed):
        s.r=random.Random(seed); s.n=0; s.m=0
    def name(s): s.n+=1; return f"v{s.n}"
    # scope: list of (name,type)
    def qexpr(s,scopes):
        c=[("S",)]
        for sc in scopes:
            for n,t in sc:
                if t=="A": c.append(("f",n,"q"))
                elif t=="B2": c+= [("f",n,"q"),("f",n,"q2")]
                elif t=="R": c+= [("r",n,0),("r",n,1)]
                elif t=="Box": c.append(("box",n))
                elif t=="Hd": c.append(("f",n,"h"))
                elif t=="Arr": c+= [("arr",n,0),("arr",n,1)]
                elif t=="H": c.append(("v",n))
        return s.r.choice(c)
    def stmts(s,scopes,depth,k):
        sc=[]; scopes=scopes+[sc]; out=[]
        for _ in range(k):
            op=s.r.choice(["declA","declA","declB","declR","declBox","declHd","declD","declH","declH0","reA","reHd","hset","x","x","cx","cx","meas","meas","pass","er","flipArr","flipTmp","lastq","stale","block","for2","if"])
            allv=[(n,t) for S_ in scopes for n,t in S_]
            def pick(t):
                l=[n for n,tt in allv if tt==t]; return s.r.choice(l) if l else None
            if op=="declA": n=s.name(); out.append(("declA",n,s.r.choice(["new","mk"]))); sc.append((n,"A"))
            elif op=="declB": n=s.name(); out.append(("declB",n)); sc.append((n,"B2"))
            elif op=="declR": n=s.name(); out.append(("declR",n)); sc.append((n,"R"))
            elif op=="declBox": n=s.name(); out.append(("declBox",n)); sc.append((n,"Box"))
            elif op=="declHd": n=s.name(); out.append(("declHd",n,s.qexpr(scopes))); sc.append((n,"Hd"))
            elif op=="declD": n=s.name(); out.append(("declD",n)); sc.append((n,"D"))
            elif op=="declArr": n=s.name(); out.append(("declArr",n)); sc.append((n,"Arr"))
            elif op=="declH": n=s.name(); out.append(("declH",n,s.qexpr(scopes))); sc.append((n,"H"))
            elif op=="declH0": n=s.name(); out.append(("declH",n,None)); sc.append((n,"H"))
            elif op=="reA":
                n=pick("A")
                if n: out.append(("reA",n,s.r.choice(["new","mk"])))
            elif op=="reHd":
                n=pick("Hd")
                if n: out.append(("reHd",n,s.qexpr(scopes)))
            elif op=="hset":
                n=pick("H")
                if n: out.append(("hset",n,s.r.choice([s.qexpr(scopes),("stale",),("lastq",)])))
            elif op=="x": out.append(("x",s.qexpr(scopes)))
            elif op=="cx": out.append(("cx",s.qexpr(scopes),s.qexpr(scopes)))
            elif op=="meas": out.append(("meas",s.qexpr(scopes)))
            elif op=="pass": out.append(("pass",s.qexpr(scopes)))
            elif op=="er": out.append(("er",s.qexpr(scopes),s.r.choice([0,1])))
            elif op=="flipArr":
                n=pick("R")
                if n: out.append(("flipArr",n))
            elif op=="flipTmp": out.append(("flipTmp",))
            elif op=="lastq": n=s.name(); out.append(("declH",n,("lastq",))); sc.append((n,"H"))
            elif op=="stale": n=s.name(); out.append(("declH",n,("stale",))); sc.append((n,"H"))
            elif depth<3 and op in("block","for2","if"):
                out.append((op,s.stmts(scopes,depth+1,s.r.randint(1,6))))
        return out
def estr(e):
    k=e[0]
    if k=="S": return "S.s"
    if k=="f": return f"{e[1]}.{e[2]}"
    if k=="r": return f"{e[1]}.r[{e[2]}]"
    if k=="box": return f"{e[1]}.v.q"
    if k=="arr": return f"{e[1]}[{e[2]}].q"
    if k=="v": return e[1]
    if k=="stale": return "stale()"
    if k=="lastq": return "lastq()"
def emit(stmts,ind,ctr,lines):
    p="    "*ind
    for st in stmts:
        k=st[0]
        if k=="declA": lines.append(f"{p}A {st[1]} = "+("new A();" if st[2]=="new" else "mk();"))
        elif k=="declB": lines.append(f"{p}B2 {st[1]} = new B2();")
        elif k=="declR": lines.append(f"{p}R {st[1]} = new R();")
        elif k=="declBox": lines.append(f"{p}Box<A> {st[1]} = new Box<A>(new A());")
        elif k=="declHd": lines.append(f"{p}Hd {st[1]} = new Hd({estr(st[2])});")
        elif k=="declD": lines.append(f"{p}D {st[1]} = new D();")
        elif k=="declArr": lines.append(f"{p}A[] {st[1]} = {{new A(), mk()}};")
        elif k=="declH": lines.append(f"{p}qubit {st[1]}"+(f" = {estr(st[2])};" if st[2] else ";"))
        elif k=="reA": lines.append(f"{p}{st[1]} = "+("new A();" if st[2]=="new" else "mk();"))
        elif k=="reHd": lines.append(f"{p}{st[1]} = new Hd({estr(st[2])});")
        elif k=="hset": lines.append(f"{p}{st[1]} = {estr(st[2])};")
        elif k=="x": lines.append(f"{p}x({estr(st[1])});")
        elif k=="cx": lines.append(f"{p}cx({estr(st[1])}, {estr(st[2])});")
        elif k=="meas":
            ctr[0]+=1; m=f"m{ctr[0]}"; e=estr(st[1])
            lines.append(f"{p}{{ bit {m} = measure {e}; echo(\"{ctr[0]}:\" + {m}); reset {e}; if ({m}) {{ x({e}); }} }}")
            st[2:]=[]; 
            st_id[id(st)]=ctr[0]
        elif k=="pass": lines.append(f"{p}pass({estr(st[1])});")
        elif k=="er": lines.append(f"{p}er({estr(st[1])}, {st[2]});")
        elif k=="flipArr": lines.append(f"{p}flipArr({st[1]}.r);")
        elif k=="flipTmp": lines.append(f"{p}flipArr(new R().r);")
        elif k=="block": lines.append(p+"{"); emit(st[1],ind+1,ctr,lines); lines.append(p+"}")
        elif k=="if": lines.append(p+"if (1 == 1) {"); emit(st[1],ind+1,ctr,lines); lines.append(p+"}")
        elif k=="for2":
            ctr[1]+=1
            lines.append(p+f"for (int i{ctr[1]} = 0; i{ctr[1]} < 2; i{ctr[1]} = i{ctr[1]} + 1) {{"); emit(st[1],ind+1,ctr,lines); lines.append(p+"}")
st_id={}
class Interp:
    def __init__(s): s.S=Q(); s.out=[]
    def ev(s,e,env):
        k=e[0]
        if k=="S": return s.S
        if k=="f": return getattr(env[e[1]],e[2])
        if k=="r": return env[e[1]].r[e[2]]
        if k=="box": return env[e[1]].a.q
        if k=="arr": return env[e[1]].a[e[2]].q
        if k=="v": return env[e[1]]
        if k in("stale","lastq"): return Q()   # qubit was x'd then reset at owner death -> 0
    def mkA(s,how):
        a=Obj("A",q=Q()); 
        if how=="mk": a.q.v=1
        return a
    def destroy(s,o):
        if isinstance(o,Q) or o is None: return
        k=o.kind
        if k=="A": o.q.v=0
        elif k=="B2": o.q.v=0; o.q2.v=0
        elif k=="R": o.r[0].v=0; o.r[1].v=0
        elif k=="Box": s.destroy(o.a)
        elif k=="Arr":
            for a in o.a: s.destroy(a)
        elif k=="Hd": o.h.v^=1
        elif k=="D": s.S.v^=1
    def run(s,stmts,env):
        env=dict(env); local=[]
        for st in stmts:
            k=st[0]
            if k=="declA": env[st[1]]=s.mkA(st[2]); local.append(st[1])
            elif k=="declB": env[st[1]]=Obj("B2",q=Q(),q2=Q()); local.append(st[1])
            elif k=="declR": env[st[1]]=Obj("R",r=[Q(),Q()]); local.append(st[1])
            elif k=="declBox": env[st[1]]=Obj("Box",a=s.mkA("new")); local.append(st[1])
            elif k=="declHd": env[st[1]]=Obj("Hd",h=s.ev(st[2],env)); local.append(st[1])
            elif k=="declD": env[st[1]]=Obj("D"); local.append(st[1])
            elif k=="declArr": env[st[1]]=Obj("Arr",a=[s.mkA("new"),s.mkA("mk")]); local.append(st[1])
            elif k=="declH": env[st[1]]=s.ev(st[2],env) if st[2] else Q(); local.append(st[1])
            elif k=="reA":
                old=env[st[1]]; new=s.mkA(st[2]); 
                # in-place update so outer scopes see it: mutate object
                oldq=old.q; old.q=new.q; oldq.v=0
            elif k=="reHd":
                o=env[st[1]]; newh=s.ev(st[2],env); oldh=o.h; o.h=newh; oldh.v^=1
            elif k=="hset":
                raise Skip()
            elif k=="x": s.ev(st[1],env).v^=1
            elif k=="cx":
                a=s.ev(st[1],env); b=s.ev(st[2],env)
                if a is b: raise Skip()
                b.v^=a.v
            elif k=="meas": s.out.append(f"{st_id[id(st)]}:{s.ev(st[1],env).v}")
            elif k=="pass": s.ev(st[1],env).v^=1
            elif k=="er":
                q=s.ev(st[1],env); q.v^=1
                if st[2]>0: q.v^=1
            elif k=="flipArr": env[st[1]].r[1].v^=1
            elif k=="flipTmp": pass
            elif k in("block","if"): s.run(st[1],env)
            elif k=="for2": s.run(st[1],env); s.run(st[1],env)
        for n in reversed(local): s.destroy(env[n])
def main(seed):
    g=Gen(seed); st_id.clear()
    body=g.stmts([],0,g.r.randint(8,25))
    # handle vars reassign breaks in-place model; drop hset
    def strip(b): return [ (x[0],strip(x[1])) if x[0] in("block","if","for2") else x for x in b if x[0]!="hset"]
    body=strip(body)
    # convert to lists for meas mutation
    def tol(b): return [ [x[0],tol(x[1])] if x[0] in("block","if","for2") else list(x) for x in b]
    body=tol(body)
    lines=[PRE,"function main() -> void {"]; emit(body,1,[0,0],lines); lines.append("}")
    it=Interp()
    try: it.run(body,{})
    except Skip: return False
    open(f"g{seed}.bloch","w").write("\n".join(lines)); open(f"g{seed}.exp","w").write("\n".join(it.out)+("\n" if it.out else ""))
    return True
if __name__=="__main__":
    sys.exit(0 if main(int(sys.argv[1])) else 1)
