OPENQASM 2.0;
include "qelib1.inc";
qreg q[3];
creg c[3];
reset q[0];
x q[2];
x q[0];
reset q[1];
measure q[2] -> c[2];
