#!/bin/sh
# ALWAYS run under a memory limit: without it the process tries to grow to 2^40 amplitudes
# and is only stopped by the kernel OOM killer (it took >2 min and most of a 62 GB box).
( ulimit -v 2000000; /tmp/wt_C03h2/_build/bin/bloch "$(dirname "$0")/demo.bloch"; echo "rc=$?" )
( ulimit -v 2000000; /tmp/wt_C03h2/_build/bin/bloch "$(dirname "$0")/demo_register.bloch"; echo "rc=$?" )
