#include <dirent.h>
#include <iostream>
#include "bloch/compiler/lexer/lexer.hpp"
#include "bloch/compiler/parser/parser.hpp"
#include "bloch/compiler/semantics/semantic_analyser.hpp"
#include "bloch/runtime/runtime_evaluator.hpp"
using namespace bloch::compiler; using namespace bloch::runtime;
static int threads() { int n = 0; DIR* d = opendir("/proc/self/task"); while (auto* e = readdir(d)) if (e->d_name[0] != '.') ++n; closedir(d); return n; }
int main() {
    const char* src = "class A { public int x; public constructor() -> A { this.x = 1; return this; } } function main() -> void { A a = new A(); A b = null; echo(b.x); }";
    Lexer lexer(src); auto tokens = lexer.tokenize(); Parser parser(std::move(tokens)); auto program = parser.parse();
    RuntimeEvaluator ev;
    std::cout << "threads before: " << threads() << "\n";
    try { ev.execute(*program); } catch (const std::exception& e) { std::cout << "run ended by error: " << e.what() << "\n"; }
    std::cout << "threads after failed run (evaluator still alive): " << threads() << "\n";
}
