#!/bin/bash
# uses the unchanged libraries of the normal build (no hooks); nothing under src/ is touched
cd /tmp/wt_C11h/_build && g++ -std=gnu++20 -O1 -I../src ../HUNT/d6/harness.cpp src/libbloch_runtime.a src/libbloch_compiler.a -lpthread -o /tmp/wt_C11h/HUNT/d6/harness && /tmp/wt_C11h/HUNT/d6/harness
