#!/bin/bash
# usage: cmp.sh file.bloch [extra cli args]  -- runs under several schedules and reports differences
f=$1; shift
H=/tmp/wt_C11h/HUNT/harness/blochh
base=""
for m in never always every:2 every:3 every:5 every:7 rand:1:30 rand:2:50 rand:3:10; do
  out=$(GC_MODE=$m timeout 20 $H $f --emit-qasm "$@" 2>&1; echo "exit=$?")
  if [ -z "$base" ]; then base="$out"; echo "--- never:"; echo "$out" | head -${LINES_MAX:-40}; 
  elif [ "$out" != "$base" ]; then echo "*** DIFF under $m:"; diff <(echo "$base") <(echo "$out") | head -30; fi
done
