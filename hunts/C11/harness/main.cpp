// Harness (outside src/): production CLI with BLOCH_VERIF_HOOKS collection schedule from env.
// GC_MODE = never (production-minimum: pressure/destroy/end only) | never0 (strictly none) | always | every:N | only:i,j,k | rand:SEED:PCT | timer (default: production timer)
#include <cstdlib>
#include <cstring>
#include <set>
#include <string>
#include <sstream>
#include "bloch/support/verif_hooks.hpp"
#include "bloch/cli/cli.hpp"
static int mode = 0; static unsigned long N = 1; static std::set<unsigned long> only; static unsigned long long rs; static int pct;
static int gcAt(unsigned long i) {
    switch (mode) {
        case 1: return -1;
        case 6: return 0;
        case 2: return 1;
        case 3: return (i % N) == 0 ? 1 : -1;
        case 4: return only.count(i) ? 1 : -1;
        case 5: rs = rs * 6364136223846793005ULL + 1442695040888963407ULL; return (int)((rs >> 33) % 100) < pct ? 1 : -1;
    }
    return -1;
}
int main(int argc, char** argv) {
    const char* m = getenv("GC_MODE");
    if (m && strcmp(m, "timer") != 0) {
        std::string s(m);
        bloch::verif::noTimer = true;
        bloch::verif::gcAt = gcAt;
        if (s == "never") mode = 1; else if (s == "never0") mode = 6; else if (s == "always") mode = 2;
        else if (s.rfind("every:", 0) == 0) { mode = 3; N = strtoul(s.c_str() + 6, 0, 10); }
        else if (s.rfind("only:", 0) == 0) { mode = 4; std::stringstream ss(s.substr(5)); std::string t; while (getline(ss, t, ',')) only.insert(strtoul(t.c_str(), 0, 10)); }
        else if (s.rfind("rand:", 0) == 0) { mode = 5; unsigned long sd; sscanf(s.c_str() + 5, "%lu:%d", &sd, &pct); rs = sd; }
        else if (s == "pressure") { bloch::verif::gcAt = nullptr; }
    }
    return bloch::cli::run(argc, argv, bloch::cli::Context{});
}
