#!/bin/bash
f=$1; shift
for m in never always every:3 rand:5:40; do
  GC_MODE=$m ASAN_OPTIONS=detect_leaks=0 timeout 60 /tmp/wt_C11h/HUNT/harness/blochh_asan $f "$@" 2>&1 | grep -E "ERROR: AddressSanitizer|runtime error:|SUMMARY" | head -3
done
