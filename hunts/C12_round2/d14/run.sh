#!/bin/bash
# 4 GB address-space limit so that the outcome does not depend on the machine's RAM
here=$(cd "$(dirname "$0")" && pwd)
ulimit -v 4000000
"$here/../../_build/bin/bloch" "$here/demo.bloch"
echo "exit status: $?"
