#!/bin/bash
# run the demo from a working directory that has been removed
here=$(cd "$(dirname "$0")" && pwd)
mkdir -p /tmp/bloch_gone_cwd && cd /tmp/bloch_gone_cwd && rmdir /tmp/bloch_gone_cwd
"$here/../../_build/bin/bloch" "$here/demo.bloch"
echo "exit status: $?"
