#!/bin/bash
# HOME and XDG_CACHE_HOME unset (cron job / minimal container), TMPDIR names a directory that does not exist
here=$(cd "$(dirname "$0")" && pwd)
env -u HOME -u XDG_CACHE_HOME -u CI -u BLOCH_NO_UPDATE_CHECK -u BLOCH_OFFLINE TMPDIR=/nonexistent-tmp \
    "$here/../../_build/bin/bloch" "$here/demo.bloch"
echo "exit status: $?"
