function main() -> void {
    qubit q;
    x(q);
    measure q;
}
