#!/bin/bash
# run from inside this directory
B=/tmp/wt_C05h/_build/bin/bloch
rm -f .qasm proj.qasm; mkdir -p proj.v2; cp demo.bloch proj.v2/circuit; cp demo.bloch circuit; cp demo.bloch saved.qasm   # (re)create the inputs
echo '$ bloch proj.v2/circuit'; $B proj.v2/circuit; echo "exit=$?"
echo '$ bloch ./circuit';       $B ./circuit;       echo "exit=$?"
echo '$ bloch saved.qasm   (a Bloch source whose name ends in .qasm)'; $B saved.qasm; echo "exit=$?"
echo '$ ls -A . proj.v2'; ls -A . proj.v2
echo '$ head -3 saved.qasm'; head -3 saved.qasm
