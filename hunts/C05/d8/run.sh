#!/bin/bash
# run from inside this directory: edit-run cycle on demo.bloch
B=/tmp/wt_C05h/_build/bin/bloch
rm -f demo.qasm
cp v1.bloch demo.bloch; echo '$ bloch demo.bloch --emit-qasm   (first version)'; $B demo.bloch --emit-qasm; echo "exit=$?"
cp v2.bloch demo.bloch; echo '$ bloch demo.bloch --emit-qasm   (edited version: fails at its last statement)'; $B demo.bloch --emit-qasm; echo "exit=$?"
echo '$ cat demo.qasm'; cat demo.qasm
