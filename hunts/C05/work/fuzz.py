import random, subprocess, re, math, cmath, sys
def sim(ops,n):
    st=[0j]*(1<<n); st[0]=1
    s=1/math.sqrt(2)
    for op in ops:
        g=op[0]
        if g=='cx':
            a,b=op[1],op[2]
            new=st[:]
            for i in range(1<<n):
                if i&(1<<a): new[i^(1<<b)]=st[i]
            st=new; continue
        q=op[1]
        if g in('rx','ry','rz'):
            t=op[2]; ct=math.cos(t/2); sn=math.sin(t/2)
            m={'rx':[ct,-1j*sn,-1j*sn,ct],'ry':[ct,-sn,sn,ct],'rz':[cmath.exp(-1j*t/2),0,0,cmath.exp(1j*t/2)]}[g]
        else:
            m={'h':[s,s,s,-s],'x':[0,1,1,0],'y':[0,-1j,1j,0],'z':[1,0,0,-1]}[g]
        new=st[:]
        for i in range(1<<n):
            if not i&(1<<q):
                j=i|(1<<q)
                new[i]=m[0]*st[i]+m[1]*st[j]; new[j]=m[2]*st[i]+m[3]*st[j]
        st=new
    return st
import os; os.makedirs("fz", exist_ok=True)
seed=int(sys.argv[1]); random.seed(seed)
n=5; ops=[]
src=["@shots(3000)","function main() -> void {","  @tracked qubit[%d] q;"%n]
for k in range(25):
    g=random.choice(['h','x','y','z','rx','ry','rz','cx','cx','h'])
    if g=='cx':
        a,b=random.sample(range(n),2); ops.append(('cx',a,b)); src.append("  cx(q[%d], q[%d]);"%(a,b))
    elif g[0]=='r':
        q=random.randrange(n); t=round(random.uniform(-6,6),4); ops.append((g,q,t)); src.append("  %s(q[%d], %sf);"%(g,q,repr(t)))
    else:
        q=random.randrange(n); ops.append((g,q)); src.append("  %s(q[%d]);"%(g,q))
src.append("  measure q;"); src.append("}")
open("fz/f%d.bloch"%seed,"w").write("\n".join(src)+"\n")
out=subprocess.run(["/tmp/wt_C05h/_build/bin/bloch","fz/f%d.bloch"%seed],capture_output=True,text=True).stdout
st=sim(ops,n)
probs={}
for i,a in enumerate(st):
    key=''.join('1' if i&(1<<k) else '0' for k in range(n))
    probs[key]=abs(a)**2
cnt={}
for m in re.finditer(r'^([01]{%d})\s*\|\s*(\d+)'%n,out,re.M): cnt[m.group(1)]=int(m.group(2))
tot=sum(cnt.values())
chi=0; bad=False
for k,p in probs.items():
    c=cnt.get(k,0)
    if p<1e-9:
        if c>0: bad=True; print("impossible outcome",k,c)
    else: chi+=(c-p*tot)**2/(p*tot)
print("seed",seed,"total",tot,"chi2",round(chi,1),"dof~",sum(1 for p in probs.values() if p>1e-9)-1,"BAD" if bad else "")
# also check qasm ops equal
q=open("fz/f%d.qasm"%seed).read().split('\n')[4:]
exp=[]
for op in ops:
    if op[0]=='cx': exp.append("cx q[%d],q[%d];"%(op[1],op[2]))
    elif op[0][0]=='r': exp.append("%s(%f) q[%d];"%(op[0],op[2],op[1]))
    else: exp.append("%s q[%d];"%(op[0],op[1]))
exp+=["measure q[%d] -> c[%d];"%(i,i) for i in range(n)]+['']
if q!=exp: print("QASM MISMATCH"); print(q); print(exp)
