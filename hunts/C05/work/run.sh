#!/bin/bash
# usage: run.sh file.bloch [args]
f=$1; shift
rm -f "${f%.*}.qasm"
ulimit -v 6000000; timeout 120 /tmp/wt_C05h/_build/bin/bloch "$f" --emit-qasm "$@" > "${f%.*}.out" 2> "${f%.*}.err"; rc=$?
echo "rc=$rc"; echo "--- stdout"; cat "${f%.*}.out"; echo "--- stderr"; cat "${f%.*}.err"
if [ -f "${f%.*}.qasm" ]; then echo "--- replay"; python3 /tmp/wt_C05h/HUNT/work/replay.py "${f%.*}.qasm"; else echo "--- no qasm file"; fi
