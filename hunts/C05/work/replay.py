#!/usr/bin/env python3
# Independent strict OpenQASM 2.0 (subset) checker + statevector replayer.
import sys, re, cmath, math
def main(path):
    txt = open(path).read()
    lines = txt.split('\n')
    if txt and not txt.endswith('\n'): print("WARN: no trailing newline")
    if lines and lines[-1]=='' : lines=lines[:-1]
    errs=[]
    if len(lines)<4 or lines[0]!='OPENQASM 2.0;' or lines[1]!='include "qelib1.inc";':
        errs.append("bad header"); 
    m=re.fullmatch(r'qreg q\[(\d+)\];', lines[2] if len(lines)>2 else '')
    m2=re.fullmatch(r'creg c\[(\d+)\];', lines[3] if len(lines)>3 else '')
    if not m or not m2: errs.append("bad reg decl"); print("\n".join(errs)); return 1
    n=int(m.group(1)); nc=int(m2.group(1))
    if n<1: errs.append("qreg size %d not positive"%n)
    if nc<1: errs.append("creg size %d not positive"%nc)
    st={0:1+0j}  # sparse
    c=[None]*nc
    used=set()
    real=r'[-+]?(?:\d+\.\d*|\d*\.\d+|\d+)(?:[eE][-+]?\d+)?'
    def ap1(q,mat):
        nonlocal st
        new={}
        b=1<<q
        for i,a in st.items():
            if i&b:
                new[i^b]=new.get(i^b,0)+mat[1]*a; new[i]=new.get(i,0)+mat[3]*a
            else:
                new[i]=new.get(i,0)+mat[0]*a; new[i|b]=new.get(i|b,0)+mat[2]*a
        st={k:v for k,v in new.items() if abs(v)>1e-14}
    for ln,l in enumerate(lines[4:],5):
        mm=re.fullmatch(r'(h|x|y|z) q\[(\d+)\];',l)
        if mm:
            q=int(mm.group(2)); 
            if q>=n: errs.append("line %d: index out of range: %s"%(ln,l)); continue
            used.add(q)
            s=1/math.sqrt(2)
            mat={'h':[s,s,s,-s],'x':[0,1,1,0],'y':[0,-1j,1j,0],'z':[1,0,0,-1]}[mm.group(1)]
            ap1(q,mat); continue
        mm=re.fullmatch(r'(rx|ry|rz)\(('+real+r')\) q\[(\d+)\];',l)
        if mm:
            q=int(mm.group(3)); t=float(mm.group(2))
            if q>=n: errs.append("line %d: index out of range: %s"%(ln,l)); continue
            used.add(q)
            ct=math.cos(t/2); sn=math.sin(t/2)
            g=mm.group(1)
            mat={'rx':[ct,-1j*sn,-1j*sn,ct],'ry':[ct,-sn,sn,ct],'rz':[cmath.exp(-1j*t/2),0,0,cmath.exp(1j*t/2)]}[g]
            ap1(q,mat); continue
        mm=re.fullmatch(r'cx q\[(\d+)\],q\[(\d+)\];',l)
        if mm:
            a=int(mm.group(1)); b=int(mm.group(2))
            if a>=n or b>=n: errs.append("line %d: index out of range: %s"%(ln,l)); continue
            if a==b: errs.append("line %d: cx on same qubit: %s"%(ln,l)); continue
            used.add(a); used.add(b)
            st={ (i^(1<<b) if i&(1<<a) else i):v for i,v in st.items()}; continue
        mm=re.fullmatch(r'measure q\[(\d+)\] -> c\[(\d+)\];',l)
        if mm:
            q=int(mm.group(1)); cc=int(mm.group(2))
            if q>=n or cc>=nc: errs.append("line %d: index out of range: %s"%(ln,l)); continue
            used.add(q)
            p1=sum(abs(v)**2 for i,v in st.items() if i&(1<<q))
            if p1>1-1e-9: r=1
            elif p1<1e-9: r=0
            else:
                r=1 if p1>=0.5 else 0
                print("NOTE line %d: measure q[%d] nondeterministic p1=%.6f, taking %d"%(ln,q,p1,r))
            nrm=math.sqrt(p1 if r else 1-p1)
            st={i:v/nrm for i,v in st.items() if (1 if i&(1<<q) else 0)==r}
            c[cc]=r; continue
        mm=re.fullmatch(r'reset q\[(\d+)\];',l)
        if mm:
            q=int(mm.group(1))
            if q>=n: errs.append("line %d: index out of range: %s"%(ln,l)); continue
            used.add(q)
            p1=sum(abs(v)**2 for i,v in st.items() if i&(1<<q))
            if p1>1-1e-9: r=1
            elif p1<1e-9: r=0
            else:
                r=1 if p1>=0.5 else 0
                print("NOTE line %d: reset q[%d] nondeterministic p1=%.6f, taking %d"%(ln,q,p1,r))
            nrm=math.sqrt(p1 if r else 1-p1)
            st={(i&~(1<<q)):v/nrm for i,v in st.items() if (1 if i&(1<<q) else 0)==r}
            continue
        errs.append("line %d: not valid OpenQASM 2.0 (subset): %r"%(ln,l))
    print("n=%d used=%s"%(n,sorted(used)))
    if used and max(used)+1!=n: print("NOTE: qreg larger than highest used index+1")
    if len(used)!=n: print("NOTE: unused qubits in register: %s"%sorted(set(range(n))-used))
    print("c =", c)
    print("state:", {format(i,'0%db'%max(n,1))[::-1]:(round(v.real,4)+round(v.imag,4)*1j) for i,v in sorted(st.items())}, "(bitstring q0 first)")
    for e in errs: print("ERROR:",e)
    return 1 if errs else 0
sys.exit(main(sys.argv[1]))
