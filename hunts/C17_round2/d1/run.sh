#!/bin/sh
# The address-space cap only makes the failure quick and machine-independent; without it the
# process doubles its state vector every iteration (16 GiB at iteration 30, 16 TiB at 40) until
# it is OOM-killed, hangs in swap, or reports std::bad_alloc.
cd "$(dirname "$0")"
( ulimit -v 4000000; ../../_build/bin/bloch demo.bloch; echo "rc=$?" )
../../_build/bin/bloch equivalent_ok.bloch
