OPENQASM 2.0;
include "qelib1.inc";
qreg q[3];
creg c[3];
x q[2];
measure q[2] -> c[2];
reset q[1];
reset q[2];
reset q[0];
