import random, subprocess, sys, re, os
BIN='/tmp/wt_C06h2/_build/bin/bloch'
PRE='''class Holder {
  public qubit fq;
  public qubit[2] fa;
  public qubit ext;
  public qubit[] exta;
  public constructor(qubit e, qubit[] ea) -> Holder { this.ext = e; this.exta = ea; return this; }
  public function getExt() -> qubit { return this.ext; }
  public function getFq() -> qubit { return this.fq; }
  public function getExta() -> qubit[] { return this.exta; }
  public function getFa() -> qubit[] { return this.fa; }
  public function gxExt() -> void { x(this.ext); }
  public function gxFq() -> void { x(fq); }
  public function gxFa(int i) -> void { x(this.fa[i]); }
  public function gxExta(int i) -> void { x(exta[i]); }
  public function mExt() -> bit { return measure this.ext; }
  public function mFq() -> bit { bit b = measure fq; return b; }
  public function mFa(int i) -> bit { return measure this.fa[i]; }
  public function mExta(int i) -> bit { return measure this.exta[i]; }
  public function rExt() -> void { reset this.ext; }
  public function rFq() -> void { reset fq; }
  public function rFa(int i) -> void { reset fa[i]; }
  public function rExta(int i) -> void { reset this.exta[i]; }
  public function mallFa() -> void { measure this.fa; }
  public function mallExta() -> void { measure exta; }
}
class Sub extends Holder {
  public constructor(qubit e, qubit[] ea) -> Sub { super(e, ea); return this; }
}
static class S {
  public static qubit sq;
  public static qubit[2] sa;
  public static function gx() -> void { x(sq); }
  public static function gxa(int i) -> void { x(S.sa[i]); }
  public static function m() -> bit { return measure S.sq; }
  public static function mall() -> void { measure sa; }
  public static function r() -> void { reset sq; }
}
class Box<T> {
  public T v;
  public constructor(T v) -> Box<T> { this.v = v; return this; }
  public function get() -> T { return this.v; }
  public function gx() -> void { x(this.v); }
  public function m() -> bit { return measure this.v; }
  public function r() -> void { reset this.v; }
  public function mstmt() -> void { measure this.v; }
}
function fx(qubit p) -> void { x(p); }
@quantum
function fm(qubit p) -> bit { return measure p; }
function fr(qubit p) -> void { reset p; }
function fma(qubit[] p) -> void { measure p; }
function fxa(qubit[] p, int i) -> void { x(p[i]); }
function fid(qubit p) -> qubit { return p; }
function fida(qubit[] p) -> qubit[] { return p; }
function fmrec(qubit p, int d) -> bit { if (d > 0) { return fmrec(p, d - 1); } return measure p; }
function main() -> void {
  qubit v;
  qubit[2] arr;
  Holder h = new Sub(v, arr);
  Box<qubit> bx = new Box<qubit>(v);
  Box<qubit[]> ba = new Box<qubit[]>(arr);
  Box<Holder> bh = new Box<Holder>(h);
  qubit al = v;
'''
# qubits ids: v, arr0, arr1, fq, fa0, fa1, sq, sa0, sa1
names = {
 'v': ['v','h.ext','bx.v','fid(v)','h.getExt()','bx.get()','al','bh.v.ext','bh.get().getExt()','(v)','fid(fid(al))'],
 'arr0': ['arr[0]','h.exta[0]','h.getExta()[0]','ba.v[0]','ba.get()[0]','fida(arr)[0]','bh.v.exta[0]','(arr)[0]'],
 'arr1': ['arr[1]','h.exta[1]','h.getExta()[1]','ba.v[1]','ba.get()[1]','fida(arr)[1]','bh.v.exta[1]','arr[1L]'],
 'fq': ['h.fq','h.getFq()','bh.v.fq','fid(h.fq)'],
 'fa0': ['h.fa[0]','h.getFa()[0]','bh.get().fa[0]','fida(h.fa)[0]'],
 'fa1': ['h.fa[1]','h.getFa()[1]','bh.get().fa[1]','fida(h.fa)[1]'],
 'sq': ['S.sq','fid(S.sq)'],
 'sa0': ['S.sa[0]','fida(S.sa)[0]'],
 'sa1': ['S.sa[1]','fida(S.sa)[1]'],
}
arrays = {
 'arr': (['arr','h.exta','h.getExta()','ba.v','ba.get()','fida(arr)','bh.v.exta'], ['arr0','arr1']),
 'fa': (['h.fa','h.getFa()','bh.v.fa','fida(h.fa)'], ['fa0','fa1']),
 'sa': (['S.sa','fida(S.sa)'], ['sa0','sa1']),
}
# method-specific ops: (code, kind, qubit)
special = [
 ('h.gxExt();','x','v'),('h.gxFq();','x','fq'),('h.gxFa(0);','x','fa0'),('h.gxFa(1);','x','fa1'),('h.gxExta(0);','x','arr0'),('h.gxExta(1);','x','arr1'),
 ('echo(h.mExt());','m','v'),('echo(h.mFq());','m','fq'),('echo(h.mFa(1));','m','fa1'),('echo(h.mExta(0));','m','arr0'),
 ('h.rExt();','r','v'),('h.rFq();','r','fq'),('h.rFa(0);','r','fa0'),('h.rExta(1);','r','arr1'),
 ('S.gx();','x','sq'),('S.gxa(1);','x','sa1'),('echo(S.m());','m','sq'),('S.r();','r','sq'),
 ('bx.gx();','x','v'),('echo(bx.m());','m','v'),('bx.r();','r','v'),('bx.mstmt();','ms','v'),
 ('bh.v.gxFq();','x','fq'),
]
special_arr = [('h.mallFa();','fa'),('h.mallExta();','arr'),('S.mall();','sa'),('ba.mstmt();','arr'),('bh.get().mallFa();','fa')]

def gen(seed):
    rnd = random.Random(seed)
    lines = PRE.rstrip('\n').split('\n')
    state = {q:[0,False] for q in names}  # value, measured
    expected_out=[]; err_line=None
    n = rnd.randint(4,14)
    def emit(code):
        w = rnd.random()
        if w<0.15: code='if (true) { '+code+' }'
        elif w<0.25: code='for (int i = 0; i < 1; i = i + 1) { '+code+' }'
        elif w<0.3: code='{ '+code+' }'
        lines.append('  '+code)
        return len(lines)
    for _ in range(n):
        if err_line: break
        k = rnd.random()
        if k<0.12:
            code,kind,q = rnd.choice(special)
            ln=emit(code)
            if kind=='x':
                if state[q][1]: err_line=ln
                else: state[q][0]^=1
            elif kind in('m','ms'):
                if state[q][1]: err_line=ln
                else:
                    state[q][1]=True
                    if kind=='m': expected_out.append(str(state[q][0]))
            else:
                state[q]=[0,False]
        elif k<0.2:
            code,a = rnd.choice(special_arr)
            ln=emit(code)
            for q in arrays[a][1]:
                if state[q][1]: err_line=ln;break
                state[q][1]=True
        elif k<0.3:
            a = rnd.choice(list(arrays))
            nm = rnd.choice(arrays[a][0])
            code = rnd.choice(['measure %s;','fma(%s);'])%nm
            ln=emit(code)
            for q in arrays[a][1]:
                if state[q][1]: err_line=ln;break
                state[q][1]=True
        else:
            q = rnd.choice(list(names)); nm = rnd.choice(names[q])
            op = rnd.choice(['x','x','x','m','m','ms','r','cx','fxa'])
            if op=='x':
                code = rnd.choice(['x(%s);','fx(%s);','z(%s); x(%s);','(x)(%s);'])
                code = code.replace('%s',nm)
                ln=emit(code)
                if state[q][1]: err_line=ln
                else: state[q][0]^=1
            elif op=='fxa':
                a = rnd.choice(list(arrays)); an = rnd.choice(arrays[a][0]); i=rnd.randint(0,1)
                q=arrays[a][1][i]
                ln=emit('fxa(%s, %d);'%(an,i))
                if state[q][1]: err_line=ln
                else: state[q][0]^=1
            elif op=='m':
                code = rnd.choice(['echo(measure %s);','echo(fm(%s));','{ bit b = measure %s; echo(b); }','echo(fmrec(%s, 2));'])%nm
                ln=emit(code)
                if state[q][1]: err_line=ln
                else:
                    state[q][1]=True; expected_out.append(str(state[q][0]))
            elif op=='ms':
                ln=emit('measure %s;'%nm)
                if state[q][1]: err_line=ln
                else: state[q][1]=True
            elif op=='r':
                code = rnd.choice(['reset %s;','fr(%s);'])%nm
                ln=emit(code)
                state[q]=[0,False]
            elif op=='cx':
                q2 = rnd.choice([t for t in names if t!=q]); nm2=rnd.choice(names[q2])
                ln=emit('cx(%s, %s);'%(nm,nm2))
                if state[q][1] or state[q2][1]: err_line=ln
                else:
                    if state[q][0]: state[q2][0]^=1
    lines.append('}')
    return '\n'.join(lines)+'\n', expected_out, err_line

def execp(src, fn):
    open(fn,'w').write(src)
    p = subprocess.run([BIN,fn],capture_output=True,text=True,timeout=30)
    return p.returncode, re.sub(r'\x1b\[[0-9;]*m','',p.stdout+p.stderr)
def run(seed):
    src, exp, err = gen(seed)
    fn='/tmp/wt_C06h2/HUNT/scratch/fz/p%d.bloch'%seed
    ok=True; msgs=[]
    if err:
        rc,out = execp(src, fn)
        m = re.search(r'Runtime error at Ln (\d+), Col \d+: qubit .* has already been measured',out)
        if not m or rc==0: ok=False; msgs.append(out)
        L=src.rstrip('\n').split('\n'); src='\n'.join(L[:-2]+['}'])+'\n'
    rc,out = execp(src, fn+'.pre' if err else fn)
    got=[l for l in out.split('\n') if l in('0','1')]
    if got!=exp or rc!=0 or 'rror' in out: ok=False; msgs.append(out)
    if not ok:
        print('MISMATCH seed',seed,'exp_err',err,'exp_out',exp); print('\n'.join(msgs))
    else:
        for f in (fn, fn+'.pre'):
            if os.path.exists(f): os.remove(f)
    return ok
if __name__=='__main__':
    a,b=int(sys.argv[1]),int(sys.argv[2])
    bad=0
    for s in range(a,b):
        if not run(s): bad+=1
    print('done',bad,'mismatches')
