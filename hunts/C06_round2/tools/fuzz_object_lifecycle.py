import random, subprocess, sys, re, os
BIN='/tmp/wt_C06h2/_build/bin/bloch'
PRE='''class Node {
  public qubit q;
  public qubit[2] a;
  public qubit ext;
  public constructor() -> Node { return this; }
  public constructor(qubit e) -> Node { this.ext = e; return this; }
  public function getQ() -> qubit { return this.q; }
  public function gx() -> void { x(this.q); }
  public function m() -> bit { return measure this.q; }
  public function mall() -> void { measure this.a; }
}
class Dn extends Node {
  public qubit dq;
  public constructor() -> Dn { super(); return this; }
}
function mk() -> qubit { Node t = new Node(); x(t.q); return t.q; }
function mkm() -> qubit { Node t = new Node(); x(t.q); measure t.q; return t.getQ(); }
function first(Node n) -> qubit { return n.q; }
function fx(qubit p) -> void { x(p); }
function main() -> void {
  qubit b0; qubit b1; qubit b2;
  qubit h0 = b0; qubit h1 = b1; qubit h2 = b2;
  Node o0 = null; Node o1 = null; Node o2 = null;
'''
class Q:
    def __init__(s): s.v=0; s.m=False
class Obj:
    def __init__(s, derived): s.q=Q(); s.a=[Q(),Q()]; s.ext=None; s.rc=0; s.dq=Q() if derived else None
    def die(s):
        for q in [s.q]+s.a+([s.dq] if s.dq else []): q.v=0; q.m=False
def gen(seed):
    rnd=random.Random(seed)
    lines=PRE.rstrip('\n').split('\n')
    H=[Q(),Q(),Q()]  # handle targets
    O=[None,None,None]
    out=[]; err=False
    def setobj(i,o):
        old=O[i]
        if o: o.rc+=1
        O[i]=o
        if old:
            old.rc-=1
            if old.rc==0: old.die()
    def gate(q):
        nonlocal err
        if q.m: err=True
        else: q.v^=1
    def meas(q,echo=True):
        nonlocal err
        if q.m: err=True
        else:
            q.m=True
            if echo: out.append(str(q.v))
    n=rnd.randint(10,60)
    for _ in range(n):
        if err: break
        k=rnd.randint(0,17)
        i=rnd.randint(0,2); j=rnd.randint(0,2); t=rnd.randint(0,1)
        if k==0:
            d=rnd.random()<0.3
            lines.append('  o%d = new %s();'%(i,'Dn' if d else 'Node')); 
            o=Obj(d); setobj(i,o)
        elif k==1:
            lines.append('  o%d = new Node(h%d);'%(i,j)); o=Obj(False); o.ext=H[j]; setobj(i,o)
        elif k==2:
            lines.append(rnd.choice(['  o%d = null;','  destroy o%d;'])%i); setobj(i,None)
        elif k==3:
            if i!=j: lines.append('  o%d = o%d;'%(i,j)); setobj(i,O[j])
        elif k==4 and O[i]:
            c=rnd.choice(['q','a0','a1','getQ','first','ext'])
            if c=='q': lines.append('  h%d = o%d.q;'%(j,i)); H[j]=O[i].q
            elif c=='a0': lines.append('  h%d = o%d.a[0];'%(j,i)); H[j]=O[i].a[0]
            elif c=='a1': lines.append('  h%d = o%d.a[1];'%(j,i)); H[j]=O[i].a[1]
            elif c=='getQ': lines.append('  h%d = o%d.getQ();'%(j,i)); H[j]=O[i].q
            elif c=='first': lines.append('  h%d = first(o%d);'%(j,i)); H[j]=O[i].q
            elif c=='ext' and O[i].ext: lines.append('  h%d = o%d.ext;'%(j,i)); H[j]=O[i].ext
        elif k==5:
            lines.append('  h%d = mk();'%j); H[j]=Q()
        elif k==6:
            lines.append('  h%d = mkm();'%j); H[j]=Q()
        elif k==7:
            lines.append('  h%d = new Node().q;'%j); H[j]=Q()
        elif k in(8,9):
            lines.append(rnd.choice(['  x(h%d);','  fx(h%d);'])%j); gate(H[j])
        elif k==10:
            lines.append('  echo(measure h%d);'%j); meas(H[j])
        elif k==11:
            lines.append('  reset h%d;'%j); H[j].v=0; H[j].m=False
        elif k==12 and O[i]:
            lines.append(rnd.choice(['  x(o%d.q);','  o%d.gx();'])%i); gate(O[i].q)
        elif k==13 and O[i]:
            lines.append(rnd.choice(['  echo(measure o%d.q);','  echo(o%d.m());'])%i); meas(O[i].q)
        elif k==14 and O[i]:
            lines.append(rnd.choice(['  measure o%d.a;','  o%d.mall();'])%i)
            for q in O[i].a:
                meas(q,False)
                if err: break
        elif k==15 and O[i]:
            lines.append('  x(o%d.a[%d]);'%(i,t)); gate(O[i].a[t])
        elif k==16 and O[i] and O[i].ext:
            lines.append('  x(o%d.ext);'%i); gate(O[i].ext)
        elif k==17 and O[i]:
            lines.append('  o%d.ext = h%d;'%(i,j)); O[i].ext=H[j]
    lines.append('}')
    return '\n'.join(lines)+'\n', out, err
def execp(src, fn):
    open(fn,'w').write(src)
    p = subprocess.run([BIN,fn],capture_output=True,text=True,timeout=30)
    return p.returncode, re.sub(r'\x1b\[[0-9;]*m','',p.stdout+p.stderr)
def run(seed):
    src, exp, err = gen(seed)
    fn='/tmp/wt_C06h2/HUNT/scratch/fz/g%d.bloch'%seed
    ok=True; msgs=[]
    if err:
        rc,out = execp(src, fn)
        m = re.search(r'Runtime error at Ln (\d+), Col \d+: qubit .* has already been measured',out)
        if not m or rc==0: ok=False; msgs.append(out)
        L=src.rstrip('\n').split('\n'); src='\n'.join(L[:-2]+['}'])+'\n'
    rc,out = execp(src, fn+'.pre' if err else fn)
    got=[l for l in out.split('\n') if l in('0','1')]
    if got!=exp or rc!=0 or 'rror' in out: ok=False; msgs.append(out)
    if not ok:
        print('MISMATCH seed',seed,'exp_err',err,'exp_out',exp); print('\n'.join(msgs))
    else:
        for f in (fn, fn+'.pre'):
            if os.path.exists(f): os.remove(f)
    return ok
if __name__=='__main__':
    a,b=int(sys.argv[1]),int(sys.argv[2]); bad=0
    for s in range(a,b):
        if not run(s): bad+=1
    print('done',bad,'mismatches')
