#!/bin/bash
# the address-space limit only makes the failure quick and harmless; without it the process
# first eats all RAM (state vector doubles on every iteration) and then fails the same way
ulimit -v 4000000
/tmp/wt_C06h2/_build/bin/bloch "$(dirname "$0")/demo.bloch" 2>&1 | sed 's/\x1b\[[0-9;]*m//g'
echo "rc=${PIPESTATUS[0]}"
