#!/bin/sh
# usage: run.sh file [shots]
B=/tmp/wt_C04h/_build/bin/bloch
if [ -n "$2" ]; then $B $1 --shots=$2 2>&1 | grep -v WARNING | grep -v INFO | grep -v Backend | grep -v Elapsed; fi
$B $1 --emit-qasm 2>&1 | grep -v "^OPENQASM\|^include"
