import random, subprocess, sys
HDR = '''
class A { public qubit q; public constructor() -> A = default; public function getQ() -> qubit { return this.q; } }
class P { public qubit[2] w; public A kid; public constructor() -> P { this.kid = new A(); return this; }
          public destructor() -> void { x(this.w[0]); cx(this.w[0], this.kid.q); } }
class D extends A { public qubit e; public constructor() -> D { super(); return this; } }
class G<T> { public T v; public A a; public constructor() -> G<T> { this.a = new A(); return this; } }
class H { public qubit hq; public constructor(qubit z) -> H { this.hq = z; return this; } }
static class K { public static qubit hq; public static A sa; }
function tmpA() -> A { return new A(); }
function pick(A o) -> qubit { A t = new A(); cx(o.q, t.q); return o.q; }
function touch(A o, qubit z) -> void { cx(o.q, z); P t = new P(); cx(z, t.w[1]); cx(t.w[1], o.q); }
'''
TY = {'A':'A','D':'D','P':'P','G':'G<qubit>','H':'H'}
class Gen:
    def __init__(s, seed):
        s.r = random.Random(seed); s.lines=[]; s.exp=[]; s.val={}; s.nid=0
        s.names={}      # expr -> id (usable qubit expressions)
        s.objs={}       # var -> dict(kind, fields{expr:id}, owned[ids])
        s.scopes=[[]]   # list of lists of ('q',name)|('o',var) declared
        s.cnt=0; s.ind=1; s.vartype={}
        s.K_hq = s.new_id(); s.names['K.hq']=s.K_hq
    def new_id(s):
        s.nid+=1; s.val[s.nid]=0; return s.nid
    def emit(s,l): s.lines.append('    '*s.ind+l)
    def fresh(s,p): s.cnt+=1; return f'{p}{s.cnt}'
    def make_obj(s,var,kind,arg=None):
        f={}; owned=[]
        def own(e):
            i=s.new_id(); f[e]=i; owned.append(i)
        if kind=='A': own(f'{var}.q')
        elif kind=='D': own(f'{var}.q'); own(f'{var}.e')
        elif kind=='P': own(f'{var}.w[0]'); own(f'{var}.w[1]'); own(f'{var}.kid.q')
        elif kind=='G': own(f'{var}.v'); own(f'{var}.a.q')
        elif kind=='H':
            i=s.new_id(); owned.append(i)   # hidden own qubit
            f[f'{var}.hq']=s.names[arg]
        s.objs[var]={'kind':kind,'f':f,'owned':owned}
        s.names.update(f)
    def kill_obj(s,var):
        o=s.objs.pop(var)
        for e in o['f']: s.names.pop(e,None)
        for i in o['owned']: s.val[i]=0
    def step(s, depth):
        r=s.r; c=r.random(); live=list(s.names)
        nobj=len(s.objs)
        if c<0.07 and s.nid<14:
            n=s.fresh('l'); s.emit(f'qubit {n};'); s.names[n]=s.new_id(); s.scopes[-1].append(('q',n))
        elif c<0.20 and s.nid<14 and nobj<6:
            v=s.fresh('o'); k=r.choice(['A','D','P','G','H'])
            if k=='H':
                a=r.choice(live); s.emit(f'H {v} = new H({a});'); s.make_obj(v,k,a)
            else:
                s.emit(f'{TY[k]} {v} = new {TY[k]}();'); s.make_obj(v,k)
            s.scopes[-1].append(('o',v)); s.vartype[v]=k
        elif c<0.30 and s.objs:
            v=r.choice(list(s.objs)); s.kill_obj(v); s.emit(f'destroy {v};')
        elif c<0.36 and s.vartype and s.nid<14:
            v=r.choice(list(s.vartype)); k=s.vartype[v]
            if k=='H': return
            # new object is built first, then old one dies
            old = s.objs.get(v)
            if old:
                for e in old['f']: s.names.pop(e,None)
            s.emit(f'{v} = new {TY[k]}();')
            if old:
                for i in old['owned']: s.val[i]=0
                del s.objs[v]
            s.make_obj(v,k)
        elif c<0.46 and live:
            n=s.fresh('h'); src=r.choice(live+['tmpA().q','tmpA().getQ()'])
            if src.startswith('tmpA'):
                s.emit(f'qubit {n} = {src};'); s.names[n]=s.new_id()
            else:
                s.emit(f'qubit {n} = {src};'); s.names[n]=s.names[src]
            s.scopes[-1].append(('q',n))
        elif c<0.50 and live:
            src=r.choice(live)
            if src!='K.hq':
                s.emit(f'K.hq = {src};'); s.names['K.hq']=s.names[src]
        elif c<0.60 and live:
            q=r.choice(live); s.emit(f'x({q});'); s.val[s.names[q]]^=1
        elif c<0.74 and len(live)>=2:
            a,b=r.sample(live,2)
            if s.names[a]!=s.names[b]:
                s.emit(f'cx({a}, {b});'); s.val[s.names[b]]^=s.val[s.names[a]]
        elif c<0.80 and live:
            q=r.choice(live); s.emit(f'reset {q};'); s.val[s.names[q]]=0
        elif c<0.87 and live:
            q=r.choice(live); s.emit(f'echo(measure {q}); reset {q};'); s.exp.append(s.val[s.names[q]]); s.val[s.names[q]]=0
        elif c<0.90 and live:
            q=r.choice(live); s.emit(f'cx(tmpA().q, {q});')
        elif c<0.94:
            As=[v for v in s.objs if s.objs[v]['kind'] in ('A','D')]
            if As and live:
                v=r.choice(As); z=r.choice(live)
                oq=s.names[f'{v}.q']; zi=s.names[z]
                if oq!=zi:
                    if r.random()<0.5:
                        s.emit(f'touch({v}, {z});'); s.val[zi]^=s.val[oq]; s.val[oq]^=s.val[zi]
                    else:
                        n=s.fresh('h'); s.emit(f'qubit {n} = pick({v});'); s.names[n]=oq; s.scopes[-1].append(('q',n))
        elif depth<2:
            s.emit('if (true) {'); s.ind+=1; s.scopes.append([])
            for _ in range(r.randint(2,8)): s.step(depth+1)
            for kind,n in reversed(s.scopes.pop()):
                if kind=='q': s.names.pop(n,None)
                else:
                    s.vartype.pop(n,None)
                    if n in s.objs: s.kill_obj(n)
            s.ind-=1; s.emit('}')
    def run(s):
        for _ in range(s.r.randint(15,50)): s.step(0)
        for q in list(s.names):
            s.emit(f'echo(measure {q}); reset {q};'); i=s.names[q]; s.exp.append(s.val[i]); s.val[i]=0
        return HDR+'function main() -> void {\n'+'\n'.join(s.lines)+'\n}\n', s.exp
if __name__=='__main__':
    bad=0
    for seed in range(int(sys.argv[1]),int(sys.argv[2])):
        src,exp=Gen(seed).run()
        open('g.bloch','w').write(src)
        r=subprocess.run(['/tmp/wt_C04h/_build/bin/bloch','g.bloch'],capture_output=True,text=True,timeout=120)
        out=[l for l in r.stdout.split('\n') if l in ('0','1')]
        if r.returncode!=0 or out!=[str(e) for e in exp]:
            bad+=1; open(f'bad2_{seed}.bloch','w').write(src)
            print('MISMATCH seed',seed,r.returncode,r.stderr[-200:]); print(' got',''.join(out)); print(' exp',''.join(map(str,exp)))
    print('done bad=',bad)
