import random, subprocess, sys
HDR = '''
class A { public qubit q; public constructor() -> A = default; }
class P { public qubit[2] w; public A kid; public constructor() -> P { this.kid = new A(); return this; }
          public destructor() -> void { x(this.w[0]); cx(this.w[0], this.kid.q); } }
class D extends A { public qubit e; public constructor() -> D { super(); return this; } }
class G<T> { public T v; public A a; public constructor() -> G<T> { this.a = new A(); return this; } }
static class K { public static A sa; public static P sp; }
function tmpA() -> A { return new A(); }
function touch(A o, qubit z) -> void { cx(o.q, z); P t = new P(); cx(z, t.w[1]); cx(t.w[1], o.q); }
'''
def gen(seed):
    rnd = random.Random(seed)
    lines = []; exp = []
    val = {}   # qubit key -> bit
    objs = {}  # var -> (kind, alive)
    nq = [0]; nvar=[0]
    simq = [0]
    def qs_of(var):
        k = objs[var]
        if k == 'A': return [f'{var}.q']
        if k == 'D': return [f'{var}.q', f'{var}.e']
        if k == 'P': return [f'{var}.w[0]', f'{var}.w[1]', f'{var}.kid.q']
        if k == 'G': return [f'{var}.v', f'{var}.a.q']
    live = []  # list of qubit exprs
    def refresh():
        live.clear()
        live.extend(locs)
        for v in objs: live.extend(qs_of(v))
    locs = []
    def newobj(var, declare=True):
        k = rnd.choice(['A','D','P','G'])
        ty = {'A':'A','D':'D','P':'P','G':'G<qubit>'}[k]
        if var in objs:
            for q in qs_of(var): val.pop(q, None)
        objs[var] = k
        lines.append(f'{ty+" " if declare else ""}{var} = new {ty}();')
        for q in qs_of(var): val[q] = 0
        return k
    vartype = {}
    for step in range(rnd.randint(10, 40)):
        refresh()
        c = rnd.random()
        if c < 0.12 and len(locs) < 4:
            n = f'l{nq[0]}'; nq[0]+=1
            lines.append(f'qubit {n};'); locs.append(n); val[n]=0
        elif c < 0.3 and nvar[0] < 6:
            v = f'o{nvar[0]}'; nvar[0]+=1
            k = newobj(v); vartype[v]=k
        elif c < 0.4 and objs:
            v = rnd.choice(list(objs))
            for q in qs_of(v): val.pop(q)
            del objs[v]
            lines.append(f'destroy {v};')
        elif c < 0.5 and vartype:
            # re-create in a var of same declared type
            v = rnd.choice(list(vartype))
            k = vartype[v]
            ty = {'A':'A','D':'D','P':'P','G':'G<qubit>'}[k]
            if v in objs:
                for q in qs_of(v): val.pop(q)
            objs[v]=k
            lines.append(f'{v} = new {ty}();')
            for q in qs_of(v): val[q]=0
        elif c < 0.62 and live:
            q = rnd.choice(live); lines.append(f'x({q});'); val[q]^=1
        elif c < 0.78 and len(live)>=2:
            a,b = rnd.sample(live,2); lines.append(f'cx({a}, {b});'); val[b]^=val[a]
        elif c < 0.86 and live:
            q = rnd.choice(live); lines.append(f'reset {q};'); val[q]=0
        elif c < 0.93 and live:
            q = rnd.choice(live); lines.append(f'echo(measure {q}); reset {q};'); exp.append(val[q]); val[q]=0
        elif c < 0.97 and live:
            q = rnd.choice(live); lines.append(f'cx(tmpA().q, {q});')
        else:
            As = [v for v in objs if objs[v] in ('A','D')]
            if As and live:
                v = rnd.choice(As); z = rnd.choice(live)
                if z not in qs_of(v):
                    lines.append(f'touch({v}, {z});')
                    oq = f'{v}.q'
                    # cx(o.q,z); t.w1 = z; o.q ^= z
                    val[z]^=val[oq]; val[oq]^=val[z]
    refresh()
    for q in live:
        lines.append(f'echo(measure {q}); reset {q};'); exp.append(val[q])
    src = HDR + 'function main() -> void {\n' + '\n'.join('    '+l for l in lines) + '\n}\n'
    return src, exp
if __name__ == '__main__':
    bad = 0
    for seed in range(int(sys.argv[1]), int(sys.argv[2])):
        src, exp = gen(seed)
        open('f.bloch','w').write(src)
        r = subprocess.run(['/tmp/wt_C04h/_build/bin/bloch','f.bloch'],capture_output=True,text=True,timeout=120)
        out = [l for l in r.stdout.split('\n') if l in ('0','1')]
        if r.returncode != 0 or out != [str(e) for e in exp]:
            bad += 1
            open(f'bad_{seed}.bloch','w').write(src)
            print('MISMATCH seed', seed, r.returncode, r.stderr[-300:], out, exp)
    print('done bad=',bad)
